import QP.Base
import QP.Model.PT
/-!
# C05 — compilation options never change what is played

Builds on the shared pulse-template model `QP.PT` (which already carries the `to_single_waveform` set
`Ctx.single` and the global transformation `Ctx.trafo` through `compile`).  This file adds

* `GTrafo` / `GChain` — all `Transformation` classes of `qupulse/program/transformation.py` incl.
  `LinearTransformation`, applied to a dictionary of channel values (`apply`) and to a channel-value
  *function* (`Trafo.applyF`, `Chain.applyF`: what "T applied pointwise" means in the theorems);
* `createProgramT` — `create_program(global_transformation=T, to_single_waveform=S)`;
* the convenience constructors as functions on `PT` (`concatenate`, `withRepetition`, `padTo`, `withMapping`,
  `withParallelChannels`, `withTimeReversal`, `withIteration`, `withAppended`, `withParallelAtomic`)
  mirroring the code, next to the explicit nesting each one replaces;
* the class predicates of the open findings (PF-11, junction part of PF-04) and the hypotheses of the
  `_partial` theorems;
* the line protocol `handle`.
-/
namespace QP.C05
open QP QP.PT Sexp

/-! ## Transformations -/

/-- `Transformation` classes with numeric (time independent) values -/
inductive GTrafo where
  | offset (m : List (Chan × Rat))
  | scaling (m : List (Chan × Rat))
  | parallel (m : List (Chan × Rat))
  /-- `LinearTransformation`: `ins`/`outs` sorted as the object stores them, `mat` has one row per output -/
  | linear (ins outs : List Chan) (mat : List (List Rat))
  deriving Repr, Inhabited

/-- a `ChainedTransformation` applied left to right (`[]` = identity / `None`) -/
abbrev GChain := List GTrafo

/-- a dictionary channel ↦ value (`none` = NaN) -/
abbrev Vec := List (Chan × Option Rat)

/-- `matrix_row @ data_in`; NaN propagates (also through a zero coefficient) -/
def dot : List Rat → List (Option Rat) → Option Rat
  | a :: as, some x :: xs => (dot as xs).map (fun r => a * x + r)
  | _ :: _, none :: _ => none
  | _, _ => some 0

/-- `Transformation.__call__(time, data)` -/
def GTrafo.apply (T : GTrafo) (data : Vec) : Except Err Vec :=
  match T with
  | .offset m => .ok ((Trafo.offset m).apply data)
  | .scaling m => .ok ((Trafo.scaling m).apply data)
  | .parallel m => .ok ((Trafo.parallel m).apply data)
  | .linear ins outs mat =>
      let fwd := data.filter (fun (c, _) => !ins.contains c)
      if fwd.length == data.length then .ok fwd
      else match ins.mapM (fun c => data.lookup c) with
        | none => .error .keyError
        | some xs =>
          .ok (fwd.filter (fun (c, _) => !outs.contains c) ++ (outs.zip mat).map (fun (o, row) => (o, dot row xs)))

def GChain.apply (T : GChain) (data : Vec) : Except Err Vec :=
  T.foldlM (fun d t => t.apply d) data

/-- the chains `compile` can carry (no `LinearTransformation`) -/
def GChain.toChain? : GChain → Option Chain
  | [] => some []
  | .offset m :: r => (GChain.toChain? r).map (Trafo.offset m :: ·)
  | .scaling m :: r => (GChain.toChain? r).map (Trafo.scaling m :: ·)
  | .parallel m :: r => (GChain.toChain? r).map (Trafo.parallel m :: ·)
  | .linear .. :: _ => none

/-- what a transformation does to ONE channel `c`: the argument and the result say whether the channel is
present (`none` = absent) and what its value is (`some none` = NaN).  Offset, scaling and parallel-channel
transformations act channel by channel. -/
def Trafo.chanF (T : Trafo) (c : Chan) (x : Option (Option Rat)) : Option (Option Rat) :=
  match T with
  | .offset m => match m.lookup c with
      | some o => x.map (fun v => v.map (· + o))
      | none => x
  | .scaling m => match m.lookup c with
      | some k => x.map (fun v => v.map (· * k))
      | none => x
  | .parallel m => match m.lookup c with
      | some o => some (some o)
      | none => x

def Chain.chanF (T : Chain) (c : Chan) (x : Option (Option Rat)) : Option (Option Rat) :=
  T.foldl (fun y t => Trafo.chanF t c y) x

/-- channel-value function: `none` = channel absent, `some none` = NaN -/
abbrev Vals := Chan → Option (Option Rat)

/-- a transformation applied pointwise to a channel-value function -/
def Trafo.applyF (T : Trafo) (f : Vals) : Vals := fun c => Trafo.chanF T c (f c)

def Chain.applyF (T : Chain) (f : Vals) : Vals := fun c => Chain.chanF T c (f c)

/-- the function a dictionary stands for -/
def Vec.toVals (d : Vec) : Vals := fun c => d.lookup c

/-! ## `create_program(global_transformation=, to_single_waveform=)` -/

def createProgramT (pt : PT) (params : List (String × Rat)) (mm : Option (List (MName × Option MName)))
    (cmUser : List (Chan × Option Chan)) (single : List String) (T : Chain) : Except Err (Option Loop) := do
  let ctx ← topCtx pt params mm cmUser single
  let items ← compile pt { ctx with trafo := T }
  pure (toProgram items)

/-- the observables the property speaks about -/
structure Obs where
  dur : Rat
  windows : List Window
  sample : Chan → Rat → Option Rat

def Loop.obs (l : Loop) : Obs := { dur := l.duration, windows := l.windows, sample := l.sample }

/-! ## Convenience constructors (`pulse_template.py`, `sequence_pulse_template.py`,
`repetition_pulse_template.py`, `multi_channel_pulse_template.py`, `time_reversal_pulse_template.py`) -/

/-- `SequencePulseTemplate.concatenate(*pts, **kwargs)`: sequence templates without identifier, measurements
and constraints are replaced by their sub-templates -/
def concatenate (pts : List PT) (id : Option String) (meas : List MeasDecl) (cons : List Expr) : PT :=
  .seq id (pts.flatMap (fun p => match p with
    | .seq none subs [] [] => subs
    | p => [p])) meas cons

def concatenateExplicit (pts : List PT) (id : Option String) (meas : List MeasDecl) (cons : List Expr) : PT :=
  .seq id pts meas cons

/-- `__matmul__` -/
def matmul (a b : PT) : PT := concatenate [a, b] none [] []

/-- `with_appended` -/
def withAppended (pt : PT) (appended : List PT) : PT :=
  if appended.isEmpty then pt else concatenate (pt :: appended) none [] []

def withAppendedExplicit (pt : PT) (appended : List PT) : PT :=
  if appended.isEmpty then pt else .seq none (pt :: appended) [] []

/-- `with_repetition` (`RepetitionPulseTemplate` overrides it: an unnamed repetition without measurement
declarations — PF-10 repaired — is merged into one repetition whose count is the product of the two counts, each
clamped to 0 from below — PF-C05d repaired: a negative count plays nothing) -/
def withRepetition (pt : PT) (count : Expr) : PT :=
  match pt with
  | .rep none body c [] cons => .rep none body (.mul (.max (.lit 0) c) (.max (.lit 0) count)) [] cons
  | p => .rep none p count [] []

def withRepetitionExplicit (pt : PT) (count : Expr) : PT := .rep none pt count [] []

/-- `with_iteration` -/
def withIteration (pt : PT) (idx : String) (start stop step : Expr) : PT :=
  .forLoop none pt idx start stop step [] []

/-- simultaneous substitution (`Expression.evaluate_symbolic` / `recursive_substitution`) -/
def substE (m : List (String × Expr)) : Expr → Expr
  | .lit q => .lit q
  | .var x => match m.lookup x with
      | some e => e
      | none => .var x
  | .add a b => .add (substE m a) (substE m b)
  | .mul a b => .mul (substE m a) (substE m b)
  | .pow a n => .pow (substE m a) n
  | .max a b => .max (substE m a) (substE m b)
  | .min a b => .min (substE m a) (substE m b)
  | .floor a => .floor (substE m a)
  | .ceil a => .ceil (substE m a)
  | .abs a => .abs (substE m a)
  | .cmp c a b => .cmp c (substE m a) (substE m b)
  | .unsupported => .unsupported

/-- `MappingPulseTemplate.__init__` on complete mappings ("avoid nested mappings"): an unnamed mapping template
without parameter constraints (PF-C05c repaired) as the mapped template is merged with the new one — its parameter
expressions are rewritten by the new parameter mapping, its measurement and channel targets are looked up in the
new mappings; a channel the inner template drops stays dropped (PF-C05b repaired).  `none` = the constructor
raises (a target that the new mapping does not know). -/
def mkMapping (id : Option String) (pt : PT) (pm : List (String × Expr)) (mm : List (MName × MName))
    (cm : List (Chan × Option Chan)) (cons : List Expr) : Option PT :=
  match pt with
  | .mapping none body pm' mm' cm' [] => do
      let mm'' ← mm'.mapM (fun (k, v) => (mm.lookup v).map (fun r => (k, r)))
      let cm'' ← cm'.mapM (fun (k, v) => match v with
        | none => some (k, none)
        | some o => (cm.lookup o).map (fun r => (k, r)))
      some (.mapping id body (pm'.map (fun (p, e) => (p, substE pm e))) mm'' cm'' cons)
  | p => some (.mapping id p pm mm cm cons)

/-- `with_mapping` (the mappings as `MappingPulseTemplate.__init__` completes them) -/
def withMapping (pt : PT) (pm : List (String × Expr)) (mm : List (MName × MName))
    (cm : List (Chan × Option Chan)) : Option PT :=
  mkMapping none pt pm mm cm []

def withMappingExplicit (pt : PT) (pm : List (String × Expr)) (mm : List (MName × MName))
    (cm : List (Chan × Option Chan)) : PT :=
  .mapping none pt pm mm cm []

/-- `dict` update `{**a, **b}` on expression dictionaries -/
def exprDictSet (d : List (Chan × Expr)) (k : Chan) (v : Expr) : List (Chan × Expr) :=
  if (d.lookup k).isSome then d.map (fun (c, x) => if c = k then (c, v) else (c, x)) else d ++ [(k, v)]

def exprDictUpdate (a b : List (Chan × Expr)) : List (Chan × Expr) :=
  b.foldl (fun d (k, v) => exprDictSet d k v) a

/-- `with_parallel_channels` (`ParallelChannelPulseTemplate` overrides it: an unnamed one is extended) -/
def withParallelChannels (pt : PT) (values : List (Chan × Expr)) : PT :=
  match pt with
  | .parallel none body over => .parallel none body (exprDictUpdate over values)
  | p => .parallel none p values

def withParallelChannelsExplicit (pt : PT) (values : List (Chan × Expr)) : PT := .parallel none pt values

/-- `with_time_reversal` (`TimeReversalPulseTemplate` overrides it: an unnamed reversal is undone) -/
def withTimeReversal (pt : PT) : PT :=
  match pt with
  | .timeReversal none inner => inner
  | p => .timeReversal none p

def withTimeReversalExplicit (pt : PT) : PT := .timeReversal none pt

/-- `with_parallel_atomic` (`AtomicMultiChannelPulseTemplate` overrides it: an unnamed one is extended; its
explicit duration is not carried over) -/
def withParallelAtomic (pt : PT) (par : List PT) : PT :=
  if par.isEmpty then pt else
  match pt with
  | .atomicMulti none subs _ meas cons => .atomicMulti none (subs ++ par) none meas cons
  | p => .atomicMulti none (p :: par) none [] []

def withParallelAtomicExplicit (pt : PT) (par : List PT) : PT :=
  if par.isEmpty then pt else .atomicMulti none (pt :: par) none [] []

/-- `pad_to`: `padDur` = `new_duration - self.duration`, `finals` = `self.final_values` (both symbolic
properties of the template, C04/C07), `isZero` = the symbolic test `pad_duration == 0`, `kw` = `pt_kwargs` -/
def padTo (pt : PT) (padDur : Expr) (finals : List (Chan × Expr)) (isZero : Bool)
    (kw : Option (Option String × List MeasDecl × List Expr)) : PT :=
  if kw.isNone && isZero then pt else
  let pad := PT.const none padDur finals []
  match kw with
  | some (id, meas, cons) => .seq id [pt, pad] meas cons
  | none => matmul pt pad

def padToExplicit (pt : PT) (padDur : Expr) (finals : List (Chan × Expr)) (isZero : Bool)
    (kw : Option (Option String × List MeasDecl × List Expr)) : PT :=
  if kw.isNone && isZero then pt else
  let pad := PT.const none padDur finals []
  match kw with
  | some (id, meas, cons) => .seq id [pt, pad] meas cons
  | none => .seq none [pt, pad] [] []

/-! ## Classes of the open findings and hypotheses of the `_partial` theorems -/

mutual
/-- identifiers of all templates that are entered through `_create_program` below (and including) a node -/
def idents : PT → List String
  | .const id .. | .table id .. | .point id .. | .func id .. | .atomicMulti id .. | .arithAtomic id .. =>
      id.toList
  | .seq id subs _ _ => id.toList ++ identsList subs
  | .rep id body .. => id.toList ++ idents body
  | .forLoop id body .. => id.toList ++ idents body
  | .mapping id body .. => id.toList ++ idents body
  | .parallel id body _ => id.toList ++ idents body
  | .arith id body .. => id.toList ++ idents body
  | .timeReversal id body => id.toList ++ idents body
def identsList : List PT → List String
  | [] => []
  | p :: ps => idents p ++ identsList ps
end

/-- identifiers of the templates entered through `_create_program` strictly below a node
(`TimeReversalPulseTemplate` calls `_internal_create_program` of its inner template directly) -/
def identsBelow : PT → List String
  | .seq _ subs _ _ => identsList subs
  | .rep _ body .. | .forLoop _ body .. | .mapping _ body .. | .parallel _ body _ | .arith _ body .. => idents body
  | .timeReversal _ body => identsBelow body
  | _ => []

/-- is the template collapsed by the `to_single_waveform` set `S`? -/
def isColl (S : List String) (p : PT) : Bool :=
  match p.ident with
  | some n => S.contains n
  | none => false

mutual
/-- Hypothesis of the `_partial` theorems (complement of the classes of the open findings PF-11 and
PF-04-junction, coarsened).  `S` = the identifiers collapsed by either of the two option sets compared,
`tr1` = a transformation may be in effect in both compilations, `tr2` = the first compilation may carry an
additional transformation.
* A `ParallelChannelPulseTemplate` (entered through `_internal_create_program`, i.e. not below an atomic
  template) must not be reached with an additional transformation (`tr2`), which is also the situation of a
  collapsed template below a transformation: PF-11.
* A `TimeReversalPulseTemplate` must not be reached with an additional transformation and must not contain a
  collapsed template: PF-04-junction. -/
def cleanG (S : List String) (tr1 tr2 : Bool) : PT → Bool
  | .const .. | .table .. | .point .. | .func .. | .atomicMulti .. | .arithAtomic .. => true
  | .seq _ subs _ _ => cleanL S tr1 tr2 subs
  | .rep _ body .. => cleanG S tr1 tr2 body && (!(isColl S body) || cleanG S false (tr1 || tr2) body)
  | .forLoop _ body .. => cleanG S tr1 tr2 body && (!(isColl S body) || cleanG S false (tr1 || tr2) body)
  | .mapping _ body .. => cleanG S tr1 tr2 body && (!(isColl S body) || cleanG S false (tr1 || tr2) body)
  | .parallel _ body _ => !tr2 && (cleanG S true false body && (!(isColl S body) || cleanG S false true body))
  | .arith _ body .. => cleanG S true tr2 body && (!(isColl S body) || cleanG S false true body)
  | .timeReversal _ body => !tr2 && (identsBelow body).all (fun i => !S.contains i)
def cleanL (S : List String) (tr1 tr2 : Bool) : List PT → Bool
  | [] => true
  | p :: ps => (cleanG S tr1 tr2 p && (!(isColl S p) || cleanG S false (tr1 || tr2) p)) && cleanL S tr1 tr2 ps
end

/-- the hypothesis for a template entered through `_create_program` -/
def cleanW (S : List String) (tr1 tr2 : Bool) (p : PT) : Bool :=
  cleanG S tr1 tr2 p && (!(isColl S p) || cleanG S false (tr1 || tr2) p)

/-! ## Line protocol -/

def kvRatList? (s : Sexp) : Option (List (Chan × Rat)) := Sexp.listOf? kvRat? s

def GTrafo.ofSexp : Sexp → Option GTrafo
  | .list [.atom "offset", m] => (kvRatList? m).map .offset
  | .list [.atom "scaling", m] => (kvRatList? m).map .scaling
  | .list [.atom "parallel", m] => (kvRatList? m).map .parallel
  | .list [.atom "linear", ins, outs, mat] => do
      let ins ← Sexp.listOf? str? ins
      let outs ← Sexp.listOf? str? outs
      let mat ← Sexp.listOf? (Sexp.listOf? Sexp.rat?) mat
      some (.linear ins outs mat)
  | _ => none

def gchainOf? (args : List Sexp) : Option GChain :=
  match findField "gt" args with
  | none => some []
  | some l => l.mapM GTrafo.ofSexp

def optRat? : Sexp → Option (Option Rat)
  | .atom "nan" => some none
  | s => (Sexp.rat? s).map some

/-- observables of a compiled program (same layout as `QP.PT.modelObservables`) -/
def programObservables (r : Request) (res : Except Err (Option Loop)) : Sexp :=
  match res with
  | .error e => errSx e
  | .ok none => .list [.atom "empty"]
  | .ok (some prog) =>
    let chans := prog.channelSet
    let samples : Sexp := match chans with
      | none => .list [.atom "samples", .atom "nonuniform"]
      | some cs => if r.wantSamples then
          .list (.atom "samples" :: cs.map (fun c => .list (.atom c :: r.grid.map (fun t => optRatSx (prog.sample c t)))))
        else .list [.atom "samples"]
    let wfdur : Sexp := match prog.toWaveform with
      | .ok w => Sexp.ofRat w.duration
      | .error e => errSx e
    .list [.atom "ok",
      .list (.atom "chans" :: (match chans with | some cs => cs.map Sexp.atom | none => [.atom "nonuniform"])),
      .list [.atom "dur", Sexp.ofRat prog.duration],
      .list [.atom "wfdur", wfdur],
      .list [.atom "pieces", Sexp.ofRat prog.piecesSum],
      samples,
      .list (.atom "windows" :: (if r.wantWindows then prog.windows.map windowSx else []))]

/-- observables of a denoted pulse with a chain applied pointwise -/
def pulseObservables (r : Request) (T : Chain) (res : Except Err Pulse) : Sexp :=
  match res with
  | .error e => errSx e
  | .ok p =>
    if p.isEmpty then .list [.atom "empty"] else
    let chans := T.foldl (fun cs t => applyTrafoPL t p.dur cs) p.chans
    .list [.atom "ok",
      .list (.atom "chans" :: chans.map (fun c => Sexp.atom c.1)),
      .list [.atom "dur", Sexp.ofRat p.dur],
      .list (.atom "samples" :: (if r.wantSamples then chans.map (fun (c, pl) =>
        .list (.atom c :: r.grid.map (fun t => .list ((PL.adm none pl t).map Sexp.ofRat)))) else [])),
      .list (.atom "finals" :: chans.map (fun (c, pl) =>
        .list [.atom c, match pl.getLast? with | some s => Sexp.ofRat s.v1 | none => .atom "nan"])),
      .list (.atom "windows" :: (if r.wantWindows then p.windows.map windowSx else []))]

def boolSx (b : Bool) : Sexp := .atom (if b then "true" else "false")

def kwOf? : Sexp → Option (Option (Option String × List MeasDecl × List Expr))
  | .atom "none" => some none
  | .list [id, meas, cons] => do
      some (some ((← optAtom? id), (← measList? meas), (← consList? cons)))
  | _ => none

/-- `(helper, explicit nesting)` for one helper request -/
def helperPair (name : String) (args : List Sexp) : Option (Option PT × PT) := do
  let pt1 (f : String) : Option PT := match findField f args with | some [p] => PT.ofSexp p | _ => none
  let pts (f : String) : Option (List PT) := (findField f args).bind (fun l => l.mapM PT.ofSexp)
  let ex1 (f : String) : Option Expr := match findField f args with | some [e] => Expr.ofSexp e | _ => none
  match name with
  | "concatenate" =>
      let kw ← match findField "kw" args with | some [k] => kwOf? k | _ => some none
      let (id, meas, cons) := kw.getD (none, [], [])
      let ps ← pts "args"
      some (some (concatenate ps id meas cons), concatenateExplicit ps id meas cons)
  | "matmul" => do
      let ps ← pts "args"
      match ps with
      | [a, b] => some (some (matmul a b), .seq none [a, b] [] [])
      | _ => none
  | "withAppended" => do
      let p ← pt1 "arg"; let ps ← pts "args"
      some (some (withAppended p ps), withAppendedExplicit p ps)
  | "withRepetition" => do
      let p ← pt1 "arg"; let c ← ex1 "count"
      some (some (withRepetition p c), withRepetitionExplicit p c)
  | "withIteration" => do
      let p ← pt1 "arg"
      let idx ← match findField "idx" args with | some [.atom i] => some i | _ => none
      let a ← ex1 "start"; let b ← ex1 "stop"; let s ← ex1 "step"
      some (some (withIteration p idx a b s), .forLoop none p idx a b s [] [])
  | "withMapping" => do
      let p ← pt1 "arg"
      let pm ← (← findField "pm" args).mapM kvExpr?
      let mm ← (← findField "mmap" args).mapM kvStr?
      let cm ← (← findField "cmap" args).mapM kvOpt?
      some (withMapping p pm mm cm, withMappingExplicit p pm mm cm)
  | "withParallelChannels" => do
      let p ← pt1 "arg"
      let vs ← (← findField "values" args).mapM kvExpr?
      some (some (withParallelChannels p vs), withParallelChannelsExplicit p vs)
  | "withTimeReversal" => do
      let p ← pt1 "arg"
      some (some (withTimeReversal p), withTimeReversalExplicit p)
  | "withParallelAtomic" => do
      let p ← pt1 "arg"; let ps ← pts "args"
      some (some (withParallelAtomic p ps), withParallelAtomicExplicit p ps)
  | "padTo" => do
      let p ← pt1 "arg"; let pad ← ex1 "pad"
      let finals ← (← findField "finals" args).mapM kvExpr?
      let z ← match findField "zero" args with | some [b] => Sexp.bool? b | _ => none
      let kw ← match findField "kw" args with | some [k] => kwOf? k | _ => some none
      some (some (padTo p pad finals z kw), padToExplicit p pad finals z kw)
  | _ => none

def handle (args : List Sexp) : Sexp :=
  match args with
  | .atom "run" :: rest =>
    match Request.ofSexp rest, gchainOf? rest with
    | some r, some g =>
      let spec0 := if r.wantSpec then denoteTop r.pt r.params r.mm r.cm else .error .unsupported
      let cls := .list [.atom "class",
        .list [.atom "clean", boolSx (cleanW r.single false (!g.isEmpty) r.pt)]]
      match g.toChain? with
      | some T =>
        .list [.list [.atom "model", programObservables r (createProgramT r.pt r.params r.mm r.cm r.single T)],
               .list [.atom "spec", if r.wantSpec then pulseObservables r T spec0 else .list [.atom "skipped"]],
               cls]
      | none =>
        .list [.list [.atom "model", .list [.atom "skipped"]],
               .list [.atom "spec", if r.wantSpec then pulseObservables r [] spec0 else .list [.atom "skipped"]],
               cls]
    | _, _ => Sexp.err "malformed-request"
  | .atom "gtapply" :: rest =>
    match gchainOf? rest, findField "chans" rest, findField "rows" rest with
    | some g, some chans, some rows =>
      match chans.mapM str?, rows.mapM (Sexp.listOf? optRat?) with
      | some cs, some rs =>
        .list (rs.map (fun row => match g.apply (cs.zip row) with
          | .ok out => .list (.atom "ok" :: out.map (fun (c, v) => .list [.atom c, optRatSx v]))
          | .error e => errSx e))
      | _, _ => Sexp.err "malformed-gtapply"
    | _, _, _ => Sexp.err "malformed-gtapply"
  | .atom "helper" :: .atom name :: rest =>
    match Request.ofSexp (.list [.atom "pt", .list [.atom "rev", .atom "none",
            .list [.atom "const", .atom "none", .atom "1", .list [], .list []]]] :: rest), helperPair name rest with
    | some r, some (h?, e) =>
      match h? with
      | none => .list [.list [.atom "helper", errSx .keyError], .list [.atom "explicit", pulseObservables r [] (denoteTop e r.params r.mm r.cm)],
                       .list [.atom "helper-model", errSx .keyError],
                       .list [.atom "explicit-model", programObservables r (createProgramT e r.params r.mm r.cm [] [])]]
      | some h =>
      .list [.list [.atom "helper", pulseObservables r [] (denoteTop h r.params r.mm r.cm)],
             .list [.atom "explicit", pulseObservables r [] (denoteTop e r.params r.mm r.cm)],
             .list [.atom "helper-model", programObservables r (createProgramT h r.params r.mm r.cm [] [])],
             .list [.atom "explicit-model", programObservables r (createProgramT e r.params r.mm r.cm [] [])]]
    | _, _ => Sexp.err "malformed-helper-request"
  | _ => Sexp.err "unknown-c05-request"

end QP.C05
