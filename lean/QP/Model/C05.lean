import QP.Base
namespace QP.C05
open Sexp

def handle : List Sexp → Sexp
  | _ => Sexp.err "c05-not-implemented"

end QP.C05
