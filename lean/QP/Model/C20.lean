import QP.Base
namespace QP.C20
open Sexp

def handle : List Sexp → Sexp
  | _ => Sexp.err "c20-not-implemented"

end QP.C20
