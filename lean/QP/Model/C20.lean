import QP.Base
/-!
# C20 — hardware discretisation

Model of
* `qupulse.hardware.util`: `_voltage_to_uint16_numpy`, `_voltage_to_uint16_numba`, `voltage_to_uint16`,
  `get_waveform_length`, `get_sample_times`;
* `qupulse.hardware.awgs.base.ProgramEntry._sample_waveforms`;
* `qupulse.utils.performance`: `_time_windows_to_samples_{numpy,numba}`,
  `_shrink_overlapping_windows_{numpy,numba}`, `_average_windows_{numpy,numba}`.

Numbers are exact (`Rat`, `Int`, `Nat`); `numpy.rint` / Python `round` are round-half-even (`rne`).
Every variant mirrors the algorithm of the Python function of the same name.
`shrinkNumpy` models the code **with `fixes/PF-20.diff` applied** (`shrinkNumpyPinned` keeps the
behaviour of the pinned tree); `averageNumba` keeps the defective sweep of the pinned tree (PF-23, open).
-/
namespace QP.C20

inductive Err where
  | valueError     -- `ValueError`
  | assertion      -- `AssertionError`
  | keyError       -- `KeyError` (channel not defined in the waveform)
  | zeroDivision   -- `ZeroDivisionError`
  | domain         -- outside the modelled domain (negative window, zero amplitude in `_sample_waveforms`)
  deriving Repr, BEq, DecidableEq

/-- absolute value, `numpy.abs` -/
def rabs (x : Rat) : Rat := if x < 0 then -x else x

/-- `numpy.rint` and Python's `round(x)`: round to nearest, ties to even -/
def rne (x : Rat) : Int :=
  let f := x.floor
  let d := x - (f : Rat)
  if d < (1 : Rat) / 2 then f else if (1 : Rat) / 2 < d then f + 1 else if f % 2 = 0 then f else f + 1

/-- `mapM` for `Except Err` with the evaluation order of a Python loop (first error wins) -/
def mapE {α β} (f : α → Except Err β) : List α → Except Err (List β)
  | [] => .ok []
  | a :: as =>
    match f a with
    | .error e => .error e
    | .ok b =>
      match mapE f as with
      | .error e => .error e
      | .ok bs => .ok (b :: bs)

/-! ## `voltage_to_uint16` -/

/-- `2 ** resolution - 1` -/
def levels (r : Nat) : Int := 2 ^ r - 1

/-- `(2 ** resolution - 1) / (2 * output_amplitude)` -/
def scale (amp : Rat) (r : Nat) : Rat := (levels r : Rat) / (2 * amp)

/-- `.astype(numpy.uint16)` of an integral float (two's complement wrap) -/
def toUint16 (c : Int) : Int := c % 65536

/-- `numpy.uint16(numpy.rint((v - offset + amplitude) * scale))` -/
def codeOf (amp off : Rat) (r : Nat) (v : Rat) : Int :=
  toUint16 (rne ((v - off + amp) * scale amp r))

/-- `numpy.abs(v - offset) > amplitude` -/
def outOfRange (amp off v : Rat) : Bool := decide (amp < rabs (v - off))

/-- `_voltage_to_uint16_numpy`: range test on the whole array first, then scale and round -/
def codesNumpy (amp off : Rat) (r : Nat) (vs : List Rat) : Except Err (List Int) :=
  if vs.any (outOfRange amp off) then .error .valueError
  else if amp = 0 then .error .zeroDivision
  else .ok (vs.map (codeOf amp off r))

/-- the element loop of `_voltage_to_uint16_numba`: flag and converted values -/
def numbaLoop (amp off : Rat) (r : Nat) : List Rat → Bool × List Int
  | [] => (false, [])
  | v :: vs =>
    let rest := numbaLoop amp off r vs
    (outOfRange amp off v || rest.1, codeOf amp off r v :: rest.2)

/-- `_voltage_to_uint16_numba`: scale first, convert everything, raise at the end -/
def codesNumba (amp off : Rat) (r : Nat) (vs : List Rat) : Except Err (List Int) :=
  if amp = 0 then .error .zeroDivision
  else
    let res := numbaLoop amp off r vs
    if res.1 then .error .valueError else .ok res.2

/-- `voltage_to_uint16` (the public wrapper; `useNumba` is `numba is not None`) -/
def voltageToUint16 (useNumba : Bool) (amp off : Rat) (r : Int) (vs : List Rat) : Except Err (List Int) :=
  if r < 1 then .error .valueError
  else if useNumba then codesNumba amp off r.toNat vs else codesNumpy amp off r.toNat vs

/-- size of one code step in volts -/
def step (amp : Rat) (r : Nat) : Rat := 2 * amp / (levels r : Rat)

/-- what the property demands of one code `c` for an in-range voltage `v` -/
def CodeSpec (amp off : Rat) (r : Nat) (v : Rat) (c : Int) : Prop :=
  0 ≤ c ∧ c ≤ levels r ∧ rabs ((c : Rat) * step amp r - (v - off + amp)) ≤ step amp r / 2

instance (amp off : Rat) (r : Nat) (v : Rat) (c : Int) : Decidable (CodeSpec amp off r v c) := by
  unfold CodeSpec; infer_instance

/-- monotone: a larger voltage never gets a smaller code -/
def MonotoneCodes (vs : List Rat) (cs : List Int) : Prop :=
  ∀ p ∈ vs.zip cs, ∀ q ∈ vs.zip cs, p.1 ≤ q.1 → p.2 ≤ q.2

instance (vs : List Rat) (cs : List Int) : Decidable (MonotoneCodes vs cs) := by
  unfold MonotoneCodes; infer_instance

/-- the property for one call: out-of-range input is rejected, in-range input is converted
elementwise within half a step, into `[0, 2^r-1]`, monotonically -/
def CodesSpec (amp off : Rat) (r : Nat) (vs : List Rat) : Except Err (List Int) → Prop
  | .error e => e = .valueError ∧ ∃ v ∈ vs, amp < rabs (v - off)
  | .ok cs => (∀ v ∈ vs, rabs (v - off) ≤ amp) ∧ cs.length = vs.length ∧
      (∀ p ∈ vs.zip cs, CodeSpec amp off r p.1 p.2) ∧ MonotoneCodes vs cs

instance (amp off : Rat) (r : Nat) (vs : List Rat) (o : Except Err (List Int)) :
    Decidable (CodesSpec amp off r vs o) := by
  cases o <;> (unfold CodesSpec; infer_instance)

/-- executable twin of `CodesSpec` (the judge for exact inputs) -/
def codesSpecB (amp off : Rat) (r : Nat) (vs : List Rat) (o : Except Err (List Int)) : Bool :=
  decide (CodesSpec amp off r vs o)

/-- judge with a relative tolerance `tol` for inputs on which the float computation is inexact:
a voltage whose distance to the range end is below `tol·amp` may go either way, a scaled value within
`tol·max(1,|y|)` of a half-integer may be rounded to either neighbour.  `tol = 0` is `codesSpecB`. -/
def judgeCodes (amp off : Rat) (r : Nat) (tol : Rat) (vs : List Rat) (o : Option (List Int)) : String :=
  let surelyOut := vs.any (fun v => decide (amp + tol * amp < rabs (v - off)))
  let surelyIn := vs.all (fun v => decide (rabs (v - off) ≤ amp - tol * amp))
  match o with
  | none => if surelyIn then "rejected-in-range-input" else "ok"
  | some cs =>
    if surelyOut then "accepted-out-of-range-input"
    else if cs.length ≠ vs.length then "length"
    else if (vs.zip cs).any (fun p => decide (p.2 < 0 ∨ levels r < p.2)) then "code-outside-0..2^r-1"
    else if (vs.zip cs).any (fun p =>
        let y := (p.1 - off + amp) * scale amp r
        decide ((1 : Rat) / 2 + tol * (if rabs y < 1 then 1 else rabs y) < rabs ((p.2 : Rat) - y)))
      then "more-than-half-a-step"
    else if ¬ MonotoneCodes vs cs then "not-monotone"
    else "ok"

/-! ## `get_waveform_length`, `get_sample_times` -/

/-- `get_waveform_length(waveform, sample_rate, tolerance)` on `waveform.duration = dur` -/
def waveformLength (sr tol : Rat) (dur : Rat) : Except Err Int :=
  let seg := dur * sr
  let n := rne seg
  if tol < rabs (seg - (n : Rat)) then .error .valueError
  else if n ≤ 0 then .error .valueError
  else .ok n

/-- `numpy.max(segment_lengths)` -/
def maxLen : List Int → Int
  | [] => 0
  | n :: ns => max n (maxLen ns)

/-- `numpy.arange(n, dtype=float) / float(sample_rate)` -/
def timeArray (sr : Rat) (n : Nat) : List Rat := (List.range n).map (fun (k : Nat) => (k : Rat) / sr)

/-- `get_sample_times(waveforms, sample_rate, tolerance)` on the list of durations -/
def sampleTimes (sr tol : Rat) (durs : List Rat) : Except Err (List Rat × List Int) :=
  if durs.isEmpty then .error .assertion
  else match mapE (waveformLength sr tol) durs with
    | .error e => .error e
    | .ok lens => .ok (timeArray sr (maxLen lens).toNat, lens)

/-! ## `ProgramEntry._sample_waveforms` -/

abbrev Chan := Nat

/-- what `_sample_waveforms` uses of a waveform: duration, defined channels, voltage over time -/
structure Wf where
  dur : Rat
  defined : Chan → Bool
  val : Chan → Rat → Rat

/-- `Waveform.get_sampled(channel, sample_times, output_array=…)` for a monotone time array -/
def Wf.getSampled (w : Wf) (ch : Chan) (ts : List Rat) : Except Err (List Rat) :=
  match ts.head?, ts.getLast? with
  | some t0, some t1 =>
    if t0 < 0 ∨ w.dur < t1 then .error .valueError
    else if !w.defined ch then .error .keyError
    else .ok (ts.map (w.val ch))
  | _, _ => .ok []

/-- voltage transformations the harness can express (Python callables on arrays) -/
inductive Trafo where
  | affine (a b : Rat)   -- `lambda v: a * v + b`
  | abs                  -- `numpy.abs`
  | square               -- `lambda v: v * v`
  deriving Repr, BEq, DecidableEq

def Trafo.apply : Trafo → Rat → Rat
  | .affine a b, v => a * v + b
  | .abs, v => rabs v
  | .square, v => v * v

/-- `trafo(sampled)`; `None` is the identity -/
def applyTrafo : Option Trafo → Rat → Rat
  | none, v => v
  | some t, v => t.apply v

/-- one output of the driver: channel id (or `None`), transformation, amplitude, offset -/
structure ChanCfg where
  chan : Option Chan
  trafo : Option Trafo
  amp : Rat
  off : Rat

structure Sampled where
  channels : List (Option (List Rat))
  markers : List (Option (List Bool))
  deriving BEq, DecidableEq

/-- body of the channel loop for one waveform -/
def sampleChannel (w : Wf) (wfTime : List Rat) (c : ChanCfg) : Except Err (Option (List Rat)) :=
  match c.chan with
  | none => .ok none                      -- `_sample_empty_channel`
  | some ch =>
    match w.getSampled ch wfTime with
    | .error e => .error e
    | .ok raw =>
      if c.amp = 0 then .error .domain      -- numpy would produce inf/nan; amplitude > 0 is required
      else .ok (some (raw.map (fun v => (applyTrafo c.trafo v - c.off) / c.amp)))

/-- body of the marker loop for one waveform -/
def sampleMarker (w : Wf) (wfTime : List Rat) (m : Option Chan) : Except Err (Option (List Bool)) :=
  match m with
  | none => .ok none                      -- `_sample_empty_marker`
  | some ch =>
    match w.getSampled ch wfTime with
    | .error e => .error e
    | .ok raw => .ok (some (raw.map (fun v => decide (v ≠ 0))))

/-- body of the waveform loop: `time_array[:segment_length]`, channels, then markers -/
def sampleOne (cfgs : List ChanCfg) (marks : List (Option Chan)) (times : List Rat)
    (wn : Wf × Int) : Except Err Sampled :=
  let wfTime := times.take wn.2.toNat
  match mapE (sampleChannel wn.1 wfTime) cfgs with
  | .error e => .error e
  | .ok chans =>
    match mapE (sampleMarker wn.1 wfTime) marks with
    | .error e => .error e
    | .ok ms => .ok ⟨chans, ms⟩

/-- `ProgramEntry._sample_waveforms(waveforms)` -/
def sampleWaveforms (sr tol : Rat) (cfgs : List ChanCfg) (marks : List (Option Chan))
    (wfs : List Wf) : Except Err (List Sampled) :=
  match sampleTimes sr tol (wfs.map (·.dur)) with
  | .error e => .error e
  | .ok (times, lens) => mapE (sampleOne cfgs marks times) (wfs.zip lens)

/-- the formula of the property, stated directly: sample `k` of output `c` of a waveform is
`(T(v(k / sample_rate)) - offset) / amplitude`, a marker sample is `v(k / sample_rate) ≠ 0` -/
def specOne (sr : Rat) (cfgs : List ChanCfg) (marks : List (Option Chan)) (w : Wf) : Sampled :=
  let n := (rne (w.dur * sr)).toNat
  { channels := cfgs.map (fun c => c.chan.map (fun ch =>
      (List.range n).map (fun (k : Nat) => (applyTrafo c.trafo (w.val ch ((k : Rat) / sr)) - c.off) / c.amp)))
    markers := marks.map (fun m => m.map (fun ch =>
      (List.range n).map (fun (k : Nat) => decide (w.val ch ((k : Rat) / sr) ≠ 0)))) }

def sampleSpec (sr : Rat) (cfgs : List ChanCfg) (marks : List (Option Chan)) (wfs : List Wf) :
    List Sampled :=
  wfs.map (specOne sr cfgs marks)

/-! ## `time_windows_to_samples` -/

/-- a window in time units: `(begin, length)` -/
abbrev TWin := Rat × Rat
/-- a window in samples: `(begin, length)` -/
abbrev SWin := Int × Int

/-- `round(begin * sample_rate)` / `numpy.rint`, and `numpy.floor(length * sample_rate)` -/
def conv (sr : Rat) (w : TWin) : SWin := (rne (w.1 * sr), (w.2 * sr).floor)

/-- `_is_monotonic_numba` -/
def isMonotone : List Rat → Bool
  | [] => true
  | [_] => true
  | a :: b :: rest => decide (a ≤ b) && isMonotone (b :: rest)

/-- `numpy.argsort(begins)` as a stable sort by begin.  numpy does not specify the order of equal
keys; the correspondence therefore compares windows with equal begin as a multiset. -/
def sortByBegin {β} (ws : List (Rat × β)) : List (Rat × β) :=
  ws.mergeSort (fun a b => decide (a.1 ≤ b.1))

/-- negative times wrap in the `uint64` cast (numpy) or raise `OverflowError` (plain Python):
outside the modelled domain -/
def negativeWindow (ws : List TWin) : Bool := ws.any (fun w => decide (w.1 < 0 ∨ w.2 < 0))

/-- `_time_windows_to_samples_numpy`: convert everything, then permute by `argsort(begins)` -/
def w2sNumpy (sr : Rat) (ws : List TWin) : Except Err (List SWin) :=
  if negativeWindow ws ∨ sr < 0 then .error .domain
  else .ok ((sortByBegin (ws.map (fun w => (w.1, conv sr w)))).map (·.2))

/-- `_time_windows_to_samples_numba`: monotone fast path, else permute by `argsort(begins)` and convert -/
def w2sNumba (sr : Rat) (ws : List TWin) : Except Err (List SWin) :=
  if negativeWindow ws ∨ sr < 0 then .error .domain
  else if isMonotone (ws.map (·.1)) then .ok (ws.map (conv sr))
  else .ok ((sortByBegin ws).map (conv sr))

/-- the property: the windows ordered by begin, begins rounded to nearest, lengths rounded down -/
def W2sSpec (sr : Rat) (ws : List TWin) (out : List SWin) : Prop :=
  out.Perm (ws.map (conv sr)) ∧ out.Pairwise (fun a b => a.1 ≤ b.1)

instance (sr : Rat) (ws : List TWin) (out : List SWin) : Decidable (W2sSpec sr ws out) := by
  unfold W2sSpec; infer_instance

def w2sSpecB (sr : Rat) (ws : List TWin) (out : List SWin) : Bool := decide (W2sSpec sr ws out)

/-! ## `shrink_overlapping_windows` -/

/-- a window in samples (`uint64`): `(begin, length)` -/
abbrev NWin := Nat × Nat

def NWin.stop (w : NWin) : Nat := w.1 + w.2

/-- `numpy.maximum(ends[:-1] - begins[1:], 0)` continued from the previous window's end -/
def overlapsFrom (prevEnd : Nat) : List NWin → List Nat
  | [] => []
  | w :: ws => (prevEnd - w.1) :: overlapsFrom w.stop ws

/-- the `overlaps` array of `_shrink_overlapping_windows_numpy` (`overlaps[0] = 0`) -/
def overlaps : List NWin → List Nat
  | [] => []
  | w :: ws => 0 :: overlapsFrom w.stop ws

/-- `begins += overlaps; lengths -= overlaps` -/
def applyOverlaps (ov : List Nat) (ws : List NWin) : List NWin :=
  List.zipWith (fun o w => (w.1 + o, w.2 - o)) ov ws

/-- `_shrink_overlapping_windows_numpy` **with fixes/PF-20.diff**:
`numpy.any((overlaps > 0) & (overlaps >= lengths))` -/
def shrinkNumpy (ws : List NWin) : Except Err (Bool × List NWin) :=
  let ov := overlaps ws
  if (ov.zip ws).any (fun p => decide (0 < p.1 ∧ p.2.2 ≤ p.1)) then .error .valueError
  else if ov.any (fun o => decide (0 < o)) then .ok (true, applyOverlaps ov ws)
  else .ok (false, ws)

/-- `_shrink_overlapping_windows_numpy` of the pinned tree: `numpy.any(overlaps >= lengths)` (PF-20) -/
def shrinkNumpyPinned (ws : List NWin) : Except Err (Bool × List NWin) :=
  let ov := overlaps ws
  if (ov.zip ws).any (fun p => decide (p.2.2 ≤ p.1)) then .error .valueError
  else if ov.any (fun o => decide (0 < o)) then .ok (true, applyOverlaps ov ws)
  else .ok (false, ws)

/-- the loop of `_shrink_overlapping_windows_numba` from window `idx + 1` on; `prevEnd` is
`begins[idx] + lengths[idx]` read from the (already updated) arrays -/
def shrinkNumbaLoop (prevEnd : Nat) (shrank : Bool) : List NWin → Except Err (Bool × List NWin)
  | [] => .ok (shrank, [])
  | w :: ws =>
    if w.1 < prevEnd then
      let overlap := prevEnd - w.1
      if overlap < w.2 then
        let w' : NWin := (w.1 + overlap, w.2 - overlap)
        match shrinkNumbaLoop w'.stop true ws with
        | .error e => .error e
        | .ok (s, out) => .ok (s, w' :: out)
      else .error .valueError
    else
      match shrinkNumbaLoop w.stop shrank ws with
      | .error e => .error e
      | .ok (s, out) => .ok (s, w :: out)

/-- `_shrink_overlapping_windows_numba` -/
def shrinkNumba : List NWin → Except Err (Bool × List NWin)
  | [] => .ok (false, [])
  | w :: ws =>
    match shrinkNumbaLoop w.stop false ws with
    | .error e => .error e
    | .ok (s, out) => .ok (s, w :: out)

/-- the property: no end moves, and afterwards every window ends before any later one begins -/
def ShrinkSpec (ws out : List NWin) : Prop :=
  out.map NWin.stop = ws.map NWin.stop ∧ out.Pairwise (fun a b => a.stop ≤ b.1)

instance (ws out : List NWin) : Decidable (ShrinkSpec ws out) := by
  unfold ShrinkSpec; infer_instance

def shrinkSpecB (ws out : List NWin) : Bool := decide (ShrinkSpec ws out)

/-! ## `average_windows` -/

/-- `numpy.searchsorted(time, x)` (side `left`) on a non-decreasing `time`: index of the first
element that is not smaller than `x` -/
def searchsorted : List Rat → Rat → Nat
  | [], _ => 0
  | t :: ts, x => if t < x then searchsorted ts x + 1 else 0

/-- `while start < end: result += values[start]; start += 1` for one window, `k = end - start` -/
def accLoop (values : List Rat) : Nat → Nat → Rat → Rat
  | _, 0, acc => acc
  | start, k + 1, acc => accLoop values (start + 1) k (acc + values.getD start 0)

/-- one window of `_average_windows_numpy` (`none` is NaN) -/
def averageNumpyOne (time values : List Rat) (w : Rat × Rat) : Option Rat :=
  let s := searchsorted time w.1
  let e := searchsorted time w.2
  if s < e then some (accLoop values s (e - s) 0 / ((e - s : Nat) : Rat)) else none

/-- `_average_windows_numpy(time, values, begins, ends)`; windows are `(begin, end)` -/
def averageNumpy (time values : List Rat) (ws : List (Rat × Rat)) : List (Option Rat) :=
  ws.map (averageNumpyOne time values)

/-- a window of `_average_windows_numba` with its running sum and count -/
structure Acc where
  b : Rat
  e : Rat
  sum : Rat
  cnt : Nat
  deriving Repr, BEq, DecidableEq

/-- `result[idx] = nan if count == 0 else result[idx] / count` -/
def Acc.finalize (a : Acc) : Option Rat := if a.cnt = 0 then none else some (a.sum / (a.cnt : Rat))

def Acc.add (a : Acc) (v : Rat) : Acc := { a with sum := a.sum + v, cnt := a.cnt + 1 }

/-- `while start < n_windows and ends[start] <= t:` finalise; the list is the windows from `start` on -/
def dropFinished (t : Rat) : List Acc → List (Option Rat) × List Acc
  | [] => ([], [])
  | a :: as =>
    if a.e ≤ t then
      let r := dropFinished t as
      (a.finalize :: r.1, r.2)
    else ([], a :: as)

/-- `while idx < n_windows and begins[idx] <= t:` add the sample -/
def addWhile (t v : Rat) : List Acc → List Acc
  | [] => []
  | a :: as => if a.b ≤ t then a.add v :: addWhile t v as else a :: as

/-- the sample loop of `_average_windows_numba` and the final loop over the remaining windows -/
def numbaSweep : List (Rat × Rat) → List Acc → List (Option Rat)
  | [], rem => rem.map Acc.finalize
  | (t, v) :: samples, rem =>
    let r := dropFinished t rem
    r.1 ++ numbaSweep samples (addWhile t v r.2)

/-- `_average_windows_numba(time, values, begins, ends)` (pinned tree, PF-23) -/
def averageNumba (time values : List Rat) (ws : List (Rat × Rat)) : List (Option Rat) :=
  numbaSweep (time.zip values) (ws.map (fun w => ⟨w.1, w.2, 0, 0⟩))

/-- `average_windows`: the two shape assertions, then one of the variants -/
def averageWindows (useNumba : Bool) (time values : List Rat) (ws : List (Rat × Rat)) :
    Except Err (List (Option Rat)) :=
  if values.length ≠ time.length then .error .assertion
  else .ok (if useNumba then averageNumba time values ws else averageNumpy time values ws)

/-- what an average over a window means: the mean of the samples with `begin ≤ t < end` -/
def averageSpecOne (time values : List Rat) (w : Rat × Rat) : Option Rat :=
  let sel := (time.zip values).filter (fun p => decide (w.1 ≤ p.1) && decide (p.1 < w.2))
  if sel.isEmpty then none else some ((sel.map (·.2)).sum / (sel.length : Rat))

def averageSpec (time values : List Rat) (ws : List (Rat × Rat)) : List (Option Rat) :=
  ws.map (averageSpecOne time values)

/-- non-decreasing -/
def Sorted (xs : List Rat) : Prop := xs.Pairwise (· ≤ ·)

instance (xs : List Rat) : Decidable (Sorted xs) := by unfold Sorted; infer_instance

/-- PF-23 (open): the class of inputs on which `_average_windows_numba` may differ from
`_average_windows_numpy`: begins or ends of the windows are not in non-decreasing order -/
def InKnownClassPF23 (ws : List (Rat × Rat)) : Prop :=
  ¬ (Sorted (ws.map (·.1)) ∧ Sorted (ws.map (·.2)))

instance (ws : List (Rat × Rat)) : Decidable (InKnownClassPF23 ws) := by
  unfold InKnownClassPF23; infer_instance

/-! ## Line protocol -/
open Sexp

def errS : Err → Sexp
  | .valueError => .list [.atom "error", .atom "value_error"]
  | .assertion => .list [.atom "error", .atom "assertion"]
  | .keyError => .list [.atom "error", .atom "key_error"]
  | .zeroDivision => .list [.atom "error", .atom "zero_division"]
  | .domain => .list [.atom "error", .atom "domain"]

def rats? (s : Sexp) : Option (List Rat) := listOf? rat? s
def ints? (s : Sexp) : Option (List Int) := listOf? int? s

def pair? {α β : Type} (f : Sexp → Option α) (g : Sexp → Option β) : Sexp → Option (α × β)
  | .list [a, b] => do pure (← f a, ← g b)
  | _ => none

def optAtom? {α} (f : Sexp → Option α) : Sexp → Option (Option α)
  | .atom "none" => some none
  | s => (f s).map some

def ofOpt {α} (f : α → Sexp) : Option α → Sexp
  | none => .atom "none"
  | some a => f a

def trafo? : Sexp → Option (Option Trafo)
  | .atom "none" => some none
  | .atom "abs" => some (some .abs)
  | .atom "square" => some (some .square)
  | .list [.atom "affine", a, b] => do pure (some (.affine (← rat? a) (← rat? b)))
  | _ => none

def cfg? : Sexp → Option ChanCfg
  | .list [c, t, a, o] => do
    pure ⟨← optAtom? nat? c, ← trafo? t, ← rat? a, ← rat? o⟩
  | _ => none

/-- a waveform on the wire: `(dur ((chan (v0 v1 …)) …))`, `v_j` the voltage at `j / sample_rate` -/
def wf? (sr : Rat) : Sexp → Option Wf
  | .list [d, .list chans] => do
    let d ← rat? d
    let tab ← chans.mapM (pair? nat? rats?)
    pure { dur := d
           defined := fun ch => tab.any (fun p => p.1 == ch)
           val := fun ch t =>
             match tab.find? (fun p => p.1 == ch) with
             | none => 0
             | some p =>
               let j := t * sr
               if j.den = 1 ∧ 0 ≤ j.num then p.2.getD j.num.toNat 0 else 0 }
  | _ => none

/-- does the transmitted table cover every sample the model will ask for? -/
def wfCovers (sr : Rat) : Sexp → Bool
  | .list [d, .list chans] =>
    match rat? d with
    | some d => chans.all (fun c => match pair? nat? rats? c with
        | some p => decide ((rne (d * sr)).toNat ≤ p.2.length)
        | none => false)
    | none => false
  | _ => false

def ofSampled (s : Sampled) : Sexp :=
  .list [ofList (ofOpt (ofList ofRat)) s.channels, ofList (ofOpt (ofList ofBool)) s.markers]

def sampled? : Sexp → Option Sampled
  | .list [cs, ms] => do
    pure ⟨← listOf? (optAtom? rats?) cs, ← listOf? (optAtom? (listOf? bool?)) ms⟩
  | _ => none

def swin? : Sexp → Option SWin := pair? int? int?
def nwin? : Sexp → Option NWin := pair? nat? nat?
def twin? : Sexp → Option (Rat × Rat) := pair? rat? rat?
def ofSWin (w : SWin) : Sexp := .list [ofInt w.1, ofInt w.2]
def ofNWin (w : NWin) : Sexp := .list [ofNat w.1, ofNat w.2]

def ofShrink : Except Err (Bool × List NWin) → Sexp
  | .error e => errS e
  | .ok (s, out) => .list [.atom "ok", ofBool s, ofList ofNWin out]

def ofAvg (xs : List (Option Rat)) : Sexp := ofList (ofOpt ofRat) xs

/-- compare sampled data with a relative tolerance (`tol = 0`: equality) -/
def closeRat (tol a b : Rat) : Bool :=
  decide (rabs (a - b) ≤ tol * (if rabs b < 1 then 1 else rabs b))

def closeSampled (tol : Rat) (a b : Sampled) : Bool :=
  a.markers == b.markers && a.channels.length == b.channels.length &&
  (a.channels.zip b.channels).all (fun p => match p.1, p.2 with
    | none, none => true
    | some x, some y => x.length == y.length && (x.zip y).all (fun q => closeRat tol q.1 q.2)
    | _, _ => false)

def handle : List Sexp → Sexp
  | [.atom "code", .atom variant, amp, off, r, vs] =>
    match rat? amp, rat? off, int? r, rats? vs with
    | some amp, some off, some r, some vs =>
      let res : Except Err (List Int) := match variant with
        | "np" => if r < 0 then .error .domain else codesNumpy amp off r.toNat vs
        | "nb" => if r < 0 then .error .domain else codesNumba amp off r.toNat vs
        | "wrap-np" => voltageToUint16 false amp off r vs
        | _ => voltageToUint16 true amp off r vs
      match res with
      | .error e => errS e
      | .ok cs => .list [.atom "ok", ofList ofInt cs]
    | _, _, _, _ => Sexp.err "bad-args"
  | [.atom "judge-code", amp, off, r, tol, vs, out] =>
    match rat? amp, rat? off, nat? r, rat? tol, rats? vs with
    | some amp, some off, some r, some tol, some vs =>
      match out with
      | .atom "error" => .list [.atom "judge", .atom (judgeCodes amp off r tol vs none)]
      | o => match ints? o with
        | some cs => .list [.atom "judge", .atom (judgeCodes amp off r tol vs (some cs))]
        | none => Sexp.err "bad-args"
    | _, _, _, _, _ => Sexp.err "bad-args"
  | [.atom "times", sr, tol, durs] =>
    match rat? sr, rat? tol, rats? durs with
    | some sr, some tol, some durs =>
      match sampleTimes sr tol durs with
      | .error e => errS e
      | .ok (ts, ns) => .list [.atom "ok", ofList ofRat ts, ofList ofInt ns]
    | _, _, _ => Sexp.err "bad-args"
  | [.atom "sample", sr, tol, cfgs, marks, wfs] =>
    match rat? sr, rat? tol, listOf? cfg? cfgs, listOf? (optAtom? nat?) marks with
    | some sr, some tol, some cfgs, some marks =>
      match wfs with
      | .list ws =>
        if !ws.all (wfCovers sr) then Sexp.err "table-too-short" else
        match ws.mapM (wf? sr) with
        | some wfs =>
          match sampleWaveforms sr tol cfgs marks wfs with
          | .error e => errS e
          | .ok out => .list [.atom "ok", ofList ofSampled out]
        | none => Sexp.err "bad-args"
      | _ => Sexp.err "bad-args"
    | _, _, _, _ => Sexp.err "bad-args"
  | [.atom "judge-sample", sr, jtol, cfgs, marks, wfs, out] =>
    match rat? sr, rat? jtol, listOf? cfg? cfgs, listOf? (optAtom? nat?) marks, listOf? sampled? out with
    | some sr, some jtol, some cfgs, some marks, some out =>
      match wfs with
      | .list ws =>
        if !ws.all (wfCovers sr) then Sexp.err "table-too-short" else
        match ws.mapM (wf? sr) with
        | some wfs =>
          let want := sampleSpec sr cfgs marks wfs
          let ok := want.length == out.length && (out.zip want).all (fun p => closeSampled jtol p.1 p.2)
          .list [.atom "judge", .atom (if ok then "ok" else "not-the-formula")]
        | none => Sexp.err "bad-args"
      | _ => Sexp.err "bad-args"
    | _, _, _, _, _ => Sexp.err "bad-args"
  | [.atom "w2s", .atom variant, sr, ws] =>
    match rat? sr, listOf? twin? ws with
    | some sr, some ws =>
      match (if variant == "np" then w2sNumpy sr ws else w2sNumba sr ws) with
      | .error e => errS e
      | .ok out => .list [.atom "ok", ofList ofSWin out]
    | _, _ => Sexp.err "bad-args"
  | [.atom "judge-w2s", sr, ws, out] =>
    match rat? sr, listOf? twin? ws, listOf? swin? out with
    | some sr, some ws, some out =>
      .list [.atom "judge", .atom (
        if ¬ out.Perm (ws.map (conv sr)) then "not-the-rounded-windows"
        else if w2sSpecB sr ws out then "ok" else "not-ordered-by-begin")]
    | _, _, _ => Sexp.err "bad-args"
  | [.atom "shrink", .atom variant, ws] =>
    match listOf? nwin? ws with
    | some ws => ofShrink (match variant with
        | "np" => shrinkNumpy ws
        | "np-pinned" => shrinkNumpyPinned ws
        | _ => shrinkNumba ws)
    | none => Sexp.err "bad-args"
  | [.atom "judge-shrink", ws, out] =>
    match listOf? nwin? ws, listOf? nwin? out with
    | some ws, some out =>
      .list [.atom "judge", .atom (
        if out.map NWin.stop ≠ ws.map NWin.stop then "end-moved"
        else if shrinkSpecB ws out then "ok" else "not-disjoint")]
    | _, _ => Sexp.err "bad-args"
  | [.atom "average", .atom variant, time, values, ws] =>
    match rats? time, rats? values, listOf? twin? ws with
    | some time, some values, some ws =>
      let res : Except Err (List (Option Rat)) := match variant with
        | "np" => .ok (averageNumpy time values ws)
        | "nb" => .ok (averageNumba time values ws)
        | "spec" => .ok (averageSpec time values ws)
        | "wrap-np" => averageWindows false time values ws
        | _ => averageWindows true time values ws
      match res with
      | .error e => errS e
      | .ok out => .list [.atom "ok", ofAvg out,
          .atom (if InKnownClassPF23 ws then "in-class-PF-23" else "outside-class")]
    | _, _, _ => Sexp.err "bad-args"
  | _ => Sexp.err "c20-unknown-request"

end QP.C20
