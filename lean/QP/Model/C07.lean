import QP.Base
namespace QP.C07
open Sexp

def handle : List Sexp → Sexp
  | _ => Sexp.err "c07-not-implemented"

end QP.C07
