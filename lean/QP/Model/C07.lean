import QP.Base
import QP.Model.PT
/-!
# C07 — symbolic integral, initial and final values agree with the instantiated pulse

Program side (mirrors the code that exists): the closed forms `integral`, `initial_values`, `final_values`
of every pulse template class, as *evaluators* `integralOf`, `endOf .first` (`initialOf`), `endOf .last`
(`finalOf`) `: PT → Scope → Chan → Except Err Rat`.  The real code builds a sympy expression and the user
evaluates it at concrete parameters; substitution of a loop index / of mapped parameters into the body's
expression is modelled by evaluating the body in a `RangeScope` / `MappedScope` (the two agree because sympy's
`subs` is capture avoiding and `MappingPT` substitutes simultaneously).  `sympy.integrate` of a function
template is modelled for expressions affine in `t` only (`a·d + (b-a)·d²/2`); `Sum(f, (i, 0, n))` is `sumRange`.

* `ForLoopPulseTemplate.final_values` is modelled as the code has it (PF-09, open finding):
  index `start + Max(floor((stop-start)/step) - 1, 0)·step`.
* `ForLoopPulseTemplate.integral` is modelled with the repair `fixes/PF-09b.diff` (an empty range yields 0).

Spec side: `plIntegral` (Σ len·(v0+v1)/2), `plEnd .first/.last` (start value of the first / end value of
the last piece) of the segment lists of `QP.PT.denote`; `padTo`.

Known-class predicate: `pathTags` (which of the documented classes the initial / final path of a template
runs through at the given parameters), `regular` (durations and counts non-negative, integers exact).
-/
namespace QP.C07
open QP QP.PT

/-! ## Spec side: integral, first and last value of a piecewise linear function -/

/-- `∫` of a piecewise linear function: Σ len·(v0+v1)/2 -/
def plIntegral : PL → Rat
  | [] => 0
  | s :: rest => s.len * (s.v0 + s.v1) / 2 + plIntegral rest

inductive End where | first | last
  deriving Repr, BEq, DecidableEq, Inhabited

/-- end value of the last piece -/
def plLast : PL → Option Rat
  | [] => none
  | [s] => some s.v1
  | _ :: s :: rest => plLast (s :: rest)

/-- `.first`: the value the first piece starts with (the voltage at time zero);
`.last`: the value the last piece ends on -/
def plEnd : End → PL → Option Rat
  | .first, [] => none
  | .first, s :: _ => some s.v0
  | .last, pl => plLast pl

/-- the piecewise linear function of one channel of a pulse (`[]` if the channel is absent) -/
def pulseVal (p : Pulse) (ch : Chan) : PL := (p.chans.lookup ch).getD []

/-! ## Program side: the closed forms -/

def keyOf {α} : Option α → Except Err α
  | some a => .ok a
  | none => .error .keyError

/-- `InterpolationStrategy.evaluate_integral(t0, v0, t1, v1)` -/
def interpIntegral (i : Interp) (t0 v0 t1 v1 : Rat) : Rat :=
  match i with
  | .hold => v0 * (t1 - t0)
  | .jump => v1 * (t1 - t0)
  | .linear => (t1 - t0) * (v0 + v1) / 2

/-- `TableEntry._sequence_integral`: every pair of consecutive entries contributes the integral of the
*second* entry's interpolation strategy -/
def sequenceIntegral : List WEntry → Rat
  | e1 :: e2 :: rest => interpIntegral e2.interp e1.t e1.v e2.t e2.v + sequenceIntegral (e2 :: rest)
  | _ => 0

/-- `Sum(f(i), (i, 0, n-1))` -/
def sumRange (f : Nat → Except Err Rat) : Nat → Except Err Rat
  | 0 => .ok 0
  | n + 1 => do let a ← sumRange f n; let b ← f n; pure (a + b)

/-- the function template's expression at time `t` -/
def funcAt (σ : Scope) (e : Expr) (t : Rat) : Except Err Rat :=
  e.eval (fun x => if x = "t" then .ok t else
    match σ.look x with
    | .ok v => .ok v
    | .error .parameterMissing => .error .valueError
    | .error err => .error err)

/-- value of channel number `i` of a point pulse entry -/
def pointValue (σ : Scope) (e : PEntry) (i : Nat) : Except Err Rat :=
  if e.bcast then (match e.vs with | [v] => σ.eval v | _ => .error .unsupported)
  else match e.vs[i]? with
    | some v => σ.eval v
    | none => .error .valueError

def instPoint (σ : Scope) (i : Nat) (es : List PEntry) : Except Err (List WEntry) :=
  es.mapM (fun e => do let t ← σ.eval e.t; let v ← pointValue σ e i; pure { t := t, v := v, interp := e.interp })

/-- `MappingPulseTemplate._apply_mapping_to_inner_channel_dict`: the inner channel that is mapped to `ch` -/
def innerChan (body : PT) (cm' : List (Chan × Option Chan)) (ch : Chan) : Option Chan :=
  body.definedChannels.find? (fun c => (match cm'.lookup c with | some o => o | none => some c) == some ch)

/-- the scalar operand of an `ArithmeticPulseTemplate` on channel `ch` (`_scalar_as_dict`) -/
def scalarOn (body : PT) (scalar : Scalar) (ch : Chan) : Option Expr :=
  match scalar with
  | .uniform e => if body.definedChannels.contains ch then some e else none
  | .perChan m => m.lookup ch

def scalarTimeDependent : Scalar → Bool
  | .uniform e => e.vars.contains "t"
  | .perChan m => m.any (fun (_, e) => e.vars.contains "t")

/-- `ArithmeticPulseTemplate._apply_operation_to_channel_dict` on one channel: `ptv` / `scv` are the values
of the template operand and of the scalar operand on that channel where they have one -/
def arithCombine (op : AOp) (ptIsLhs : Bool) (ptv scv : Option Rat) : Except Err Rat :=
  let both (l r : Rat) : Except Err Rat := match op with
    | .plus => .ok (l + r)
    | .minus => .ok (l - r)
    | .times => .ok (l * r)
    | .div => if ptIsLhs then (if r = 0 then .error .zeroDivision else .ok (l / r)) else .error .typeError
  let rhsOnly (r : Rat) : Except Err Rat := match op with
    | .plus => .ok r
    | .minus => .ok (-r)
    | .times => .ok r
    | .div => if ptIsLhs then (if r = 0 then .error .zeroDivision else .ok (1 / r)) else .error .typeError
  if ptIsLhs then
    match ptv, scv with
    | some p, some s => both p s
    | some p, none => .ok p
    | none, some s => rhsOnly s
    | none, none => .error .keyError
  else
    match scv, ptv with
    | some s, some p => both s p
    | some s, none => .ok s
    | none, some p => rhsOnly p
    | none, none => .error .keyError

mutual
/-- `pt.integral[ch]` evaluated in the scope `σ` -/
def integralOf : PT → Scope → Chan → Except Err Rat
  | .const _ dur amps _, σ, ch => do
      let e ← keyOf (amps.lookup ch)
      let d ← σ.eval dur
      let v ← σ.eval e
      pure (d * v)
  | .table id entries meas cons, σ, ch => do
      let es ← keyOf (entries.lookup ch)
      let ws ← instEntries σ es
      match ws, lastEntry? ws with
      | w :: _, some l => do
          let D ← templateDuration (.table id entries meas cons) σ
          pure (sequenceIntegral ({ t := 0, v := w.v, interp := .hold } :: ws ++ [{ t := D, v := l.v, interp := .hold }]))
      | _, _ => .error .valueError
  | .point _ chans entries _ _, σ, ch =>
      if !chans.contains ch then .error .keyError else do
      let ws ← instPoint σ (chans.idxOf ch) entries
      match ws with
      | w :: _ => pure (sequenceIntegral ({ t := 0, v := w.v, interp := .hold } :: ws))
      | [] => .error .valueError
  | .func _ c dur e _ _, σ, ch =>
      if c ≠ ch then .error .keyError
      else if !(e.affineIn "t") then .error .unsupported
      else do
        let d ← σ.eval dur
        let a ← funcAt σ e 0
        let b ← funcAt σ e 1
        pure (a * d + (b - a) * d * d / 2)
  | .seq _ subs _ _, σ, ch =>
      if !(PT.firstChannels subs).contains ch then .error .keyError else integralSum subs σ ch
  | .rep _ body count _ _, σ, ch => do
      let c ← σ.eval count
      let v ← integralOf body σ ch
      pure (c * v)
  | .forLoop _ body idx start stop step _ _, σ, ch => do
      let a ← σ.eval start
      let b ← σ.eval stop
      let s ← σ.eval step
      if s = 0 then .error .zeroDivision else
      let stepCount : Int := ((b - a) / s).ceil
      -- PF-09b repaired: `Piecewise((0, step_count <= 0), (Sum(...), True))`
      if stepCount ≤ 0 then pure 0 else
      sumRange (fun (k : Nat) => integralOf body (.range σ idx (a + (k : Rat) * s)) ch)
        ((if stepCount ≤ 1 then 1 else stepCount) - 1 + 1).toNat
  | .mapping _ body pm _ cm' _, σ, ch => do
      let c ← keyOf (innerChan body cm' ch)
      integralOf body (.mapped σ pm) c
  | .parallel _ body over, σ, ch =>
      match over.lookup ch with
      | some e => do
          let v ← σ.eval e
          let d ← templateDuration body σ
          pure (v * d)
      | none => integralOf body σ ch
  | .atomicMulti _ subs _ _ _, σ, ch => integralMulti subs σ ch
  | .arith _ body op scalar ptIsLhs, σ, ch =>
      if scalarTimeDependent scalar then .error .unsupported else do
      let ptv ← if body.definedChannels.contains ch then (do let v ← integralOf body σ ch; pure (some v))
                else pure none
      let scv ← match scalarOn body scalar ch with
        | none => pure none
        | some e => do
            let v ← σ.eval e
            match op with
            | .plus | .minus => do let d ← templateDuration body σ; pure (some (v * d))
            | .times | .div => pure (some v)
      arithCombine op ptIsLhs ptv scv
  | .arithAtomic _ lhs minus rhs _, σ, ch =>
      if lhs.definedChannels.contains ch then do
        let l ← integralOf lhs σ ch
        if rhs.definedChannels.contains ch then do
          let r ← integralOf rhs σ ch
          pure (if minus then l - r else l + r)
        else pure l
      else if rhs.definedChannels.contains ch then do
        let r ← integralOf rhs σ ch
        pure (if minus then -r else r)
      else .error .keyError
  | .timeReversal _ body, σ, ch => integralOf body σ ch
/-- `SequencePulseTemplate.integral`: the sum over all sub-templates -/
def integralSum : List PT → Scope → Chan → Except Err Rat
  | [], _, _ => .ok 0
  | p :: ps, σ, ch => do
      let a ← integralOf p σ ch
      let b ← integralSum ps σ ch
      pure (a + b)
/-- `AtomicMultiChannelPulseTemplate.integral`: `dict.update` in order, a later sub-template wins -/
def integralMulti : List PT → Scope → Chan → Except Err Rat
  | [], _, _ => .error .keyError
  | p :: ps, σ, ch =>
      if (PT.allChannels ps).contains ch then integralMulti ps σ ch
      else if p.definedChannels.contains ch then integralOf p σ ch
      else .error .keyError
end

mutual
/-- does `pt.initial_values` / `pt.final_values` exist (no `NotImplementedError` on the way)? -/
def provides (e : End) : PT → Bool
  | .const .. | .table .. | .point .. | .func .. => true
  | .seq _ subs _ _ => providesEnd e subs
  | .rep _ body _ _ _ => provides e body
  | .forLoop _ body _ _ _ _ _ _ => provides e body
  | .mapping _ body _ _ _ _ => provides e body
  | .parallel _ body _ => provides e body
  | .atomicMulti _ subs _ _ _ => providesAll e subs
  | .arith _ body _ _ _ => provides e body
  | .arithAtomic _ lhs _ rhs _ => provides e lhs && provides e rhs
  | .timeReversal .. => false
/-- the first (`.first`) / last (`.last`) sub-template provides it -/
def providesEnd (e : End) : List PT → Bool
  | [] => false
  | [p] => provides e p
  | p :: q :: rest => match e with
      | .first => provides e p
      | .last => providesEnd e (q :: rest)
def providesAll (e : End) : List PT → Bool
  | [] => true
  | p :: ps => provides e p && providesAll e ps
end

mutual
/-- `pt.initial_values[ch]` (`e = .first`) and `pt.final_values[ch]` (`e = .last`) evaluated in `σ` -/
def endOf (e : End) : PT → Scope → Chan → Except Err Rat
  | .const _ _ amps _, σ, ch => do
      let x ← keyOf (amps.lookup ch)
      σ.eval x
  | .table _ entries _ _, σ, ch => do
      let es ← keyOf (entries.lookup ch)
      match e with
      | .first => (match es with | x :: _ => σ.eval x.v | [] => .error .valueError)
      | .last => (match es.getLast? with | some x => σ.eval x.v | none => .error .valueError)
  | .point _ chans entries _ _, σ, ch =>
      if !chans.contains ch then .error .keyError else
      match e with
      | .first => (match entries with | x :: _ => pointValue σ x (chans.idxOf ch) | [] => .error .valueError)
      | .last => (match entries.getLast? with | some x => pointValue σ x (chans.idxOf ch) | none => .error .valueError)
  | .func _ c dur x _ _, σ, ch =>
      if c ≠ ch then .error .keyError else
      match e with
      | .first => funcAt σ x 0
      | .last => do let d ← σ.eval dur; funcAt σ x d
  | .seq _ subs _ _, σ, ch => endOfEnd e subs σ ch
  | .rep _ body _ _ _, σ, ch => endOf e body σ ch
  | .forLoop _ body idx start stop step _ _, σ, ch =>
      match e with
      | .first => do
          let a ← σ.eval start
          endOf e body (.range σ idx a) ch
      | .last => do
          let a ← σ.eval start
          let s ← σ.eval step
          let b ← σ.eval stop
          if s = 0 then .error .zeroDivision else
          -- PF-09: `n = (stop - start) // step; final_idx = start + Max(n - 1, 0) * step`
          let n : Int := ((b - a) / s).floor
          let k : Int := if n - 1 ≤ 0 then 0 else n - 1
          endOf e body (.range σ idx (a + (k : Rat) * s)) ch
  | .mapping _ body pm _ cm' _, σ, ch => do
      let c ← keyOf (innerChan body cm' ch)
      endOf e body (.mapped σ pm) c
  | .parallel _ body over, σ, ch =>
      if !(provides e body) then .error .unsupported else
      match over.lookup ch with
      | some x => σ.eval x
      | none => endOf e body σ ch
  | .atomicMulti _ subs _ _ _, σ, ch =>
      if !(providesAll e subs) then .error .unsupported else endOfMulti e subs σ ch
  | .arith _ body op scalar ptIsLhs, σ, ch => do
      let ptv ← if body.definedChannels.contains ch then (do let v ← endOf e body σ ch; pure (some v))
                else if provides e body then pure none else .error .unsupported
      let scv ← match scalarOn body scalar ch with
        | none => pure none
        | some x => do let v ← σ.eval x; pure (some v)
      arithCombine op ptIsLhs ptv scv
  | .arithAtomic _ lhs minus rhs _, σ, ch =>
      if !(provides e lhs && provides e rhs) then .error .unsupported else
      if lhs.definedChannels.contains ch then do
        let l ← endOf e lhs σ ch
        if rhs.definedChannels.contains ch then do
          let r ← endOf e rhs σ ch
          pure (if minus then l - r else l + r)
        else pure l
      else if rhs.definedChannels.contains ch then do
        let r ← endOf e rhs σ ch
        pure (if minus then -r else r)
      else .error .keyError
  | .timeReversal .., _, _ => .error .unsupported
/-- `SequencePulseTemplate.initial_values / final_values`: of the first / the last sub-template -/
def endOfEnd (e : End) : List PT → Scope → Chan → Except Err Rat
  | [], _, _ => .error .valueError
  | [p], σ, ch => endOf e p σ ch
  | p :: q :: rest, σ, ch => match e with
      | .first => endOf e p σ ch
      | .last => endOfEnd e (q :: rest) σ ch
def endOfMulti (e : End) : List PT → Scope → Chan → Except Err Rat
  | [], _, _ => .error .keyError
  | p :: ps, σ, ch =>
      if (PT.allChannels ps).contains ch then endOfMulti e ps σ ch
      else if p.definedChannels.contains ch then endOf e p σ ch
      else .error .keyError
end

abbrev initialOf (pt : PT) (σ : Scope) (ch : Chan) : Except Err Rat := endOf .first pt σ ch
abbrev finalOf (pt : PT) (σ : Scope) (ch : Chan) : Except Err Rat := endOf .last pt σ ch

/-! ## `pad_to` -/

/-- `PulseTemplate.pad_to(new_duration)` at the parameters `σ`: the template followed by a constant template
of duration `new_duration - self.duration` holding `self.final_values` (both evaluated at `σ`; the real code
builds the same constant template symbolically and evaluates it in the same scope) -/
def padTo (pt : PT) (σ : Scope) (newDur : Rat) : Except Err PT := do
  let D ← templateDuration pt σ
  let fv ← pt.definedChannels.mapM (fun c => do let v ← finalOf pt σ c; pure (c, Expr.lit v))
  pure (.seq none [pt, .const none (.lit (newDur - D)) fv []] [] [])

/-! ## Regular parameter assignments and the documented classes -/

def isInt (q : Rat) : Bool := q.den == 1

def evalsTo (σ : Scope) (e : Expr) (p : Rat → Bool) : Bool :=
  match σ.eval e with
  | .ok v => p v
  | .error _ => false

/-- the duration expressions of the sub-templates of an atomic multi channel template agree at the parameters (the code
compares the durations of the sub-waveforms that exist only) -/
def sameDurations (subs : List PT) (σ : Scope) : Bool :=
  match subs with
  | [] => true
  | p :: ps => match templateDuration p σ with
      | .ok d => ps.all (fun q => match templateDuration q σ with | .ok d' => d' == d | .error _ => false)
      | .error _ => false

mutual
/-- durations, entry times and repetition counts are non-negative, the entry times of a table do not decrease, counts
and loop ranges are exact integers (the code accepts values within 1e-6 of an integer, instantiates negative
durations / counts as the empty pulse and does not look at the entries of a table of duration 0); the duration
expressions of the parts of an atomic multi channel template and of the two operands of an atomic arithmetic template
agree (the code only compares the waveforms that exist: a part of duration 0 silently vanishes with its channels) -/
def regular : PT → Scope → Bool
  | .const _ dur _ _, σ => evalsTo σ dur (fun d => decide (0 ≤ d))
  | .table _ entries _ _, σ => entries.all (fun x => match instEntries σ x.2 with
      | .ok ws => sortedTimes ws && ws.all (fun w => decide (0 ≤ w.t))
      | .error _ => false)
  | .point _ chans entries _ _, σ => (List.range chans.length).all (fun i => match instPoint σ i entries with
      | .ok ws => sortedTimes ws && ws.all (fun w => decide (0 ≤ w.t))
      | .error _ => false)
  | .func _ _ dur _ _ _, σ => evalsTo σ dur (fun d => decide (0 ≤ d))
  | .seq _ subs _ _, σ => regularAll subs σ
  | .rep _ body count _ _, σ => evalsTo σ count (fun c => isInt c && decide (0 ≤ c)) && regular body σ
  | .forLoop _ body idx start stop step _ _, σ =>
      match σ.eval start, σ.eval stop, σ.eval step with
      | .ok a, .ok b, .ok s =>
          isInt a && isInt b && isInt s && decide (s ≠ 0) &&
          (pyRange a.num b.num s.num).all (fun (i : Int) => regular body (.range σ idx (i : Rat)))
      | _, _, _ => false
  | .mapping _ body pm _ _ _, σ => regular body (.mapped σ pm)
  | .parallel _ body _, σ => regular body σ
  | .atomicMulti _ subs dur _ _, σ => regularAll subs σ && sameDurations subs σ &&
      (match dur with
       | some de => (match σ.eval de, templateDurationFirst subs σ with
          | .ok x, .ok y => x == y
          | _, _ => false)
       | none => true)
  | .arith _ body _ _ _, σ => regular body σ
  | .arithAtomic _ lhs _ rhs _, σ => regular lhs σ && regular rhs σ &&
      (match templateDuration lhs σ, templateDuration rhs σ with
       | .ok x, .ok y => x == y
       | _, _ => false)
  | .timeReversal _ body, σ => regular body σ
def regularAll : List PT → Scope → Bool
  | [], _ => true
  | p :: ps, σ => regular p σ && regularAll ps σ
end

mutual
/-- the quantifier of the correspondence run (weaker than `regular`: without the agreement of the durations of the
parts of atomic multi channel / atomic arithmetic templates and with the entry times of point templates only
non-negative): an assignment outside it is not judged -/
def regularBase : PT → Scope → Bool
  | .const _ dur _ _, σ => evalsTo σ dur (fun d => decide (0 ≤ d))
  | .table _ entries _ _, σ => entries.all (fun x => match instEntries σ x.2 with
      | .ok ws => sortedTimes ws && ws.all (fun w => decide (0 ≤ w.t))
      | .error _ => false)
  | .point _ _ entries _ _, σ => entries.all (fun x => evalsTo σ x.t (fun t => decide (0 ≤ t)))
  | .func _ _ dur _ _ _, σ => evalsTo σ dur (fun d => decide (0 ≤ d))
  | .seq _ subs _ _, σ => regularBaseAll subs σ
  | .rep _ body count _ _, σ => evalsTo σ count (fun c => isInt c && decide (0 ≤ c)) && regularBase body σ
  | .forLoop _ body idx start stop step _ _, σ =>
      match σ.eval start, σ.eval stop, σ.eval step with
      | .ok a, .ok b, .ok s =>
          isInt a && isInt b && isInt s && decide (s ≠ 0) &&
          (pyRange a.num b.num s.num).all (fun (i : Int) => regularBase body (.range σ idx (i : Rat)))
      | _, _, _ => false
  | .mapping _ body pm _ _ _, σ => regularBase body (.mapped σ pm)
  | .parallel _ body _, σ => regularBase body σ
  | .atomicMulti _ subs _ _ _, σ => regularBaseAll subs σ
  | .arith _ body _ _ _, σ => regularBase body σ
  | .arithAtomic _ lhs _ rhs _, σ => regularBase lhs σ && regularBase rhs σ
  | .timeReversal _ body, σ => regularBase body σ
def regularBaseAll : List PT → Scope → Bool
  | [], _ => true
  | p :: ps, σ => regularBase p σ && regularBaseAll ps σ
end

/-- at least one of the channels is kept by the channel mapping -/
def keepsSome (cm : List (Chan × Option Chan)) (cs : List Chan) : Bool :=
  cs.any (fun c => match cm.lookup c with | some (some _) => true | _ => false)

mutual
/-- every atomic leaf keeps at least one channel under the channel mapping.  An atomic leaf all of whose channels are
dropped vanishes from the instantiated pulse together with its duration (`build_waveform` returns `None`); the closed
forms of channels added around it (parallel channel, scalar offset times duration) then describe a pulse that is not
instantiated -- the same exclusion C04 makes -/
def keeps : PT → List (Chan × Option Chan) → Bool
  | .const _ _ amps _, cm => keepsSome cm (amps.map (·.1))
  | .table _ entries _ _, cm => keepsSome cm (entries.map (·.1))
  | .point _ chans _ _ _, cm => keepsSome cm chans
  | .func _ ch _ _ _ _, cm => keepsSome cm [ch]
  | .seq _ subs _ _, cm => keepsAll subs cm
  | .rep _ body _ _ _, cm => keeps body cm
  | .forLoop _ body _ _ _ _ _ _, cm => keeps body cm
  | .mapping _ body _ _ cm' _, cm => match updatedCm cm' cm with
      | .ok cmU => keeps body cmU
      | .error _ => false
  | .parallel _ body _, cm => keeps body cm
  | .atomicMulti _ subs _ _ _, cm => keepsAll subs cm
  | .arith _ body _ _ _, cm => keeps body cm
  | .arithAtomic _ lhs _ rhs _, cm => keeps lhs cm && keeps rhs cm
  | .timeReversal _ body, cm => keeps body cm
def keepsAll : List PT → List (Chan × Option Chan) → Bool
  | [], _ => true
  | p :: ps, cm => keeps p cm && keepsAll ps cm
end

mutual
/-- every part of the template is actually played: durations and repetition counts are strictly positive, sequences
and loop ranges are not empty.  `create_program` skips a constant / point template of duration 0, the body of a
repetition with count 0 or of a loop with an empty range, and the scalar operand of an arithmetic template whose
operand is empty, without looking at the expressions in there, so that the success of `denote` says nothing about
whether they evaluate; under `positive` every expression of the template is evaluated on the way.
Hypothesis of the definedness theorems only. -/
def positive : PT → Scope → Bool
  | .const _ dur _ _, σ => evalsTo σ dur (fun d => decide (0 < d))
  | .table id entries meas cons, σ => match templateDuration (.table id entries meas cons) σ with
      | .ok d => decide (0 < d)
      | .error _ => false
  | .point _ _ entries _ _, σ => match entries.getLast? with
      | some e => evalsTo σ e.t (fun t => decide (0 < t))
      | none => false
  | .func _ _ dur _ _ _, σ => evalsTo σ dur (fun d => decide (0 < d))
  | .seq _ subs _ _, σ => !subs.isEmpty && positiveAll subs σ
  | .rep _ body count _ _, σ => evalsTo σ count (fun c => decide (0 < c)) && positive body σ
  | .forLoop _ body idx start stop step _ _, σ =>
      match σ.eval start, σ.eval stop, σ.eval step with
      | .ok a, .ok b, .ok s =>
          !(pyRange a.num b.num s.num).isEmpty &&
          (pyRange a.num b.num s.num).all (fun (i : Int) => positive body (.range σ idx (i : Rat)))
      | _, _, _ => false
  | .mapping _ body pm _ _ _, σ => positive body (.mapped σ pm)
  | .parallel _ body _, σ => positive body σ
  | .atomicMulti _ subs _ _ _, σ => positiveAll subs σ
  | .arith _ body _ _ _, σ => positive body σ
  | .arithAtomic _ lhs _ rhs _, σ => positive lhs σ && positive rhs σ
  | .timeReversal _ body, σ => positive body σ
def positiveAll : List PT → Scope → Bool
  | [], _ => true
  | p :: ps, σ => positive p σ && positiveAll ps σ
end

/-- documented classes on the initial / final path of a template -/
inductive Tag where
  /-- PF-09: `ForLoopPulseTemplate.final_values` evaluates the body at an index that is not the last one -/
  | pf09
  /-- the sub-template / iteration the closed form reads is empty at these parameters -/
  | emptyPart
  /-- a table whose first played value is not its first entry's value (`jump` or zero length first segment) -/
  | tableStart
  /-- a table whose last played value is not its last entry's value (`hold` or zero length last segment):
  the template *specifies* the entry's value at its end -/
  | tableEnd
  deriving Repr, BEq, DecidableEq, Inhabited

def Tag.name : Tag → String
  | .pf09 => "pf09" | .emptyPart => "empty-part" | .tableStart => "table-start" | .tableEnd => "table-end"

/-- the part plays nothing on (the outer channel of) `ch`: it is the empty pulse or has zero duration -/
def chanEmpty (r : Except Err Pulse) (cm : List (Chan × Option Chan)) (ch : Chan) : Bool :=
  match r, cm.lookup ch with
  | .ok p, some (some o) => (pulseVal p o).isEmpty
  | _, _ => false

def tableTags (e : End) (ws : List WEntry) (orig : List WEntry) : List Tag :=
  match e with
  | .first => (match orig with
      | w :: _ => if plEnd .first (entriesToPL ws) == some w.v then [] else [.tableStart]
      | [] => [])
  | .last => (match lastEntry? orig with
      | some w => if plEnd .last (entriesToPL ws) == some w.v then [] else [.tableEnd]
      | none => [])

mutual
/-- the documented classes the path of `initial_values` (`.first`) / `final_values` (`.last`) runs through -/
def pathTags (e : End) : PT → Scope → List (MName × Option MName) → List (Chan × Option Chan) → Chan →
    Except Err (List Tag)
  | .const .., _, _, _, _ => .ok []
  | .func .., _, _, _, _ => .ok []
  | .table _ entries _ _, σ, _, _, ch => do
      let inst ← tableInstantiate σ entries
      let es ← keyOf (entries.lookup ch)
      let orig ← instEntries σ es
      match inst.lookup ch with
      | some ws => pure (tableTags e ws orig)
      | none => pure [Tag.emptyPart]   -- a table of duration 0 plays nothing
  | .point _ chans entries _ _, σ, _, _, ch => do
      let orig ← instPoint σ (chans.idxOf ch) entries
      let ws := match orig with
        | w :: _ => if w.t > 0 then { t := 0, v := w.v, interp := .hold } :: orig else orig
        | [] => orig
      pure (tableTags e ws orig)
  | .seq _ subs _ _, σ, mm, cm, ch => pathTagsEnd e subs σ mm cm ch
  | .rep _ body _ _ _, σ, mm, cm, ch => pathTags e body σ mm cm ch
  | .forLoop _ body idx start stop step _ _, σ, mm, cm, ch => do
      let a ← σ.eval start
      let b ← σ.eval stop
      let s ← σ.eval step
      if s = 0 then .error .zeroDivision else
      match e with
      | .first =>
          (match pyRange a.num b.num s.num with
           | [] => pure []
           | i0 :: _ => do
              let rest ← pathTags e body (.range σ idx a) mm cm ch
              pure ((if chanEmpty (denote body (.range σ idx (i0 : Rat)) mm cm) cm ch then [Tag.emptyPart] else []) ++ rest))
      | .last =>
          (match (pyRange a.num b.num s.num).getLast? with
           | none => pure []
           | some iLast => do
              let n : Int := ((b - a) / s).floor
              let k : Int := if n - 1 ≤ 0 then 0 else n - 1
              let idxCode : Rat := a + (k : Rat) * s
              let rest ← pathTags e body (.range σ idx idxCode) mm cm ch
              pure ((if idxCode = (iLast : Rat) then [] else [Tag.pf09]) ++
                    (if chanEmpty (denote body (.range σ idx (iLast : Rat)) mm cm) cm ch then [Tag.emptyPart] else []) ++ rest))
  | .mapping _ body pm mm' cm' _, σ, mm, cm, ch => do
      let c ← keyOf (innerChan body cm' ch)
      let mmU ← updatedMm mm' mm
      let cmU ← updatedCm cm' cm
      pathTags e body (.mapped σ pm) mmU cmU c
  | .parallel _ body over, σ, mm, cm, ch =>
      match over.lookup ch with
      | some _ => .ok []
      | none => pathTags e body σ mm cm ch
  | .atomicMulti _ subs _ _ _, σ, mm, cm, ch => pathTagsMulti e subs σ mm cm ch
  | .arith _ body _ _ _, σ, mm, cm, ch =>
      if body.definedChannels.contains ch then pathTags e body σ mm cm ch else .ok []
  | .arithAtomic _ lhs _ rhs _, σ, mm, cm, ch => do
      let l ← if lhs.definedChannels.contains ch then pathTags e lhs σ mm cm ch else pure []
      let r ← if rhs.definedChannels.contains ch then pathTags e rhs σ mm cm ch else pure []
      let le := chanEmpty (denote lhs σ mm cm) cm ch
      let re := chanEmpty (denote rhs σ mm cm) cm ch
      let both := lhs.definedChannels.contains ch && rhs.definedChannels.contains ch
      pure ((if both && (le != re) then [Tag.emptyPart] else []) ++ l ++ r)
  | .timeReversal .., _, _, _, _ => .ok []
def pathTagsEnd (e : End) : List PT → Scope → List (MName × Option MName) → List (Chan × Option Chan) → Chan →
    Except Err (List Tag)
  | [], _, _, _, _ => .ok []
  | [p], σ, mm, cm, ch => do
      let rest ← pathTags e p σ mm cm ch
      pure ((if chanEmpty (denote p σ mm cm) cm ch then [Tag.emptyPart] else []) ++ rest)
  | p :: q :: more, σ, mm, cm, ch => match e with
      | .first => do
          let rest ← pathTags e p σ mm cm ch
          pure ((if chanEmpty (denote p σ mm cm) cm ch then [Tag.emptyPart] else []) ++ rest)
      | .last => pathTagsEnd e (q :: more) σ mm cm ch
def pathTagsMulti (e : End) : List PT → Scope → List (MName × Option MName) → List (Chan × Option Chan) → Chan →
    Except Err (List Tag)
  | [], _, _, _, _ => .ok []
  | p :: ps, σ, mm, cm, ch =>
      if (PT.allChannels ps).contains ch then pathTagsMulti e ps σ mm cm ch
      else if p.definedChannels.contains ch then pathTags e p σ mm cm ch
      else .ok []
end

/-! ## The fragment the theorems of `QP.Props.C07` cover -/

mutual
/-- templates of all thirteen classes (function templates affine in `t`, scalar operands of arithmetic templates
independent of `t`) that satisfy what
the constructors of the real classes enforce: amplitude keys are distinct (a `dict`), all parts of a sequence
define the same channels, an atomic multi channel template has at least one part and its parts define disjoint
channels, a channel mapping is total on the body's channels and injective on the kept ones -/
def supported : PT → Bool
  | .const _ _ amps _ => !hasDup (amps.map (·.1))
  | .table .. => true
  | .point .. => true
  | .func _ _ _ e _ _ => e.affineIn "t"
  | .seq _ subs _ _ => supportedAll subs && sameChannels (PT.firstChannels subs) subs
  | .rep _ body _ _ _ => supported body
  | .forLoop _ body _ _ _ _ _ _ => supported body
  | .mapping _ body _ _ cm' _ =>
      supported body && body.definedChannels.all (fun c => (cm'.lookup c).isSome) &&
      !hasDup (body.definedChannels.filterMap (fun c => match cm'.lookup c with | some (some o) => some o | _ => none)) &&
      !hasDup body.definedChannels
  | .timeReversal _ body => supported body
  | .parallel _ body over => supported body && !hasDup (over.map (·.1))
  | .atomicMulti _ subs _ _ _ => supportedAll subs && (!hasDup (PT.allChannels subs) && !subs.isEmpty)
  | .arith _ body _ scalar _ =>
      supported body && !scalarTimeDependent scalar &&
      (match scalar with
       | .perChan m => !hasDup (m.map (·.1)) && m.all (fun x => body.definedChannels.contains x.1)
       | .uniform _ => true)
  | .arithAtomic _ lhs _ rhs _ => supported lhs && supported rhs
def supportedAll : List PT → Bool
  | [] => true
  | p :: ps => supported p && supportedAll ps
def sameChannels (cs : List Chan) : List PT → Bool
  | [] => true
  | p :: ps => sameSet p.definedChannels cs && sameChannels cs ps
end

/-- the channel mapping sends different channels of `chans` to different targets -/
def InjOn (cm : List (Chan × Option Chan)) (chans : List Chan) : Prop :=
  ∀ c1 c2 o, c1 ∈ chans → c2 ∈ chans → cm.lookup c1 = some (some o) → cm.lookup c2 = some (some o) → c1 = c2

/-! ## Line protocol

`(c07 run (pt <PT>) (params (n q)...) [(sampled (ch (len v0 v1)...)...)] [(pad q)])` →
`((chans c...) (regular b) (covered b) (tdur r) (model (c (integral r) (initial r) (final r) (provides b b))...)
  (spec ok|empty|(error cls) (dur q) (c (integral q) (first q|none) (last q|none) (tags-first t...) (tags-last t...))...)
  (sampled (c (integral q) (first ..) (last ..))...) (pad ...))` with `r = (ok q) | (error cls)`. -/

open Sexp

def resSx : Except Err Rat → Sexp
  | .ok v => .list [.atom "ok", Sexp.ofRat v]
  | .error e => errSx e

def optSx : Option Rat → Sexp
  | some v => Sexp.ofRat v
  | none => .atom "none"

def tagsSx (name : String) : Except Err (List Tag) → Sexp
  | .ok ts => .list (.atom name :: ts.map (fun t => .atom t.name))
  | .error e => .list [.atom name, errSx e]

def plSx (c : Chan) (pl : PL) (extra : List Sexp) : Sexp :=
  .list ([.atom c, .list [.atom "integral", Sexp.ofRat (plIntegral pl)],
          .list [.atom "first", optSx (plEnd .first pl)],
          .list [.atom "last", optSx (plEnd .last pl)]] ++ extra)

def segOf? : Sexp → Option Seg
  | .list [l, a, b] => do
      let l ← Sexp.rat? l; let a ← Sexp.rat? a; let b ← Sexp.rat? b
      some { len := l, v0 := a, v1 := b }
  | _ => none

def sampledOf? : Sexp → Option (Chan × PL)
  | .list (.atom c :: segs) => do let pl ← segs.mapM segOf?; some (c, pl)
  | _ => none

def modelSx (pt : PT) (σ : Scope) : Sexp :=
  .list (.atom "model" :: pt.definedChannels.map (fun c =>
    .list [.atom c,
      .list [.atom "integral", resSx (integralOf pt σ c)],
      .list [.atom "initial", resSx (initialOf pt σ c)],
      .list [.atom "final", resSx (finalOf pt σ c)],
      .list [.atom "provides", Sexp.ofBool (provides .first pt), Sexp.ofBool (provides .last pt)]]))

def specSx (pt : PT) (ctx : Ctx) : Sexp :=
  match denote pt ctx.scope ctx.mm ctx.cm with
  | .error e => .list [.atom "spec", errSx e]
  | .ok p =>
    if p.isEmpty then .list [.atom "spec", .atom "empty"] else
    .list (.atom "spec" :: .atom "ok" :: .list [.atom "dur", Sexp.ofRat p.dur] ::
      p.chans.map (fun (c, pl) => plSx c pl
        [tagsSx "tags-first" (pathTags .first pt ctx.scope ctx.mm ctx.cm c),
         tagsSx "tags-last" (pathTags .last pt ctx.scope ctx.mm ctx.cm c)]))

def padSx (pt : PT) (ctx : Ctx) (newDur : Rat) : Sexp :=
  match padTo pt ctx.scope newDur with
  | .error e => .list [.atom "pad", errSx e]
  | .ok padded =>
    match denote padded ctx.scope ctx.mm ctx.cm with
    | .error e => .list [.atom "pad", errSx e]
    | .ok p =>
      if p.isEmpty then .list [.atom "pad", .atom "empty"] else
      .list (.atom "pad" :: .atom "ok" :: .list [.atom "dur", Sexp.ofRat p.dur] ::
        p.chans.map (fun (c, pl) => plSx c pl []))

def handle (args : List Sexp) : Sexp :=
  match args with
  | .atom "run" :: rest =>
    match Request.ofSexp rest with
    | none => Sexp.err "malformed-request"
    | some r =>
      match topCtx r.pt r.params none [] [] with
      | .error e => .list [.atom "ctx", errSx e]
      | .ok ctx =>
        let sampled : List (Chan × PL) := match findField "sampled" rest with
          | some l => (l.mapM sampledOf?).getD []
          | none => []
        let pad : List Sexp := match findField "pad" rest with
          | some [d] => (match Sexp.rat? d with | some d => [padSx r.pt ctx d] | none => [])
          | _ => []
        .list ([.list (.atom "chans" :: r.pt.definedChannels.map Sexp.atom),
                .list [.atom "regular", Sexp.ofBool (regularBase r.pt ctx.scope)],
                .list [.atom "covered", Sexp.ofBool (supported r.pt && regular r.pt ctx.scope && keeps r.pt ctx.cm)],
                .list [.atom "tdur", resSx (templateDuration r.pt ctx.scope)],
                modelSx r.pt ctx.scope,
                specSx r.pt ctx,
                .list (.atom "sampled" :: sampled.map (fun (c, pl) => plSx c pl []))] ++ pad)
  | .atom "range" :: a :: b :: s :: _ =>
    -- `range(a, b, s)`: length, last element, the index `final_values` uses
    match Sexp.int? a, Sexp.int? b, Sexp.int? s with
    | some a, some b, some s =>
      if s = 0 then Sexp.err "zero-step" else
      let r := pyRange a b s
      let n : Int := (((b - a : Int) : Rat) / (s : Rat)).floor
      let k : Int := if n - 1 ≤ 0 then 0 else n - 1
      .list [.list [.atom "len", Sexp.ofNat r.length],
             .list [.atom "last", match r.getLast? with | some x => Sexp.ofInt x | none => .atom "none"],
             .list [.atom "count", Sexp.ofInt (((b - a : Int) : Rat) / (s : Rat)).ceil],
             .list [.atom "final-index", Sexp.ofInt (a + k * s)]]
    | _, _, _ => Sexp.err "malformed-request"
  | _ => Sexp.err "unknown-c07-request"

end QP.C07
