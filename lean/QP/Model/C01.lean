import QP.Base
namespace QP.C01
open Sexp

def handle : List Sexp → Sexp
  | _ => Sexp.err "c01-not-implemented"

end QP.C01
