import QP.Base
import QP.Model.PT
/-! C01: the model and the line protocol live in `QP.Model.PT` (shared by C01, C02, C04). -/
namespace QP.C01
open Sexp

def handle (args : List Sexp) : Sexp := QP.PT.handle args

end QP.C01
