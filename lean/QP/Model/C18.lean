import QP.Base
namespace QP.C18
open Sexp

def handle : List Sexp → Sexp
  | _ => Sexp.err "c18-not-implemented"

end QP.C18
