import QP.Base
/-!
# C18 — model of `qupulse.hardware.setup.HardwareSetup` driving `DummyAWG` / `DummyDAC`

State: wiring maps (`_channel_map`, `_measurement_map`), `_registered_programs`, and for every device
the dictionary it holds plus its armed program.  `step` mirrors the public operations including their
error cases.  Python dictionaries are association lists (`aget`/`aput`/`adel`), Python sets are
duplicate-free lists (`dedup`, first element kept, as `set(iterable)` / `a | b` do).

`register` takes a flag `fix`: `fix = true` is the behaviour with `fixes/PF-19.diff` applied (devices of
the previous registration of the same name that the new program no longer uses drop the program),
`fix = false` is the behaviour of the unrepaired code (kept for the counterexample theorem).

The two nested loops of `register_program` that write `playback_ids[pos] = channel_id` in iteration
order are modelled by their result: the value at a position is the *last* write that hits it (`slot`).
-/
namespace QP.C18

abbrev Chan := Nat      -- channel identifier
abbrev MName := Nat     -- measurement name
abbrev Mask := Nat      -- mask name on a DAC
abbrev Name := Nat      -- program name
abbrev AwgId := Nat
abbrev DacId := Nat
abbrev Trafo := Nat     -- identity of a voltage transformation callable
abbrev Windows := List (Rat × Rat)   -- (begin, length)

inductive Err where
  | typeError | keyError | valueError | programOverwrite | unknownDevice
  | deviceFault     -- a RuntimeError of a (fault-injecting) device that the setup does not catch
  deriving DecidableEq, Repr

inductive Kind where
  | playback | marker
  deriving DecidableEq, Repr

/-- a `PlaybackChannel` / `MarkerChannel` object -/
structure Out where
  awg : AwgId
  kind : Kind
  pos : Nat
  trafo : Trafo
  deriving DecidableEq, Repr

/-- `_SingleChannel.__eq__`: `(id(awg), channel_on_awg, type)`; the transformation is not compared -/
def Out.same (o o' : Out) : Bool := decide (o.awg = o'.awg ∧ o.kind = o'.kind ∧ o.pos = o'.pos)

/-- a `MeasurementMask` object; it has no `__eq__`, so sets compare the object identity `oid` -/
structure MaskRef where
  dac : DacId
  mask : Mask
  oid : Nat
  deriving DecidableEq, Repr

def MaskRef.same (m m' : MaskRef) : Bool := decide (m.oid = m'.oid)

/-! ## association lists = Python dicts -/
section AList
variable {κ β : Type} [DecidableEq κ]

def aget (k : κ) : List (κ × β) → Option β
  | [] => none
  | kv :: l => if kv.1 = k then some kv.2 else aget k l

def adel (k : κ) (l : List (κ × β)) : List (κ × β) := l.filter fun kv => !decide (kv.1 = k)

def aput (k : κ) (v : β) (l : List (κ × β)) : List (κ × β) := (k, v) :: adel k l

def hasKey (k : κ) (l : List (κ × β)) : Bool := (aget k l).isSome

end AList

/-- `set(iterable)`: the first of several equal elements is kept -/
def dedup {α : Type} (same : α → α → Bool) : List α → List α
  | [] => []
  | x :: l => x :: (dedup same l).filter fun y => !same x y

/-! ## state -/

/-- what `DummyAWG._programs[name]` holds -/
structure Upload where
  pid : Nat
  chs : List (Option Chan)
  mks : List (Option Chan)
  tfs : List (Option Trafo)
  deriving DecidableEq, Repr

structure Awg where
  nch : Nat
  nmk : Nat
  progs : List (Name × Upload)
  armed : Option Name
  /-- test-bench fault injection (real drivers may raise `RuntimeError`): 0 healthy, 1 `remove` raises,
  2 `arm` raises -/
  fault : Nat := 0
  deriving DecidableEq, Repr

def Awg.size (g : Awg) : Kind → Nat
  | .playback => g.nch
  | .marker => g.nmk

structure Dac where
  progs : List (Name × List (Mask × Windows))
  armed : Option Name
  /-- fault injection: non-zero = `delete_program` raises `RuntimeError` -/
  fault : Nat := 0
  deriving DecidableEq, Repr

/-- what one round of the AWG loop of `_remove_from_devices` does to a generator: `arm(None)`, then
`remove(name)`, a `RuntimeError` of either is caught (per device) and turned into a warning -/
def awgDrop (n : Name) (g : Awg) : Awg :=
  if g.fault = 0 then { g with progs := adel n g.progs, armed := none }
  else if g.fault = 2 then g                       -- `arm(None)` raised: nothing happened
  else { g with armed := none }                    -- disarmed, then `remove` raised

/-- the DAC loop of `_remove_from_devices`: `delete_program(name)`, a `RuntimeError` is caught -/
def dacDrop (n : Name) (g : Dac) : Dac :=
  if g.fault = 0 then { g with progs := adel n g.progs } else g

/-- what the caller hands to `register_program` -/
structure Program where
  pid : Nat
  channels : List Chan
  meas : List (MName × Windows)
  deriving DecidableEq, Repr

/-- `RegisteredProgram` -/
structure Reg where
  pid : Nat
  channels : List Chan
  meas : List (MName × Windows)
  awgs : List AwgId
  dacs : List DacId
  deriving DecidableEq, Repr

structure State where
  chanMap : List (Chan × List Out)
  measMap : List (MName × List MaskRef)
  registered : List (Name × Reg)
  awgs : List Awg
  dacs : List Dac
  deriving DecidableEq, Repr

def init (cfg : List (Nat × Nat)) (ndacs : Nat) : State :=
  { chanMap := [], measMap := [], registered := [],
    awgs := cfg.map fun c => { nch := c.1, nmk := c.2, progs := [], armed := none },
    dacs := List.replicate ndacs { progs := [], armed := none } }

inductive OutSpec where
  | out (o : Out)
  | junk                  -- an element that is neither a playback nor a marker channel
  deriving DecidableEq, Repr

def OutSpec.out? : OutSpec → Option Out
  | .out o => some o
  | .junk => none

def OutSpec.isJunk : OutSpec → Bool
  | .out _ => false
  | .junk => true

inductive Op where
  | setChannel (id : Chan) (specs : List OutSpec) (allow : Bool)
  | setChannelSingle (id : Chan) (o : Out) (allow : Bool)
  | setMeasurement (m : MName) (masks : List MaskRef) (allow : Bool)
  | setMeasurementSingle (m : MName) (mask : MaskRef) (allow : Bool)
  | rmChannel (id : Chan)
  | register (n : Name) (p : Program) (cbOk update : Bool) (override : Option (List (MName × Windows)))
  | remove (n : Name)
  | clear
  | arm (n : Name)
  | run (n : Name)
  | setFaultAwg (a : AwgId) (mode : Nat)     -- test bench, not a HardwareSetup call
  | setFaultDac (d : DacId) (mode : Nat)
  deriving Repr

/-! ## wiring queries -/

def wired (cm : List (Chan × List Out)) (c : Chan) : List Out := (aget c cm).getD []
def wiredM (mm : List (MName × List MaskRef)) (m : MName) : List MaskRef := (aget m mm).getD []

/-- `known_awgs` -/
def knownAwg (s : State) (a : AwgId) : Bool := s.chanMap.any fun kv => kv.2.any fun o => decide (o.awg = a)
/-- `known_dacs` -/
def knownDac (s : State) (d : DacId) : Bool := s.measMap.any fun kv => kv.2.any fun m => decide (m.dac = d)

/-! ## set_channel / set_measurement / rm_channel -/

def knownOut (s : State) (o : Out) : Bool := (s.awgs[o.awg]?).isSome
/-- the check in `PlaybackChannel.__init__` / `MarkerChannel.__init__` -/
def inRange (s : State) (o : Out) : Bool :=
  match s.awgs[o.awg]? with
  | some g => decide (o.pos < g.size o.kind)
  | none => false

def setChannelCore (s : State) (id : Chan) (outs : List Out) (allow junk : Bool) : Except Err State :=
  if !allow && (s.chanMap.any fun kv => kv.2.any fun o' => outs.any fun o => o.same o') then .error .valueError
  else if junk then .error .typeError
  else .ok { s with chanMap := aput id outs s.chanMap }

def setChannel (s : State) (id : Chan) (specs : List OutSpec) (allow : Bool) : Except Err State :=
  let outs0 := specs.filterMap OutSpec.out?
  if !(outs0.all (knownOut s)) then .error .unknownDevice
  else if !(outs0.all (inRange s)) then .error .valueError
  else setChannelCore s id (dedup Out.same outs0) allow (specs.any OutSpec.isJunk)

def setChannelSingle (s : State) (id : Chan) (o : Out) (allow : Bool) : Except Err State :=
  if !(knownOut s o) then .error .unknownDevice
  else if !(inRange s o) then .error .valueError
  else
    let outs := match aget id s.chanMap with
      | some old => dedup Out.same (old ++ [o])
      | none => [o]
    setChannelCore s id outs allow false

def knownMask (s : State) (m : MaskRef) : Bool := decide (m.dac < s.dacs.length)

def setMeasurementCore (s : State) (μ : MName) (masks : List MaskRef) (allow : Bool) : Except Err State :=
  if !allow && (s.measMap.any fun kv => kv.2.any fun m' => masks.any fun m => m.same m') then .error .valueError
  else .ok { s with measMap := aput μ masks s.measMap }

def setMeasurement (s : State) (μ : MName) (masks : List MaskRef) (allow : Bool) : Except Err State :=
  if !(masks.all (knownMask s)) then .error .unknownDevice
  else setMeasurementCore s μ (dedup MaskRef.same masks) allow

def setMeasurementSingle (s : State) (μ : MName) (m : MaskRef) (allow : Bool) : Except Err State :=
  if !(knownMask s m) then .error .unknownDevice
  else
    let masks := match aget μ s.measMap with
      | some old => dedup MaskRef.same (old ++ [m])
      | none => [m]
    setMeasurementCore s μ masks allow

def rmChannel (s : State) (id : Chan) : Except Err State :=
  if hasKey id s.chanMap then .ok { s with chanMap := adel id s.chanMap } else .error .keyError

/-! ## register_program -/

/-- all `(channel_id, single_channel)` pairs in the order the nested loops visit them -/
def assignments (cm : List (Chan × List Out)) (chans : List Chan) : List (Chan × Out) :=
  chans.flatMap fun c => (wired cm c).map fun o => (c, o)

def hits (a : AwgId) (k : Kind) (p : Nat) (co : Chan × Out) : Bool :=
  decide (co.2.awg = a ∧ co.2.kind = k ∧ co.2.pos = p)

/-- the last write to position `p` of the `k` list of AWG `a` -/
def slot (asg : List (Chan × Out)) (a : AwgId) (k : Kind) (p : Nat) : Option (Chan × Out) :=
  (asg.filter (hits a k p)).getLast?

def mkUpload (pid : Nat) (asg : List (Chan × Out)) (a : AwgId) (g : Awg) : Upload :=
  { pid := pid,
    chs := (List.range g.nch).map fun p => (slot asg a .playback p).map (·.1),
    mks := (List.range g.nmk).map fun p => (slot asg a .marker p).map (·.1),
    tfs := (List.range g.nch).map fun p => (slot asg a .playback p).map (·.2.trafo) }

/-- all `(mask object, windows)` pairs in the order `affected_dacs` is filled -/
def maskAsg (mm : List (MName × List MaskRef)) (meas : List (MName × Windows)) : List (MaskRef × Windows) :=
  meas.flatMap fun mw => (wiredM mm mw.1).map fun m => (m, mw.2)

def mhits (d : DacId) (m : Mask) (x : MaskRef × Windows) : Bool := decide (x.1.dac = d ∧ x.1.mask = m)

def mslot (masg : List (MaskRef × Windows)) (d : DacId) (m : Mask) : Option Windows :=
  ((masg.filter (mhits d m)).getLast?).map (·.2)

/-- `affected_dacs[dac]` -/
def maskDict (masg : List (MaskRef × Windows)) (d : DacId) : List (Mask × Windows) :=
  ((masg.filter fun x => decide (x.1.dac = d)).map (·.1.mask)).filterMap fun m => (mslot masg d m).map fun w => (m, w)

/-- the devices recorded by the previous registration of `n` -/
def oldAwgs (s : State) (n : Name) : List AwgId :=
  match aget n s.registered with
  | some r => r.awgs
  | none => []

def oldDacs (s : State) (n : Name) : List DacId :=
  match aget n s.registered with
  | some r => r.dacs
  | none => []

def register (fix : Bool) (s : State) (n : Name) (p : Program) (cbOk update : Bool)
    (override : Option (List (MName × Windows))) : Except Err State :=
  if !cbOk then .error .typeError
  else if p.channels.any (fun c => !hasKey c s.chanMap) then .error .keyError
  else
    let meas := override.getD p.meas
    if meas.any (fun mw => !hasKey mw.1 s.measMap) then .error .keyError
    else
      let asg := assignments s.chanMap p.channels
      let part := asg.map (·.2.awg)
      let masg := maskAsg s.measMap meas
      let dpart := masg.map (·.1.dac)
      -- `DummyAWG.upload` without `force` on a name it already holds
      if !update && (part.any fun a => match s.awgs[a]? with
                                        | some g => hasKey n g.progs
                                        | none => false) then .error .programOverwrite
      -- `DummyAWG.upload(force=True)` first calls `self.remove(name)`: a refusing generator raises
      else if update && (part.any fun a => match s.awgs[a]? with
                                          | some g => hasKey n g.progs && decide (g.fault = 1)
                                          | none => false) then .error .deviceFault
      else
        let staleA : List AwgId := if fix then oldAwgs s n else []
        let staleD : List DacId := if fix then oldDacs s n else []
        .ok { s with
          awgs := s.awgs.mapIdx fun a g =>
            if a ∈ part then { g with progs := aput n (mkUpload p.pid asg a g) g.progs }
            else if a ∈ staleA then awgDrop n g
            else g,
          dacs := s.dacs.mapIdx fun d g =>
            if d ∈ dpart then { g with progs := aput n (maskDict masg d) g.progs }
            else if d ∈ staleD then dacDrop n g
            else g,
          registered := aput n { pid := p.pid, channels := p.channels, meas := meas, awgs := part, dacs := dpart }
                          s.registered }

/-! ## remove_program / clear_programs / arm_program -/

def remove (s : State) (n : Name) : State :=
  match aget n s.registered with
  | none => s
  | some r =>
    { s with
      registered := adel n s.registered,
      awgs := s.awgs.mapIdx fun a g => if a ∈ r.awgs then awgDrop n g else g,
      dacs := s.dacs.mapIdx fun d g => if d ∈ r.dacs then dacDrop n g else g }

/-- registered program names whose record lists generator `a` -/
def recordedOnAwg (s : State) (a : AwgId) (n : Name) : Bool :=
  match aget n s.registered with
  | some r => decide (a ∈ r.awgs)
  | none => false

def recordedOnDac (s : State) (d : DacId) (n : Name) : Bool :=
  match aget n s.registered with
  | some r => decide (d ∈ r.dacs)
  | none => false

/-- `clear_programs`.  `fix = true` is the behaviour with `fixes/PF-C18a.diff`: devices that dropped out of the
wiring after a registration are not reached by clearing the *known* devices, so every registered program is
first removed from the recorded devices that are no longer known (disarm + remove / delete_program).
`fix = false`: the unrepaired code leaves such devices alone. -/
def clearWith (fix : Bool) (s : State) : State :=
  { s with
    registered := [],
    awgs := s.awgs.mapIdx fun a g =>
      if knownAwg s a then { g with progs := [] }
      else if fix then
        { g with progs := if g.fault = 0 then g.progs.filter (fun kv => !recordedOnAwg s a kv.1) else g.progs,
                 armed := if g.fault ≠ 2 ∧ s.registered.any (fun nr => decide (a ∈ nr.2.awgs)) then none
                          else g.armed }
      else g,
    dacs := s.dacs.mapIdx fun d g =>
      if knownDac s d then { g with progs := [], armed := none }
      else if fix then { g with progs := if g.fault = 0 then g.progs.filter (fun kv => !recordedOnDac s d kv.1)
                                        else g.progs }
      else g }

def clear (s : State) : State := clearWith true s

def arm (s : State) (n : Name) : Except Err State :=
  match aget n s.registered with
  | none => .error .keyError
  | some r =>
    -- `awg.arm(…)` of a generator whose `arm` raises is not caught by `arm_program`
    if (s.awgs.zipIdx.any fun gi => knownAwg s gi.2 && decide (gi.1.fault = 2)) then .error .deviceFault else
    .ok { s with
      awgs := s.awgs.mapIdx fun a g =>
        if knownAwg s a then { g with armed := if a ∈ r.awgs then some n else none } else g,
      dacs := s.dacs.mapIdx fun d g => if d ∈ r.dacs then { g with armed := some n } else g }

def stepWith (fix : Bool) (s : State) : Op → Except Err State
  | .setChannel id specs allow => setChannel s id specs allow
  | .setChannelSingle id o allow => setChannelSingle s id o allow
  | .setMeasurement m masks allow => setMeasurement s m masks allow
  | .setMeasurementSingle m mask allow => setMeasurementSingle s m mask allow
  | .rmChannel id => rmChannel s id
  | .register n p cbOk update override => register fix s n p cbOk update override
  | .remove n => .ok (remove s n)
  | .clear => .ok (clearWith fix s)
  | .arm n => arm s n
  | .run n => arm s n
  | .setFaultAwg a mode =>
    match s.awgs[a]? with
    | some _ => .ok { s with awgs := s.awgs.mapIdx fun i g => if i = a then { g with fault := mode } else g }
    | none => .error .unknownDevice
  | .setFaultDac d mode =>
    match s.dacs[d]? with
    | some _ => .ok { s with dacs := s.dacs.mapIdx fun i g => if i = d then { g with fault := mode } else g }
    | none => .error .unknownDevice

/-- the repaired code -/
def step (s : State) (op : Op) : Except Err State := stepWith true s op

def runWith (fix : Bool) : State → List Op → Except Err State
  | s, [] => .ok s
  | s, op :: ops =>
    match stepWith fix s op with
    | .error e => .error e
    | .ok s' => runWith fix s' ops

def run (s : State) (ops : List Op) : Except Err State := runWith true s ops

/-- a raising call that leaves the state alone is skipped (what the harness does with a history) -/
def stepSkip (s : State) (op : Op) : State :=
  match step s op with
  | .ok s' => s'
  | .error _ => s

/-! ## which operations re-wire a name that a registered program uses (outside the statement) -/

def chanUsed (s : State) (c : Chan) : Bool := s.registered.any fun nr => decide (c ∈ nr.2.channels)
def measUsed (s : State) (m : MName) : Bool := s.registered.any fun nr => nr.2.meas.any fun mw => decide (mw.1 = m)

def rewires (s : State) : Op → Bool
  | .setChannel id _ _ => chanUsed s id
  | .setChannelSingle id _ _ => chanUsed s id
  | .setMeasurement m _ _ => measUsed s m
  | .setMeasurementSingle m _ _ => measUsed s m
  | .rmChannel id => chanUsed s id
  | .setFaultAwg _ _ => true      -- a device that refuses commands is outside the routing statement
  | .setFaultDac _ _ => true
  | _ => false

/-- the only operation the record invariant does not survive: a refusing device starts to obey again while
it may still hold what it refused to drop -/
def heals (s : State) : Op → Bool
  | .setFaultAwg a mode => decide (mode = 0) && (match s.awgs[a]? with | some g => decide (g.fault ≠ 0) | none => false)
  | .setFaultDac d mode => decide (mode = 0) && (match s.dacs[d]? with | some g => decide (g.fault ≠ 0) | none => false)
  | _ => false

/-- every operation of the history leaves the wiring of the names used by registered programs alone -/
def Admissible : State → List Op → Prop
  | _, [] => True
  | s, op :: ops => rewires s op = false ∧ ∀ s', step s op = .ok s' → Admissible s' ops

/-! ## the invariant -/

def Participates (s : State) (chans : List Chan) (a : AwgId) : Prop :=
  ∃ c ∈ chans, ∃ o ∈ wired s.chanMap c, o.awg = a

def ParticipatesD (s : State) (meas : List (MName × Windows)) (d : DacId) : Prop :=
  ∃ mw ∈ meas, ∃ m ∈ wiredM s.measMap mw.1, m.dac = d

instance (s : State) (chans : List Chan) (a : AwgId) : Decidable (Participates s chans a) := by
  unfold Participates; infer_instance
instance (s : State) (meas : List (MName × Windows)) (d : DacId) : Decidable (ParticipatesD s meas d) := by
  unfold ParticipatesD; infer_instance

/-- position `p` of the playback tuples: a channel of the program wired to that output together with
the transformation of that very output, or `None` when no channel of the program is wired there -/
def PlaybackSlotOK (s : State) (r : Reg) (a : AwgId) (p : Nat) (v : Option Chan) (t : Option Trafo) : Prop :=
  match v with
  | some c => c ∈ r.channels ∧ ∃ o ∈ wired s.chanMap c, o.awg = a ∧ o.kind = .playback ∧ o.pos = p ∧ t = some o.trafo
  | none => t = none ∧ ∀ c ∈ r.channels, ∀ o ∈ wired s.chanMap c, ¬ (o.awg = a ∧ o.kind = .playback ∧ o.pos = p)

def MarkerSlotOK (s : State) (r : Reg) (a : AwgId) (p : Nat) (v : Option Chan) : Prop :=
  match v with
  | some c => c ∈ r.channels ∧ ∃ o ∈ wired s.chanMap c, o.awg = a ∧ o.kind = .marker ∧ o.pos = p
  | none => ∀ c ∈ r.channels, ∀ o ∈ wired s.chanMap c, ¬ (o.awg = a ∧ o.kind = .marker ∧ o.pos = p)

instance (s : State) (r : Reg) (a : AwgId) (p : Nat) (v : Option Chan) (t : Option Trafo) :
    Decidable (PlaybackSlotOK s r a p v t) := by
  unfold PlaybackSlotOK; cases v <;> infer_instance
instance (s : State) (r : Reg) (a : AwgId) (p : Nat) (v : Option Chan) : Decidable (MarkerSlotOK s r a p v) := by
  unfold MarkerSlotOK; cases v <;> infer_instance

def UploadOK (s : State) (r : Reg) (a : AwgId) (g : Awg) (u : Upload) : Prop :=
  u.pid = r.pid ∧ u.chs.length = g.nch ∧ u.tfs.length = g.nch ∧ u.mks.length = g.nmk ∧
  (∀ p, p < g.nch → PlaybackSlotOK s r a p ((u.chs[p]?).join) ((u.tfs[p]?).join)) ∧
  (∀ p, p < g.nmk → MarkerSlotOK s r a p ((u.mks[p]?).join))

instance (s : State) (r : Reg) (a : AwgId) (g : Awg) (u : Upload) : Decidable (UploadOK s r a g u) := by
  unfold UploadOK; infer_instance

/-- the mask dictionary a DAC holds for a program: every mask carries the windows of a measurement of the
program wired to it, and every mask a measurement of the program is wired to is present -/
def MasksOK (s : State) (r : Reg) (d : DacId) (w : List (Mask × Windows)) : Prop :=
  (∀ mw ∈ w, ∃ x ∈ r.meas, x.2 = mw.2 ∧ ∃ m ∈ wiredM s.measMap x.1, m.dac = d ∧ m.mask = mw.1) ∧
  (∀ x ∈ r.meas, ∀ m ∈ wiredM s.measMap x.1, m.dac = d → (aget m.mask w).isSome = true)

instance (s : State) (r : Reg) (d : DacId) (w : List (Mask × Windows)) : Decidable (MasksOK s r d w) := by
  unfold MasksOK; infer_instance

/-- `∃ x, o = some x ∧ Q x` is decidable -/
instance optExDec {α : Type} (o : Option α) (Q : α → Prop) [∀ x, Decidable (Q x)] :
    Decidable (∃ x, o = some x ∧ Q x) :=
  match o with
  | none => isFalse (by simp)
  | some x => if h : Q x then isTrue ⟨x, rfl, h⟩ else isFalse (by simpa using h)

structure Inv (s : State) : Prop where
  /-- wiring refers to existing outputs (what the channel constructors check) -/
  wfChan : ∀ c outs, aget c s.chanMap = some outs → ∀ o ∈ outs, inRange s o = true
  wfMeas : ∀ μ ms, aget μ s.measMap = some ms → ∀ m ∈ ms, knownMask s m = true
  /-- the participation record of a registered program is what the wiring says -/
  regAwgs : ∀ n r, aget n s.registered = some r → (∀ a ∈ r.awgs, Participates s r.channels a) ∧
              (∀ c ∈ r.channels, ∀ o ∈ wired s.chanMap c, o.awg ∈ r.awgs)
  regDacs : ∀ n r, aget n s.registered = some r → (∀ d ∈ r.dacs, ParticipatesD s r.meas d) ∧
              (∀ x ∈ r.meas, ∀ m ∈ wiredM s.measMap x.1, m.dac ∈ r.dacs)
  /-- whatever a generator holds is a registered program that uses one of its channels, correctly placed -/
  awgHeld : ∀ a g, s.awgs[a]? = some g → ∀ n u, aget n g.progs = some u →
              ∃ r, aget n s.registered = some r ∧ (Participates s r.channels a ∧ UploadOK s r a g u)
  /-- every generator owning one of a registered program's channels holds it -/
  awgHolds : ∀ a g, s.awgs[a]? = some g → ∀ n r, aget n s.registered = some r →
              Participates s r.channels a → (aget n g.progs).isSome = true
  dacHeld : ∀ d g, s.dacs[d]? = some g → ∀ n w, aget n g.progs = some w →
              ∃ r, aget n s.registered = some r ∧ (ParticipatesD s r.meas d ∧ MasksOK s r d w)
  dacHolds : ∀ d g, s.dacs[d]? = some g → ∀ n r, aget n s.registered = some r →
              ParticipatesD s r.meas d → (aget n g.progs).isSome = true
  /-- every device obeys (the routing statement is about devices that do what they are told) -/
  healthyA : ∀ g ∈ s.awgs, g.fault = 0
  healthyD : ∀ g ∈ s.dacs, g.fault = 0

/-! ### executable judge -/

def allGet {κ β : Type} [DecidableEq κ] [DecidableEq β] (l : List (κ × β)) (P : κ → β → Bool) : Bool :=
  l.all fun kv => !(decide (aget kv.1 l = some kv.2)) || P kv.1 kv.2

def allIdx {α : Type} (l : List α) (P : Nat → α → Bool) : Bool :=
  l.zipIdx.all fun xi => P xi.2 xi.1

def wfChanB (s : State) : Bool := allGet s.chanMap fun _ outs => outs.all (inRange s)
def wfMeasB (s : State) : Bool := allGet s.measMap fun _ ms => ms.all (knownMask s)
def regAwgsB (s : State) : Bool := allGet s.registered fun _ r =>
  decide ((∀ a ∈ r.awgs, Participates s r.channels a) ∧ (∀ c ∈ r.channels, ∀ o ∈ wired s.chanMap c, o.awg ∈ r.awgs))
def regDacsB (s : State) : Bool := allGet s.registered fun _ r =>
  decide ((∀ d ∈ r.dacs, ParticipatesD s r.meas d) ∧ (∀ x ∈ r.meas, ∀ m ∈ wiredM s.measMap x.1, m.dac ∈ r.dacs))
def awgHeldB (s : State) : Bool := allIdx s.awgs fun a g => allGet g.progs fun n u =>
  decide (∃ r, aget n s.registered = some r ∧ (Participates s r.channels a ∧ UploadOK s r a g u))
def awgHoldsB (s : State) : Bool := allIdx s.awgs fun a g => allGet s.registered fun n r =>
  decide (Participates s r.channels a → (aget n g.progs).isSome = true)
def dacHeldB (s : State) : Bool := allIdx s.dacs fun d g => allGet g.progs fun n w =>
  decide (∃ r, aget n s.registered = some r ∧ (ParticipatesD s r.meas d ∧ MasksOK s r d w))
def dacHoldsB (s : State) : Bool := allIdx s.dacs fun d g => allGet s.registered fun n r =>
  decide (ParticipatesD s r.meas d → (aget n g.progs).isSome = true)

def healthyAB (s : State) : Bool := s.awgs.all fun g => decide (g.fault = 0)
def healthyDB (s : State) : Bool := s.dacs.all fun g => decide (g.fault = 0)

def invB (s : State) : Bool :=
  wfChanB s && wfMeasB s && regAwgsB s && regDacsB s && awgHeldB s && awgHoldsB s && dacHeldB s && dacHoldsB s &&
  healthyAB s && healthyDB s

/-- the first clause that fails (for replay files) -/
def judge (s : State) : String :=
  if !wfChanB s then "wiring-out-of-range"
  else if !wfMeasB s then "mask-on-unknown-dac"
  else if !regAwgsB s then "record-awgs-differ-from-wiring"
  else if !regDacsB s then "record-dacs-differ-from-wiring"
  else if !awgHeldB s then "awg-holds-unregistered-or-unrelated-or-misplaced-program"
  else if !awgHoldsB s then "awg-misses-program"
  else if !dacHeldB s then "dac-holds-unregistered-or-unrelated-or-wrong-windows"
  else if !dacHoldsB s then "dac-misses-program"
  else if !healthyAB s || !healthyDB s then "refusing-device"
  else "ok"

/-! ### the record invariant (independent of the wiring, hence also of re-wiring) -/

/-- whatever a device holds is a registered program whose record lists that device.  Needs no assumption on
the wiring: it survives `set_channel` / `set_measurement` / `rm_channel` on names in use, and it is what makes
`remove_program` and `clear_programs` reach every holder. -/
structure RecInv (s : State) : Prop where
  awgRec : ∀ (a : AwgId) (g : Awg), s.awgs[a]? = some g → g.fault = 0 → ∀ n u, aget n g.progs = some u →
              ∃ r, aget n s.registered = some r ∧ a ∈ r.awgs
  dacRec : ∀ (d : DacId) (g : Dac), s.dacs[d]? = some g → g.fault = 0 → ∀ n w, aget n g.progs = some w →
              ∃ r, aget n s.registered = some r ∧ d ∈ r.dacs

def awgRecB (s : State) : Bool := allIdx s.awgs fun a g => decide (g.fault ≠ 0) || allGet g.progs fun n _ =>
  decide (∃ r, aget n s.registered = some r ∧ a ∈ r.awgs)
def dacRecB (s : State) : Bool := allIdx s.dacs fun d g => decide (g.fault ≠ 0) || allGet g.progs fun n _ =>
  decide (∃ r, aget n s.registered = some r ∧ d ∈ r.dacs)
def recInvB (s : State) : Bool := awgRecB s && dacRecB s

def judgeRec (s : State) : String :=
  if !awgRecB s then "awg-holds-program-outside-its-record"
  else if !dacRecB s then "dac-holds-program-outside-its-record"
  else "ok"

/-! ### arming, removal, clearing -/

/-- after arming `n` (state `s` before, `s'` after): every generator of the setup is armed with `n` if it
owns one of the program's channels and disarmed otherwise; every acquisition device with one of its masks
is armed with `n` -/
def ArmSpec (s : State) (n : Name) (s' : State) : Prop :=
  ∃ r, aget n s.registered = some r ∧
    (∀ a g', s'.awgs[a]? = some g' → knownAwg s a = true →
        g'.armed = if Participates s r.channels a then some n else none) ∧
    (∀ d g', s'.dacs[d]? = some g' → ParticipatesD s r.meas d → g'.armed = some n)

instance (s : State) (n : Name) (s' : State) : Decidable (ArmSpec s n s') := by
  unfold ArmSpec
  have : ∀ r : Reg, Decidable
      ((∀ a g', s'.awgs[a]? = some g' → knownAwg s a = true →
          g'.armed = if Participates s r.channels a then some n else none) ∧
       (∀ d g', s'.dacs[d]? = some g' → ParticipatesD s r.meas d → g'.armed = some n)) := fun r =>
    decidable_of_iff
      ((∀ xi ∈ s'.awgs.zipIdx, knownAwg s xi.2 = true →
          xi.1.armed = if Participates s r.channels xi.2 then some n else none) ∧
       (∀ xi ∈ s'.dacs.zipIdx, ParticipatesD s r.meas xi.2 → xi.1.armed = some n))
      (by
        constructor
        · rintro ⟨h1, h2⟩
          exact ⟨fun a g' hg => h1 (g', a) (List.mem_zipIdx_iff_getElem?.2 hg),
                 fun d g' hg => h2 (g', d) (List.mem_zipIdx_iff_getElem?.2 hg)⟩
        · rintro ⟨h1, h2⟩
          exact ⟨fun xi hx => h1 xi.2 xi.1 (List.mem_zipIdx_iff_getElem?.1 hx),
                 fun xi hx => h2 xi.2 xi.1 (List.mem_zipIdx_iff_getElem?.1 hx)⟩)
  infer_instance

/-- program `n` is gone everywhere: from the records and from every device that obeys (a device that
refuses to drop a program keeps it; the setup turns that into a warning) -/
def Gone (s : State) (n : Name) : Prop :=
  aget n s.registered = none ∧ (∀ g ∈ s.awgs, g.fault = 0 → aget n g.progs = none) ∧
    (∀ g ∈ s.dacs, g.fault = 0 → aget n g.progs = none)

instance (s : State) (n : Name) : Decidable (Gone s n) := by unfold Gone; infer_instance


/-! ## Line protocol -/
open Sexp

def errS : Err → String
  | .typeError => "type_error"
  | .keyError => "key_error"
  | .valueError => "value_error"
  | .programOverwrite => "program_overwrite"
  | .unknownDevice => "unknown_device"
  | .deviceFault => "runtime_error"

def kindS : Kind → Sexp
  | .playback => .atom "pb"
  | .marker => .atom "mk"

def kind? : Sexp → Option Kind
  | .atom "pb" => some .playback
  | .atom "mk" => some .marker
  | _ => none

def optNatS : Option Nat → Sexp
  | some n => ofNat n
  | none => .atom "none"

def optNat? : Sexp → Option (Option Nat)
  | .atom "none" => some none
  | x => (nat? x).map some

def outS (o : Out) : Sexp := .list [.atom "o", ofNat o.awg, kindS o.kind, ofNat o.pos, ofNat o.trafo]

def out? : Sexp → Option Out
  | .list [.atom "o", a, k, p, t] => do
      some { awg := ← nat? a, kind := ← kind? k, pos := ← nat? p, trafo := ← nat? t }
  | _ => none

def outSpec? : Sexp → Option OutSpec
  | .atom "junk" => some .junk
  | x => (out? x).map .out

def maskS (m : MaskRef) : Sexp := .list [ofNat m.dac, ofNat m.mask, ofNat m.oid]

def mask? : Sexp → Option MaskRef
  | .list [d, m, o] => do some { dac := ← nat? d, mask := ← nat? m, oid := ← nat? o }
  | _ => none

def windowsS (w : Windows) : Sexp := .list (w.map fun bl => .list [ofRat bl.1, ofRat bl.2])

def windows? : Sexp → Option Windows
  | .list xs => xs.mapM fun
      | .list [b, l] => do some (← rat? b, ← rat? l)
      | _ => none
  | _ => none

def keyedS {β : Type} (f : β → Sexp) (l : List (Nat × β)) : Sexp :=
  .list (l.map fun kv => .list [ofNat kv.1, f kv.2])

def keyed? {β : Type} (f : Sexp → Option β) : Sexp → Option (List (Nat × β))
  | .list xs => xs.mapM fun
      | .list [k, v] => do some (← nat? k, ← f v)
      | _ => none
  | _ => none

def natsS (l : List Nat) : Sexp := .list (l.map ofNat)

def uploadS (u : Upload) : Sexp :=
  .list [ofNat u.pid, .list (u.chs.map optNatS), .list (u.mks.map optNatS), .list (u.tfs.map optNatS)]

def upload? : Sexp → Option Upload
  | .list [p, c, m, t] => do
      some { pid := ← nat? p, chs := ← listOf? optNat? c, mks := ← listOf? optNat? m, tfs := ← listOf? optNat? t }
  | _ => none

def awgS (g : Awg) : Sexp :=
  .list [ofNat g.nch, ofNat g.nmk, optNatS g.armed, keyedS uploadS g.progs, ofNat g.fault]

def awg? : Sexp → Option Awg
  | .list [c, m, a, ps, f] => do
      some { nch := ← nat? c, nmk := ← nat? m, armed := ← optNat? a, progs := ← keyed? upload? ps, fault := ← nat? f }
  | _ => none

def dacS (g : Dac) : Sexp := .list [optNatS g.armed, keyedS (keyedS windowsS) g.progs, ofNat g.fault]

def dac? : Sexp → Option Dac
  | .list [a, ps, f] => do
      some { armed := ← optNat? a, progs := ← keyed? (keyed? windows?) ps, fault := ← nat? f }
  | _ => none

def regS (r : Reg) : Sexp :=
  .list [ofNat r.pid, natsS r.channels, keyedS windowsS r.meas, natsS r.awgs, natsS r.dacs]

def reg? : Sexp → Option Reg
  | .list [p, c, m, a, d] => do
      some { pid := ← nat? p, channels := ← listOf? nat? c, meas := ← keyed? windows? m,
             awgs := ← listOf? nat? a, dacs := ← listOf? nat? d }
  | _ => none

def stateS (s : State) : Sexp :=
  .list [.atom "state",
         keyedS (fun outs => .list (outs.map outS)) s.chanMap,
         keyedS (fun ms => .list (ms.map maskS)) s.measMap,
         keyedS regS s.registered,
         .list (s.awgs.map awgS),
         .list (s.dacs.map dacS)]

def state? : Sexp → Option State
  | .list [.atom "state", cm, mm, rg, ag, dc] => do
      some { chanMap := ← keyed? (listOf? out?) cm, measMap := ← keyed? (listOf? mask?) mm,
             registered := ← keyed? reg? rg, awgs := ← listOf? awg? ag, dacs := ← listOf? dac? dc }
  | _ => none

def program? : Sexp → Option Program
  | .list [.atom "prog", p, c, m] => do
      some { pid := ← nat? p, channels := ← listOf? nat? c, meas := ← keyed? windows? m }
  | _ => none

def op? : Sexp → Option Op
  | .list [.atom "set-channel", id, allow, .list specs] => do
      some (.setChannel (← nat? id) (← specs.mapM outSpec?) (← bool? allow))
  | .list [.atom "set-channel-single", id, allow, o] => do
      some (.setChannelSingle (← nat? id) (← out? o) (← bool? allow))
  | .list [.atom "set-measurement", m, allow, masks] => do
      some (.setMeasurement (← nat? m) (← listOf? mask? masks) (← bool? allow))
  | .list [.atom "set-measurement-single", m, allow, mask] => do
      some (.setMeasurementSingle (← nat? m) (← mask? mask) (← bool? allow))
  | .list [.atom "rm-channel", id] => do some (.rmChannel (← nat? id))
  | .list [.atom "register", n, p, cb, upd, ov] => do
      let ov ← match ov with
        | .atom "none" => some none
        | x => (keyed? windows? x).map some
      some (.register (← nat? n) (← program? p) (← bool? cb) (← bool? upd) ov)
  | .list [.atom "remove", n] => do some (.remove (← nat? n))
  | .list [.atom "clear"] => some .clear
  | .list [.atom "arm", n] => do some (.arm (← nat? n))
  | .list [.atom "run", n] => do some (.run (← nat? n))
  | .list [.atom "set-fault-awg", a, m] => do some (.setFaultAwg (← nat? a) (← nat? m))
  | .list [.atom "set-fault-dac", d, m] => do some (.setFaultDac (← nat? d) (← nat? m))
  | _ => none

def cfg? : Sexp → Option (List (Nat × Nat) × Nat)
  | .list [.atom "cfg", .list awgs, nd] => do
      let a ← awgs.mapM fun
        | .list [c, m] => do some (← nat? c, ← nat? m)
        | _ => none
      some (a, ← nat? nd)
  | _ => none

/-- run a history; a raising call leaves the state alone; one trace entry per operation -/
def trace (fix : Bool) : State → List Op → List Sexp
  | _, [] => []
  | s, op :: ops =>
    let rw := ofBool (rewires s op)
    match stepWith fix s op with
    | .error e => .list [.atom "error", .atom (errS e), rw] :: trace fix s ops
    -- `(ok rewires state inv)`: `inv` tells whether the model's own state satisfies the routing invariant
    | .ok s' => .list [.atom "ok", rw, stateS s', ofBool (invB s')] :: trace fix s' ops

def handle : List Sexp → Sexp
  | [.atom "run", fix, cfg, .list ops] =>
    match bool? fix, cfg? cfg, ops.mapM op? with
    | some fix, some (a, nd), some ops => .list (.atom "trace" :: trace fix (init a nd) ops)
    | _, _, _ => Sexp.err "bad-args"
  -- the same, the trace entries of the first `k` operations (a shared, already checked prefix) are omitted
  | [.atom "run-from", k, fix, cfg, .list ops] =>
    match nat? k, bool? fix, cfg? cfg, ops.mapM op? with
    | some k, some fix, some (a, nd), some ops => .list (.atom "trace" :: (trace fix (init a nd) ops).drop k)
    | _, _, _, _ => Sexp.err "bad-args"
  | [.atom "judge", st] =>
    match state? st with
    | some s => .list [.atom "judge", .atom (judge s)]
    | none => Sexp.err "bad-state"
  | [.atom "judge-rec", st] =>
    match state? st with
    | some s => .list [.atom "judge", .atom (judgeRec s)]
    | none => Sexp.err "bad-state"
  | [.atom "judge-arm", st, n, st'] =>
    match state? st, nat? n, state? st' with
    | some s, some n, some s' =>
      .list [.atom "judge", .atom (if decide (ArmSpec s n s') then "ok" else "arm-spec-violated")]
    | _, _, _ => Sexp.err "bad-args"
  | [.atom "judge-gone", st, n] =>
    match state? st, nat? n with
    | some s, some n => .list [.atom "judge", .atom (if decide (Gone s n) then "ok" else "program-still-present")]
    | _, _ => Sexp.err "bad-args"
  | _ => Sexp.err "c18-unknown-request"

end QP.C18
