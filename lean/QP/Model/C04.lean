import QP.Base
namespace QP.C04
open Sexp

def handle : List Sexp → Sexp
  | _ => Sexp.err "c04-not-implemented"

end QP.C04
