import QP.Base
namespace QP.C02
open Sexp

def handle : List Sexp → Sexp
  | _ => Sexp.err "c02-not-implemented"

end QP.C02
