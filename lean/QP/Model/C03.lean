import QP.Base
import QP.Model.PT
/-!
# C03 — declared parameters suffice, declared constraints are enforced

Built on the shared pulse-template model `QP.PT` (`compile`, `createProgram`, `Scope`).

* `parameterNames` mirrors the `parameter_names` property of every pulse template class
  (measurement parameters, constrained parameters, mapping substitution, loop index removal, the
  reserved time variable `t`).  PF-13 is modelled *repaired*: `ArithmeticAtomicPulseTemplate` declares the
  parameters of its own measurement declarations.
* `WF` — what the constructors guarantee and the theorems need: a `MappingPulseTemplate` maps *every*
  parameter of its body (`MappingPulseTemplate.__init__` completes a partial mapping with identities).
* `NoReservedT` — no expression whose class strips `t` from its declared names mentions `t`
  (`FunctionPT` duration, `ParallelChannelPT` channel values, `ArithmeticPT` scalar operand): the reserved
  name class of the open finding PF-14.
* `visible` — the independent enumeration of what the *played* (= visited by instantiation) nodes must
  evaluate, each paired with the scope that node sees: every parameter constraint (`isCons`), and the
  expressions that are evaluated unconditionally (`needs`: repetition counts, loop ranges, constant
  durations, table entries, eagerly mapped parameters) and the keys an eagerly mapping node demands.  No builder, no waveforms, no error handling.
* `consOutcome` — the judge: validate the visible constraints in visiting order.
-/
namespace QP.C03
open QP QP.PT

/-! ## declared parameter names -/

def measVars (ms : List MeasDecl) : List String := ms.flatMap (fun d => d.start.vars ++ d.len.vars)
def consVars (cs : List Expr) : List String := cs.flatMap Expr.vars
def noT (xs : List String) : List String := xs.filter (fun x => x ≠ "t")
def tentryVars (es : List TEntry) : List String := es.flatMap (fun e => e.t.vars ++ e.v.vars)
def tableVars (entries : List (Chan × List TEntry)) : List String := entries.flatMap (fun ce => tentryVars ce.2)
def pentryVars (es : List PEntry) : List String := es.flatMap (fun e => e.t.vars ++ e.vs.flatMap Expr.vars)
def kvVars (m : List (String × Expr)) : List String := m.flatMap (fun ke => ke.2.vars)
def scalarVars : Scalar → List String
  | .uniform e => e.vars
  | .perChan m => kvVars m
def optVars : Option Expr → List String
  | some e => e.vars
  | none => []

mutual
/-- `parameter_names` of every class (PF-13 repaired in `arithAtomic`) -/
def parameterNames : PT → List String
  | .const _ dur amps meas => kvVars amps ++ dur.vars ++ measVars meas
  | .table _ entries meas cons => tableVars entries ++ consVars cons ++ measVars meas
  | .point _ _ entries meas cons => pentryVars entries ++ measVars meas ++ consVars cons
  | .func _ _ dur e meas cons => noT (dur.vars ++ e.vars) ++ measVars meas ++ consVars cons
  | .seq _ subs meas cons => consVars cons ++ measVars meas ++ parameterNamesList subs
  | .rep _ body count meas cons => parameterNames body ++ consVars cons ++ measVars meas ++ count.vars
  | .forLoop _ body idx start stop step meas cons =>
      (parameterNames body).filter (fun x => x ≠ idx) ++ (start.vars ++ stop.vars ++ step.vars) ++ consVars cons
        ++ measVars meas
  | .mapping _ _ pm _ _ cons => kvVars pm ++ consVars cons
  | .parallel _ body over => parameterNames body ++ noT (kvVars over)
  | .atomicMulti _ subs dur meas cons => measVars meas ++ consVars cons ++ parameterNamesList subs ++ optVars dur
  | .arith _ body _ scalar _ => parameterNames body ++ noT (scalarVars scalar)
  | .arithAtomic _ lhs _ rhs meas => parameterNames lhs ++ parameterNames rhs ++ measVars meas
  | .timeReversal _ body => parameterNames body
def parameterNamesList : List PT → List String
  | [] => []
  | p :: ps => parameterNames p ++ parameterNamesList ps
end

mutual
/-- `parameter_names` as the pinned tree has it (PF-13: the measurement parameters of an
`ArithmeticAtomicPulseTemplate` are not declared) -/
def parameterNamesPinned : PT → List String
  | .const _ dur amps meas => kvVars amps ++ dur.vars ++ measVars meas
  | .table _ entries meas cons => tableVars entries ++ consVars cons ++ measVars meas
  | .point _ _ entries meas cons => pentryVars entries ++ measVars meas ++ consVars cons
  | .func _ _ dur e meas cons => noT (dur.vars ++ e.vars) ++ measVars meas ++ consVars cons
  | .seq _ subs meas cons => consVars cons ++ measVars meas ++ parameterNamesPinnedList subs
  | .rep _ body count meas cons => parameterNamesPinned body ++ consVars cons ++ measVars meas ++ count.vars
  | .forLoop _ body idx start stop step meas cons =>
      (parameterNamesPinned body).filter (fun x => x ≠ idx) ++ (start.vars ++ stop.vars ++ step.vars)
        ++ consVars cons ++ measVars meas
  | .mapping _ _ pm _ _ cons => kvVars pm ++ consVars cons
  | .parallel _ body over => parameterNamesPinned body ++ noT (kvVars over)
  | .atomicMulti _ subs dur meas cons =>
      measVars meas ++ consVars cons ++ parameterNamesPinnedList subs ++ optVars dur
  | .arith _ body _ scalar _ => parameterNamesPinned body ++ noT (scalarVars scalar)
  | .arithAtomic _ lhs _ rhs _ => parameterNamesPinned lhs ++ parameterNamesPinned rhs
  | .timeReversal _ body => parameterNamesPinned body
def parameterNamesPinnedList : List PT → List String
  | [] => []
  | p :: ps => parameterNamesPinned p ++ parameterNamesPinnedList ps
end

/-! ## well-formedness established by the constructors -/

mutual
/-- every `MappingPulseTemplate` maps all parameters its body declares -/
def WF : PT → Prop
  | .const .. => True
  | .table .. => True
  | .point .. => True
  | .func .. => True
  | .seq _ subs _ _ => WFList subs
  | .rep _ body _ _ _ => WF body
  | .forLoop _ body _ _ _ _ _ _ => WF body
  | .mapping _ body pm _ _ _ => (∀ n ∈ parameterNames body, n ∈ pm.map (·.1)) ∧ WF body
  | .parallel _ body _ => WF body
  | .atomicMulti _ subs _ _ _ => WFList subs
  | .arith _ body _ _ _ => WF body
  | .arithAtomic _ lhs _ rhs _ => WF lhs ∧ WF rhs
  | .timeReversal _ body => WF body
def WFList : List PT → Prop
  | [] => True
  | p :: ps => WF p ∧ WFList ps
end

mutual
def wfB : PT → Bool
  | .const .. => true
  | .table .. => true
  | .point .. => true
  | .func .. => true
  | .seq _ subs _ _ => wfBList subs
  | .rep _ body _ _ _ => wfB body
  | .forLoop _ body _ _ _ _ _ _ => wfB body
  | .mapping _ body pm _ _ _ => (parameterNames body).all (fun n => (pm.map (·.1)).contains n) && wfB body
  | .parallel _ body _ => wfB body
  | .atomicMulti _ subs _ _ _ => wfBList subs
  | .arith _ body _ _ _ => wfB body
  | .arithAtomic _ lhs _ rhs _ => wfB lhs && wfB rhs
  | .timeReversal _ body => wfB body
def wfBList : List PT → Bool
  | [] => true
  | p :: ps => wfB p && wfBList ps
end

mutual
/-- the reserved time variable `t` is used only where it means time (PF-14 class otherwise) -/
def NoReservedT : PT → Prop
  | .const .. => True
  | .table .. => True
  | .point .. => True
  | .func _ _ dur _ _ _ => "t" ∉ dur.vars
  | .seq _ subs _ _ => NoReservedTList subs
  | .rep _ body _ _ _ => NoReservedT body
  | .forLoop _ body _ _ _ _ _ _ => NoReservedT body
  | .mapping _ body _ _ _ _ => NoReservedT body
  | .parallel _ body over => "t" ∉ kvVars over ∧ NoReservedT body
  | .atomicMulti _ subs _ _ _ => NoReservedTList subs
  | .arith _ body _ scalar _ => "t" ∉ scalarVars scalar ∧ NoReservedT body
  | .arithAtomic _ lhs _ rhs _ => NoReservedT lhs ∧ NoReservedT rhs
  | .timeReversal _ body => NoReservedT body
def NoReservedTList : List PT → Prop
  | [] => True
  | p :: ps => NoReservedT p ∧ NoReservedTList ps
end

mutual
def noReservedTB : PT → Bool
  | .const .. => true
  | .table .. => true
  | .point .. => true
  | .func _ _ dur _ _ _ => !dur.vars.contains "t"
  | .seq _ subs _ _ => noReservedTBList subs
  | .rep _ body _ _ _ => noReservedTB body
  | .forLoop _ body _ _ _ _ _ _ => noReservedTB body
  | .mapping _ body _ _ _ _ => noReservedTB body
  | .parallel _ body over => !(kvVars over).contains "t" && noReservedTB body
  | .atomicMulti _ subs _ _ _ => noReservedTBList subs
  | .arith _ body _ scalar _ => !(scalarVars scalar).contains "t" && noReservedTB body
  | .arithAtomic _ lhs _ rhs _ => noReservedTB lhs && noReservedTB rhs
  | .timeReversal _ body => noReservedTB body
def noReservedTBList : List PT → Bool
  | [] => true
  | p :: ps => noReservedTB p && noReservedTBList ps
end

mutual
/-- does the tree contain an `ArithmeticPulseTemplate` (scalar arithmetic)? -/
def hasArith : PT → Bool
  | .const .. | .table .. | .point .. | .func .. => false
  | .seq _ subs _ _ => hasArithList subs
  | .rep _ body _ _ _ => hasArith body
  | .forLoop _ body _ _ _ _ _ _ => hasArith body
  | .mapping _ body _ _ _ _ => hasArith body
  | .parallel _ body _ => hasArith body
  | .atomicMulti _ subs _ _ _ => hasArithList subs
  | .arith .. => true
  | .arithAtomic _ lhs _ rhs _ => hasArith lhs || hasArith rhs
  | .timeReversal _ body => hasArith body
def hasArithList : List PT → Bool
  | [] => false
  | p :: ps => hasArith p || hasArithList ps
end

/-- the class of the open finding PF-14 (reserved name `t`): the assignment binds `t` and the template
contains a scalar arithmetic node or an expression that uses `t` as the time variable outside a function
template's formula -/
def inPF14 (pt : PT) (params : List (String × Rat)) : Bool :=
  (params.map (·.1)).contains "t" && (hasArith pt || !noReservedTB pt)

/-! ## the independent enumeration of what played nodes evaluate -/

structure Vis where
  scope : Scope
  expr : Expr
  isCons : Bool
  /-- `some x`: the entry only demands that `x` is a key of the scope (`MappingPulseTemplate._validate_parameters`);
  `expr` is `.var x` then -/
  key : Option String := none
  deriving Repr, Inhabited

def consVis (σ : Scope) (cons : List Expr) : List Vis := cons.map (fun c => ⟨σ, c, true, none⟩)
def needVis (σ : Scope) (es : List Expr) : List Vis := es.map (fun e => ⟨σ, e, false, none⟩)
def keyVis (σ : Scope) (xs : List String) : List Vis := xs.map (fun x => ⟨σ, .var x, false, some x⟩)

def evalPair (σ : Scope) (ke : String × Expr) : Option (String × Rat) :=
  match σ.eval ke.2 with
  | .ok v => some (ke.1, v)
  | .error _ => none

/-- the plain dictionary of eagerly mapped values (`map_parameter_values`), if every value exists -/
def mappedDict (pm : List (String × Expr)) (σ : Scope) : Option Scope :=
  (pm.mapM (evalPair σ)).map Scope.dict

def tableExprs (entries : List (Chan × List TEntry)) : List Expr :=
  entries.flatMap (fun ce => ce.2.flatMap (fun e => [e.t, e.v]))

mutual
/-- nodes reached through `build_waveform` (inside an atomic template) -/
def visibleA : PT → Scope → List Vis
  | .const _ dur _ _, σ => needVis σ [dur]
  | .table _ entries _ cons, σ => consVis σ cons ++ needVis σ (tableExprs entries)
  | .point _ _ _ _ cons, σ => consVis σ cons
  | .func _ _ _ _ _ cons, σ => consVis σ cons
  | .seq .., _ => []
  | .rep .., _ => []
  | .forLoop .., _ => []
  | .mapping _ body pm _ _ cons, σ =>
      keyVis σ (kvVars pm ++ consVars cons) ++ consVis σ cons ++ needVis σ (pm.map (·.2)) ++
        (match mappedDict pm σ with
         | some σ' => visibleA body σ'
         | none => [])
  | .parallel _ body _, σ => visibleA body σ
  | .atomicMulti _ subs _ _ cons, σ => consVis σ cons ++ visibleAList subs σ
  | .arith _ body _ _ _, σ => visibleA body σ
  | .arithAtomic _ lhs _ rhs _, σ => visibleA lhs σ ++ visibleA rhs σ
  | .timeReversal _ body, σ => visibleA body σ
def visibleAList : List PT → Scope → List Vis
  | [], _ => []
  | p :: ps, σ => visibleA p σ ++ visibleAList ps σ
end

mutual
/-- nodes reached through `_create_program`, in visiting order, with the scope each one sees -/
def visible : PT → Scope → List Vis
  | .const id dur amps meas, σ => visibleA (.const id dur amps meas) σ
  | .table id entries meas cons, σ => visibleA (.table id entries meas cons) σ
  | .point id chans entries meas cons, σ => visibleA (.point id chans entries meas cons) σ
  | .func id ch dur e meas cons, σ => visibleA (.func id ch dur e meas cons) σ
  | .atomicMulti id subs dur meas cons, σ => visibleA (.atomicMulti id subs dur meas cons) σ
  | .arithAtomic id lhs minus rhs meas, σ => visibleA (.arithAtomic id lhs minus rhs meas) σ
  | .seq _ subs _ cons, σ => consVis σ cons ++ visibleList subs σ
  | .rep _ body count _ cons, σ =>
      consVis σ cons ++ needVis σ [count] ++
        (match σ.eval count with
         | .ok c => (match checkedInt c with
             | some n => if n ≤ 0 then [] else visible body σ
             | none => [])
         | .error _ => [])
  | .forLoop _ body idx start stop step _ cons, σ =>
      consVis σ cons ++ needVis σ [start, stop, step] ++
        (match σ.eval start, σ.eval stop, σ.eval step with
         | .ok a, .ok b, .ok s => (match checkedInt a, checkedInt b, checkedInt s with
             | some a, some b, some s =>
                 if s = 0 then [] else (pyRange a b s).flatMap (fun (i : Int) => visible body (.range σ idx (i : Rat)))
             | _, _, _ => [])
         | _, _, _ => [])
  | .mapping _ body pm _ _ cons, σ => consVis σ cons ++ visible body (.mapped σ pm)
  | .parallel _ body _, σ => visible body σ
  | .arith _ body _ _ _, σ => visible body σ
  | .timeReversal _ body, σ => visible body σ
def visibleList : List PT → Scope → List Vis
  | [], _ => []
  | p :: ps, σ => visible p σ ++ visibleList ps σ
end

/-- a proper constraint entry (not a key demand) -/
def Vis.isConstraint (v : Vis) : Bool := v.isCons && v.key.isNone

def consOf (l : List Vis) : List (Scope × Expr) := (l.filter Vis.isConstraint).map (fun v => (v.scope, v.expr))

def visibleConstraints (pt : PT) (σ : Scope) : List (Scope × Expr) := consOf (visible pt σ)

def visibleNeeds (pt : PT) (σ : Scope) : List Vis := (visible pt σ).filter (fun v => !v.isCons)

/-- one constraint in the scope its node sees: `ParameterConstraint.is_fulfilled` -/
def checkOne (se : Scope × Expr) : Except Err Unit := do
  let v ← se.1.eval se.2
  if v = 0 then .error .constraintViolation else pure ()

/-- the judge: the visible constraints validated in visiting order -/
def consOutcome (l : List (Scope × Expr)) : Except Err Unit := l.forM checkOne

/-- `x` must be a key of the scope (no evaluation) -/
def presentKey (σ : Scope) (x : String) : Except Err Unit :=
  if σ.keys.contains x then pure () else .error .parameterMissing

/-- one visible entry in the scope its node sees: a key must be present, an expression must evaluate, a
constraint must moreover be true -/
def checkVis (v : Vis) : Except Err Unit :=
  match v.key with
  | some x => presentKey v.scope x
  | none => do
    let x ← v.scope.eval v.expr
    if v.isCons = true ∧ x = 0 then .error .constraintViolation else pure ()

/-- specification (Prop) of `checkVis v = ok` -/
def Vis.Fine (v : Vis) : Prop :=
  match v.key with
  | some x => v.scope.keys.contains x = true
  | none => ∃ x, v.scope.eval v.expr = .ok x ∧ (v.isCons = true → x ≠ 0)

/-- everything the visited nodes must evaluate, in visiting order -/
def visOutcome (l : List Vis) : Except Err Unit := forM l checkVis

/-- specification (Prop): every visible constraint evaluates true -/
def AllTrue (l : List (Scope × Expr)) : Prop := ∀ se ∈ l, ∃ v, se.1.eval se.2 = .ok v ∧ v ≠ 0
/-- specification (Prop): some visible constraint evaluates false -/
def SomeFalse (l : List (Scope × Expr)) : Prop := ∃ se ∈ l, se.1.eval se.2 = .ok 0

/-! ## line protocol -/

open Sexp

def exprSides : Expr → Option (Cmp × Expr × Expr)
  | .cmp c a b => some (c, a, b)
  | _ => none

def cmpTag : Cmp → String
  | .lt => "lt" | .le => "le" | .eq => "eq" | .ne => "ne" | .gt => "gt" | .ge => "ge"

def resSx : Except Err Rat → Sexp
  | .ok v => Sexp.ofRat v
  | .error e => errSx e

/-- `(true|false|(error cls)) cmp lhs-value rhs-value` for one visible constraint -/
def consSx (se : Scope × Expr) : Sexp :=
  let st : Sexp := match se.1.eval se.2 with
    | .ok v => .atom (if v = 0 then "false" else "true")
    | .error e => errSx e
  match exprSides se.2 with
  | some (c, a, b) => .list [st, .atom (cmpTag c), resSx (se.1.eval a), resSx (se.1.eval b)]
  | none => .list [st, .atom "other"]

def needSx (v : Vis) : Sexp :=
  match checkVis v with
  | .ok _ => .atom "ok"
  | .error e => .atom e.tag

def sortedNames (xs : List String) : List String := (dedup xs).mergeSort (fun a b => a ≤ b)

def outcomeSx : Except Err (Option Loop) → Sexp
  | .ok (some _) => .atom "program"
  | .ok none => .atom "empty"
  | .error e => errSx e

def handle (args : List Sexp) : Sexp :=
  match args with
  | .atom "run" :: rest =>
    match Request.ofSexp rest with
    | none => Sexp.err "malformed-request"
    | some r =>
      let σ : Scope := .dict r.params
      let cons := visibleConstraints r.pt σ
      let needs := visibleNeeds r.pt σ
      .list [
        .list (.atom "names" :: (sortedNames (parameterNames r.pt)).map Sexp.atom),
        .list (.atom "pinned" :: (sortedNames (parameterNamesPinned r.pt)).map Sexp.atom),
        .list [.atom "wf", Sexp.ofBool (wfB r.pt)],
        .list [.atom "not", Sexp.ofBool (noReservedTB r.pt)],
        .list [.atom "pf14", Sexp.ofBool (inPF14 r.pt r.params)],
        .list [.atom "outcome", outcomeSx (createProgram r.pt r.params r.mm r.cm r.single)],
        .list [.atom "judge", match consOutcome cons with
          | .ok _ => .atom "all-true"
          | .error e => errSx e],
        .list (.atom "cons" :: cons.map consSx),
        .list (.atom "needs" :: needs.map needSx)]
  | _ => Sexp.err "unknown-c03-request"

end QP.C03
