import QP.Base
namespace QP.C03
open Sexp

def handle : List Sexp → Sexp
  | _ => Sexp.err "c03-not-implemented"

end QP.C03
