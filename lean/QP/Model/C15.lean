import QP.Base
import QP.Model.C14
/-!
# C15 — volatile repetition counts: marking, update, merge

Model of the code that exists (with the repairs PF-07 of `JointScope.get_volatile_parameters` and PF-C15d of the
merge product applied, see `fixes/`):

* `Expr`                — integer count expressions as sympy hands them over (`Add/Mul/Pow/Integer/Symbol`)
* `Scope`               — `DictScope | MappedScope | RangeScope | JointScope` (the joint scope in the binary
                          form `VolatileValue.operation` builds for the merge product)
  `Scope.get`           — `get_parameter`            `Scope.isVol x` — `x in scope.get_volatile_parameters()`
  `Scope.change`        — `change_constants`
* `RepDef`              — `int | VolatileRepetitionCount(expression, scope)`; `intOf` = `__int__`,
                          `update` = `update_volatile_dependencies`, `prod` = the product of `_merge_single_child`
* `Forest`              — a list of `Loop`s in first-child / next-sibling form (a program is a one-element forest)
* `compile`             — `_internal_create_program` of Atomic / Repetition / Sequence / Mapping / ForLoop
                          templates through `LoopBuilder` (only the count structure; leaves are waveform ids)
* `compileCounts`, `markVolatile` — the same compilation split into "count structure" and "marking" (spec side)
* `cleanupF`            — `Loop.cleanup()` (remove empty loops, merge single children; no measurements)
* `tableUpdate`         — `TaborProgram.update_volatile_parameters` over a flat array of table cells
-/
namespace QP.C15
open Sexp

abbrev Name := String

/-! ## count expressions -/

inductive Expr where
  | lit (v : Int)
  | var (x : Name)
  | add (a b : Expr)
  | sub (a b : Expr)
  | mul (a b : Expr)
  | pow (a : Expr) (k : Nat)
  | max0 (a : Expr)              -- `Max(0, a)` (the clamped factors of the merge product)
  deriving Repr, BEq, DecidableEq, Inhabited

/-- `evaluate_in_scope`: `none` = a variable is missing (`ParameterNotProvidedException`) -/
def Expr.eval (env : Name → Option Int) : Expr → Option Int
  | .lit v => some v
  | .var x => env x
  | .add a b => match a.eval env, b.eval env with
      | some x, some y => some (x + y)
      | _, _ => none
  | .sub a b => match a.eval env, b.eval env with
      | some x, some y => some (x - y)
      | _, _ => none
  | .mul a b => match a.eval env, b.eval env with
      | some x, some y => some (x * y)
      | _, _ => none
  | .pow a k => match a.eval env with
      | some x => some (x ^ k)
      | none => none
  | .max0 a => match a.eval env with
      | some x => some (if x < 0 then 0 else x)
      | none => none

/-- `Expression.variables` -/
def Expr.vars : Expr → List Name
  | .lit _ => []
  | .var x => [x]
  | .add a b => a.vars ++ b.vars
  | .sub a b => a.vars ++ b.vars
  | .mul a b => a.vars ++ b.vars
  | .pow a _ => a.vars
  | .max0 a => a.vars

/-! ## scopes -/

/-- operand names of `VolatileRepetitionCount.operation` in `Loop._merge_single_child` -/
def pn : Name := "parent_repetition_count"
def cn : Name := "child_repetition_count"

inductive Scope where
  | dict (vals : List (Name × Int)) (vol : List Name)
  | mapped (inner : Scope) (m : List (Name × Expr))
  | range (inner : Scope) (idx : Name) (v : Int)
  | joint (ps cs : Scope)       -- JointScope({pn: ps, cn: cs})
  deriving Repr, Inhabited

/-- `Scope.get_parameter` -/
def Scope.get : Scope → Name → Option Int
  | .dict vals _, x => vals.lookup x
  | .mapped inner m, x =>
      match m.lookup x with
      | some e => e.eval (fun y => inner.get y)
      | none => inner.get x
  | .range inner i v, x => if x = i then some v else inner.get x
  | .joint ps cs, x => if x = pn then ps.get pn else if x = cn then cs.get cn else none

/-- `x in scope.get_volatile_parameters()` (membership view of the volatile mapping; `JointScope` as repaired
by PF-07, i.e. iterating over `items()`) -/
def Scope.isVol : Scope → Name → Bool
  | .dict _ vol, x => vol.contains x
  | .mapped inner m, x =>
      match m.lookup x with
      | some e => e.vars.any (fun y => inner.isVol y)
      | none => inner.isVol x
  | .range inner i _, x => (x != i) && inner.isVol x
  | .joint ps cs, x => (x == pn && ps.isVol pn) || (x == cn && cs.isVol cn)

/-- the top-level volatile parameters a name depends on (free symbols of the dependency expression) -/
def Scope.roots : Scope → Name → List Name
  | .dict _ vol, x => if vol.contains x then [x] else []
  | .mapped inner m, x =>
      match m.lookup x with
      | some e => e.vars.flatMap (fun y => inner.roots y)
      | none => inner.roots x
  | .range inner i _, x => if x = i then [] else inner.roots x
  | .joint ps cs, x => if x = pn then ps.roots pn else if x = cn then cs.roots cn else []

abbrev Assign := List (Name × Int)

/-- new value of a constant: `new_constants.get(name, old)` -/
def override (new : Assign) (kv : Name × Int) : Name × Int :=
  (kv.1, match new.lookup kv.1 with | some v => v | none => kv.2)

/-- `change_constants` (constants not present are ignored; a dict scope without a key to update is returned
unchanged — `return self`) -/
def Scope.change (new : Assign) : Scope → Scope
  | .dict vals vol =>
      if vals.any (fun kv => (new.lookup kv.1).isSome) then .dict (vals.map (override new)) vol
      else .dict vals vol
  | .mapped inner m => .mapped (inner.change new) m
  | .range inner i v => .range (inner.change new) i v
  | .joint ps cs => .joint (ps.change new) (cs.change new)

/-! ## repetition definitions -/

inductive Err where
  | parameterMissing     -- ParameterNotProvidedException / ExpressionVariableMissingException
  | assertion            -- "AtomicPT cannot be volatile"
  | valueError           -- range() with step 0
  deriving Repr, BEq, DecidableEq, Inhabited

def Err.name : Err → String
  | .parameterMissing => "parameter_missing"
  | .assertion => "assertion"
  | .valueError => "value_error"

inductive RepDef where
  | const (n : Nat)
  | vol (e : Expr) (s : Scope)
  deriving Repr, Inhabited

/-- `Loop.volatile_repetition` is truthy (a `VolatileProperty` named tuple is never empty) -/
def RepDef.isVol : RepDef → Bool
  | .const _ => false
  | .vol _ _ => true

/-- `int(repetition_definition)`: negative values are clamped to 0 (with a warning) -/
def RepDef.intOf : RepDef → Except Err Nat
  | .const n => .ok n
  | .vol e s => match e.eval s.get with
      | some v => .ok v.toNat
      | none => .error .parameterMissing

/-- `update_volatile_dependencies`: the scope is replaced by `change_constants(new)` -/
def RepDef.update (new : Assign) : RepDef → RepDef
  | .const n => .const n
  | .vol e s => .vol e (s.change new)

/-- `VolatileValue.__mul__(int)` -/
def RepDef.mulConst (k : Nat) : RepDef → RepDef
  | .const n => .const (n * k)
  | .vol e s => .vol (.mul e (.lit k)) s

/-- the repetition definition `_merge_single_child` gives the merged loop (`p` parent, `c` child) -/
def RepDef.prod (p c : RepDef) : RepDef :=
  match p, c with
  | .const a, .const b => .const (a * b)
  | .const a, .vol e s => .vol (.mul e (.lit a)) s
  | .vol e s, .const b => .vol (.mul e (.lit b)) s
  | .vol ep sp, .vol ec sc =>
      .vol (.mul (.max0 (.var pn)) (.max0 (.var cn))) (.joint (.mapped sp [(pn, ep)]) (.mapped sc [(cn, ec)]))

/-- dependency roots of a count: the volatile top-level parameters it depends on -/
def RepDef.roots : RepDef → List Name
  | .const _ => []
  | .vol e s => e.vars.flatMap s.roots

/-! ## float-valued counts

Count expressions over float parameters (`'t_hold / t_unit'`) evaluate to a float `q` (an exact rational).  Both
code paths turn it into a count with `int(round(q))`: `checked_int_cast` at instantiation
(`RepetitionPulseTemplate.get_repetition_count_value`) and `VolatileRepetitionCount.__int__` on update; Python's
`round` is `roundHalfEven` of the C14 model; negative values are clamped to 0.  Values farther than the
tolerance `1e-6` from an integer are no legal counts (instantiation raises, the update warns). -/

/-- the repetition count of the float value `q` -/
def floatCount (q : Rat) : Nat := (QP.C14.roundHalfEven q).toNat

/-- `is_integer` / `checked_int_cast` tolerance -/
def withinTolerance (q : Rat) : Bool :=
  let d := q - (QP.C14.roundHalfEven q : Rat)
  decide (d < 1 / 1000000) && decide (-d < 1 / 1000000)

/-- the judge for a float-valued count: the observed count must be `floatCount q` -/
def judgeFloatCount (q : Rat) (obs : Nat) : Sexp :=
  if !withinTolerance q then .list [.atom "outside", ofNat (floatCount q)]
  else if obs = floatCount q then .list [.atom "ok", ofNat (floatCount q)]
  else .list [.atom "violates", ofNat (floatCount q)]

/-! ## programs -/

/-- a list of loops: `leaf` = loop with a waveform, `node` = loop with children (`body`), `rest` = the
following siblings.  A program is the one-element forest holding the root loop. -/
inductive Forest where
  | nil
  | leaf (rd : RepDef) (wf : Nat) (rest : Forest)
  | node (rd : RepDef) (body rest : Forest)
  deriving Repr, Inhabited

def Forest.append : Forest → Forest → Forest
  | .nil, g => g
  | .leaf rd wf rest, g => .leaf rd wf (rest.append g)
  | .node rd body rest, g => .node rd body (rest.append g)

instance : Append Forest := ⟨Forest.append⟩

def Forest.isNil : Forest → Bool
  | .nil => true
  | _ => false

/-- apply `update_volatile_dependencies(new)` to every repetition definition -/
def Forest.update (new : Assign) : Forest → Forest
  | .nil => .nil
  | .leaf rd wf rest => .leaf (rd.update new) wf (rest.update new)
  | .node rd body rest => .node (rd.update new) (body.update new) (rest.update new)

/-- observable counts: the same shape with evaluated counts, volatility flags and dependency roots -/
inductive CForest where
  | nil
  | leaf (n : Nat) (v : Bool) (wf : Nat) (rest : CForest)
  | node (n : Nat) (v : Bool) (body rest : CForest)
  deriving Repr, Inhabited, DecidableEq

def Forest.counts : Forest → Except Err CForest
  | .nil => .ok .nil
  | .leaf rd wf rest =>
      match rd.intOf, rest.counts with
      | .ok n, .ok r => .ok (.leaf n rd.isVol wf r)
      | .error e, _ => .error e
      | _, .error e => .error e
  | .node rd body rest =>
      match rd.intOf, body.counts, rest.counts with
      | .ok n, .ok b, .ok r => .ok (.node n rd.isVol b r)
      | .error e, _, _ => .error e
      | _, .error e, _ => .error e
      | _, _, .error e => .error e

def repeatList (n : Nat) (xs : List Nat) : List Nat :=
  match n with
  | 0 => []
  | k + 1 => xs ++ repeatList k xs

/-- the fully unrolled sequence of played waveforms -/
def CForest.play : CForest → List Nat
  | .nil => []
  | .leaf n _ wf rest => repeatList n [wf] ++ rest.play
  | .node n _ body rest => repeatList n body.play ++ rest.play

/-! ## templates -/

inductive PT where
  | atom (wf : Nat) (ps : List Name)                 -- AtomicPulseTemplate with parameters `ps`
  | rep (e : Expr) (body : PT)                       -- RepetitionPulseTemplate
  | seq (a b : PT)                                   -- SequencePulseTemplate (n-ary = nested)
  | map (m : List (Name × Expr)) (body : PT)         -- MappingPulseTemplate
  | forL (i : Name) (lo hi st : Expr) (body : PT)    -- ForLoopPulseTemplate
  deriving Repr, Inhabited

/-- Python `range(lo, hi, st)` for `st ≠ 0` -/
def pyRange (lo hi st : Int) : List Int :=
  if 0 < st then (List.range ((hi - lo + st - 1) / st).toNat).map (fun (k : Nat) => lo + st * (k : Int))
  else if st < 0 then (List.range ((lo - hi + (-st) - 1) / (-st)).toNat).map (fun (k : Nat) => lo + st * (k : Int))
  else []

/-- `ParametrizedRange.to_range(scope)` -/
def evalRange (s : Scope) (lo hi st : Expr) : Except Err (List Int) :=
  match lo.eval s.get, hi.eval s.get, st.eval s.get with
  | some l, some h, some t => if t = 0 then .error .valueError else .ok (pyRange l h t)
  | _, _, _ => .error .parameterMissing

/-- sequential composition of the iterations of a for loop -/
def concatE (vals : List Int) (f : Int → Except Err Forest) : Except Err Forest :=
  match vals with
  | [] => .ok .nil
  | v :: rest =>
      match f v with
      | .error e => .error e
      | .ok x => match concatE rest f with
          | .error e => .error e
          | .ok y => .ok (x ++ y)

/-- the repetition definition `RepetitionPulseTemplate._internal_create_program` builds for a positive count -/
def markRd (e : Expr) (s : Scope) (n : Nat) : RepDef :=
  if e.vars.any s.isVol then .vol e s else .const n

/-- `_internal_create_program` through `LoopBuilder`: the children appended to the current top loop -/
def compile : PT → Scope → Except Err Forest
  | .atom wf ps, s =>
      if ps.any s.isVol then .error .assertion
      else if ps.all (fun p => (s.get p).isSome) then .ok (.leaf (.const 1) wf .nil)
      else .error .parameterMissing
  | .rep e body, s =>
      match e.eval s.get with
      | none => .error .parameterMissing
      | some v =>
        if v ≤ 0 then .ok .nil
        else
          match compile body s with
          | .error err => .error err
          | .ok b => if b.isNil then .ok .nil else .ok (.node (markRd e s v.toNat) b .nil)
  | .seq a b, s =>
      match compile a s with
      | .error err => .error err
      | .ok x => match compile b s with
          | .error err => .error err
          | .ok y => .ok (x ++ y)
  | .map m body, s => compile body (.mapped s m)
  | .forL i lo hi st body, s =>
      match evalRange s lo hi st with
      | .error err => .error err
      | .ok vals => concatE vals (fun v => compile body (.range s i v))

/-- `create_program`: the root loop (count 1) around the compiled children; `none` = empty program -/
def createProgram (pt : PT) (params : Assign) (vol : List Name) : Except Err Forest :=
  match compile pt (.dict params vol) with
  | .error e => .error e
  | .ok f => if f.isNil then .ok .nil else .ok (.node (.const 1) f .nil)

/-- The hypotheses of `update_eq_fresh` as an executable test (what "inside the quantifier" means for a template
and a scope): every count that depends on a volatile parameter is positive (a count of 0 creates no loop at all,
so nothing could be updated later) and no for-loop range depends on a volatile parameter (the number of
iterations is not a repetition count and is never marked). -/
def PT.inside : PT → Scope → Bool
  | .atom _ _, _ => true
  | .rep e body, s =>
      match e.eval s.get with
      | none => true
      | some v =>
        if e.vars.any s.isVol then decide (0 < v) && body.inside s
        else decide (v ≤ 0) || body.inside s
  | .seq a b, s => a.inside s && b.inside s
  | .map m body, s => body.inside (.mapped s m)
  | .forL i lo hi st body, s =>
      !((lo.vars ++ hi.vars ++ st.vars).any s.isVol) &&
      match evalRange s lo hi st with
      | .ok vals => vals.all (fun v => body.inside (.range s i v))
      | .error _ => true

/-! ### the same compilation split into count structure and marking (spec side) -/

/-- count structure: every loop keeps the count expression and the scope it is evaluated in -/
inductive CountTree where
  | nil
  | leaf (wf : Nat) (rest : CountTree)
  | node (e : Expr) (s : Scope) (n : Nat) (body rest : CountTree)
  deriving Repr, Inhabited

def CountTree.append : CountTree → CountTree → CountTree
  | .nil, g => g
  | .leaf wf rest, g => .leaf wf (rest.append g)
  | .node e s n body rest, g => .node e s n body (rest.append g)

def CountTree.isNil : CountTree → Bool
  | .nil => true
  | _ => false

def concatC (vals : List Int) (f : Int → Except Err CountTree) : Except Err CountTree :=
  match vals with
  | [] => .ok .nil
  | v :: rest =>
      match f v with
      | .error e => .error e
      | .ok x => match concatC rest f with
          | .error e => .error e
          | .ok y => .ok (x.append y)

def compileCounts : PT → Scope → Except Err CountTree
  | .atom wf ps, s =>
      if ps.any s.isVol then .error .assertion
      else if ps.all (fun p => (s.get p).isSome) then .ok (.leaf wf .nil)
      else .error .parameterMissing
  | .rep e body, s =>
      match e.eval s.get with
      | none => .error .parameterMissing
      | some v =>
        if v ≤ 0 then .ok .nil
        else
          match compileCounts body s with
          | .error err => .error err
          | .ok b => if b.isNil then .ok .nil else .ok (.node e s v.toNat b .nil)
  | .seq a b, s =>
      match compileCounts a s with
      | .error err => .error err
      | .ok x => match compileCounts b s with
          | .error err => .error err
          | .ok y => .ok (x.append y)
  | .map m body, s => compileCounts body (.mapped s m)
  | .forL i lo hi st body, s =>
      match evalRange s lo hi st with
      | .error err => .error err
      | .ok vals => concatC vals (fun v => compileCounts body (.range s i v))

/-- mark exactly the counts whose expression mentions a volatile name of its scope -/
def markVolatile : CountTree → Forest
  | .nil => .nil
  | .leaf wf rest => .leaf (.const 1) wf (markVolatile rest)
  | .node e s n body rest => .node (markRd e s n) (markVolatile body) (markVolatile rest)

/-! ## `Loop.cleanup()` -/

/-- what `_merge_single_child` makes of a loop with definition `rd` whose (already cleaned) children are `b`;
`rest` are the following siblings.  No child left: the loop is empty and dropped by the parent. -/
def mergeSingle (rd : RepDef) (b : Forest) (rest : Forest) : Forest :=
  match b with
  | .nil => rest
  | .leaf crd wf .nil => .leaf (rd.prod crd) wf rest
  | .node crd cb .nil => .node (rd.prod crd) cb rest
  | b => .node rd b rest

/-- `cleanup()` applied to every loop of a children list (default actions; templates without measurements) -/
def cleanupF : Forest → Forest
  | .nil => .nil
  | .leaf rd wf rest => .leaf rd wf (cleanupF rest)
  | .node rd body rest => mergeSingle rd (cleanupF body) (cleanupF rest)

/-! ## `TaborProgram.update_volatile_parameters` over a flat array of table cells

`cells` are the repetition counts stored in the (advanced) sequencer tables; `vpos` lists the volatile
positions in iteration order, each naming the cell it designates (several positions name the same cell when
two advanced-table entries share one sequencer table) and its repetition definition. -/

def setCell (cells : List Nat) (i : Nat) (v : Nat) : List Nat := cells.set i v

/-- returns the new cells and the reported modifications `(cell, new value)` in order -/
def tableUpdate (new : Assign) : List (Nat × RepDef) → List Nat → List Nat × List (Nat × Nat)
  | [], cells => (cells, [])
  | (i, rd) :: more, cells =>
      match (rd.update new).intOf with
      | .error _ => tableUpdate new more cells
      | .ok v =>
        if cells[i]? = some v then tableUpdate new more cells
        else
          let r := tableUpdate new more (setCell cells i v)
          (r.1, (i, v) :: r.2)

/-! ## line protocol -/

partial def parseExpr : Sexp → Option Expr
  | .atom a => match a.toInt? with
      | some v => some (.lit v)
      | none => some (.var a)
  | .list (.atom "+" :: x :: xs) => do
      let x ← parseExpr x
      xs.foldlM (fun acc y => do let y ← parseExpr y; pure (Expr.add acc y)) x
  | .list (.atom "*" :: x :: xs) => do
      let x ← parseExpr x
      xs.foldlM (fun acc y => do let y ← parseExpr y; pure (Expr.mul acc y)) x
  | .list [.atom "-", x, y] => do
      let x ← parseExpr x; let y ← parseExpr y; pure (.sub x y)
  | .list [.atom "^", x, .atom k] => do
      let x ← parseExpr x; let k ← k.toNat?; pure (.pow x k)
  | .list [.atom "max0", x] => do
      let x ← parseExpr x; pure (.max0 x)
  | _ => none

def parseName : Sexp → Option Name
  | .atom a => some a
  | _ => none

def parseMapping (xs : List Sexp) : Option (List (Name × Expr)) :=
  xs.mapM fun
    | .list [.atom k, e] => do let e ← parseExpr e; pure (k, e)
    | _ => none

partial def parsePT : Sexp → Option PT
  | .list [.atom "atom", wf, .list ps] => do
      let wf ← nat? wf; let ps ← ps.mapM parseName; pure (.atom wf ps)
  | .list [.atom "rep", e, b] => do
      let e ← parseExpr e; let b ← parsePT b; pure (.rep e b)
  | .list (.atom "seq" :: x :: xs) => do
      let all ← (x :: xs).mapM parsePT
      match all.reverse with
      | [] => none
      | last :: revInit => pure (revInit.foldl (fun acc p => PT.seq p acc) last)
  | .list [.atom "map", .list m, b] => do
      let m ← parseMapping m; let b ← parsePT b; pure (.map m b)
  | .list [.atom "for", .atom i, lo, hi, st, b] => do
      let lo ← parseExpr lo; let hi ← parseExpr hi; let st ← parseExpr st; let b ← parsePT b
      pure (.forL i lo hi st b)
  | _ => none

def parseAssign (xs : List Sexp) : Option Assign :=
  xs.mapM fun
    | .list [.atom k, v] => do let v ← int? v; pure (k, v)
    | _ => none

def parseUpdates (xs : List Sexp) : Option (List Assign) :=
  xs.mapM fun
    | .list ys => parseAssign ys
    | _ => none

def dedupNames (xs : List Name) : List Name :=
  xs.foldl (fun acc x => if acc.contains x then acc else acc ++ [x]) []

/-- printed program: `(n count v|c (roots…) child…)` / `(l count v|c (roots…) wf)` -/
partial def showForest : Forest → List Sexp
  | .nil => []
  | .leaf rd wf rest =>
      let c := match rd.intOf with | .ok n => ofNat n | .error e => atom ("error:" ++ e.name)
      .list [atom "l", c, atom (if rd.isVol then "v" else "c"),
             .list ((dedupNames rd.roots).map atom), ofNat wf] :: showForest rest
  | .node rd body rest =>
      let c := match rd.intOf with | .ok n => ofNat n | .error e => atom ("error:" ++ e.name)
      .list ([atom "n", c, atom (if rd.isVol then "v" else "c"),
              .list ((dedupNames rd.roots).map atom)] ++ showForest body) :: showForest rest

def applyPipeline (p : String) (f : Forest) : Option Forest :=
  if p = "none" then some f else if p = "cleanup" then some (cleanupF f) else none

/-- accumulated parameter values after a list of updates (what a fresh instantiation is given) -/
def overrideAll (params : Assign) (ups : List Assign) : Assign :=
  ups.foldl (fun p new => p.map (override new)) params

/-- prefixes `[u1], [u1,u2], …` -/
def prefixes {α} : List α → List (List α)
  | [] => []
  | x :: xs => [x] :: (prefixes xs).map (x :: ·)

def exceptSexp (tag : String) (r : Except Err Forest) : Sexp :=
  match r with
  | .ok f => .list (atom tag :: showForest f)
  | .error e => .list [atom tag, atom "error", atom e.name]

/-- `(c15 run <pipeline> <pt> (<params>) (<vol>) (<updates>))` →
`(ok (orig …) (upd …)… (fresh …)…)`: the model's program, the program after each update
(`update_volatile_dependencies` on every node) and the spec: a fresh instantiation at the accumulated values -/
def handleRun (p : String) (pt : PT) (params : Assign) (vol : List Name) (ups : List Assign) : Sexp :=
  match createProgram pt params vol with
  | .error e => .list [atom "error", atom e.name]
  | .ok f0 =>
    match applyPipeline p f0 with
    | none => err "unknown-pipeline"
    | some f =>
      let upds := (prefixes ups).map (fun pre => pre.foldl (fun g new => g.update new) f)
      let fresh := (prefixes ups).map (fun pre =>
        match createProgram pt (overrideAll params pre) vol with
        | .error e => Except.error e
        | .ok g => match applyPipeline p g with
            | some g' => Except.ok g'
            | none => Except.ok g)
      .list ([atom "ok", .list (atom "orig" :: showForest f)]
             ++ upds.map (fun g => .list (atom "upd" :: showForest g))
             ++ fresh.map (exceptSexp "fresh"))

/-! ### the judge: an observed program against the spec (fresh instantiation at the accumulated values) -/

partial def parseCForest : List Sexp → Option CForest
  | [] => some .nil
  | .list [.atom "l", n, .atom v, .list _, wf] :: rest => do
      let n ← nat? n; let wf ← nat? wf; let r ← parseCForest rest
      pure (.leaf n (v == "v") wf r)
  | .list (.atom "n" :: n :: .atom v :: .list _ :: kids) :: rest => do
      let n ← nat? n; let b ← parseCForest kids; let r ← parseCForest rest
      pure (.node n (v == "v") b r)
  | _ => none

/-- same shape and waveforms -/
def CForest.sameShape : CForest → CForest → Bool
  | .nil, .nil => true
  | .leaf _ _ w r, .leaf _ _ w' r' => w == w' && r.sameShape r'
  | .node _ _ b r, .node _ _ b' r' => b.sameShape b' && r.sameShape r'
  | _, _ => false

def CForest.sameCounts : CForest → CForest → Bool
  | .nil, .nil => true
  | .leaf n _ _ r, .leaf n' _ _ r' => n == n' && r.sameCounts r'
  | .node n _ b r, .node n' _ b' r' => n == n' && b.sameCounts b' && r.sameCounts r'
  | _, _ => false

def CForest.sameMarks : CForest → CForest → Bool
  | .nil, .nil => true
  | .leaf _ v _ r, .leaf _ v' _ r' => v == v' && r.sameMarks r'
  | .node _ v b r, .node _ v' b' r' => v == v' && b.sameMarks b' && r.sameMarks r'
  | _, _ => false

/-- the judge of `update_eq_fresh` / `marked_iff`: `obs` is what the implementation shows after the updates,
`spec` the counts of a fresh instantiation (+ the same pipeline) at the accumulated values -/
def judgeAgainst (spec obs : CForest) : String :=
  if spec.sameShape obs then
    if !spec.sameCounts obs then "counts"
    else if !spec.sameMarks obs then "marks"
    else "ok"
  else if spec.play == obs.play then "ok-play"      -- zero counts: a fresh program has no such loop
  else "play"

def handleJudge (p : String) (pt : PT) (params : Assign) (vol : List Name) (ups : List Assign)
    (obs : List Sexp) : Sexp :=
  match parseCForest obs with
  | none => err "bad-observation"
  | some o =>
    match createProgram pt (overrideAll params ups) vol with
    | .error e => .list [atom "spec-error", atom e.name]
    | .ok g =>
      match applyPipeline p g with
      | none => err "unknown-pipeline"
      | some g' =>
        match g'.counts with
        | .error e => .list [atom "spec-error", atom e.name]
        | .ok spec =>
          let v := judgeAgainst spec o
          if v == "ok" || v == "ok-play" then .list [atom v] else .list [atom "violates", atom v]

def parseCells (xs : List Sexp) : Option (List Nat) := xs.mapM nat?

partial def parseScope : Sexp → Option Scope
  | .list [.atom "dict", .list vals, .list vol] => do
      let vals ← parseAssign vals; let vol ← vol.mapM parseName; pure (.dict vals vol)
  | .list [.atom "mapped", inner, .list m] => do
      let inner ← parseScope inner; let m ← parseMapping m; pure (.mapped inner m)
  | .list [.atom "range", inner, .atom i, v] => do
      let inner ← parseScope inner; let v ← int? v; pure (.range inner i v)
  | .list [.atom "joint", ps, cs] => do
      let ps ← parseScope ps; let cs ← parseScope cs; pure (.joint ps cs)
  | _ => none

def parseVpos (xs : List Sexp) : Option (List (Nat × RepDef)) :=
  xs.mapM fun
    | .list [i, e, sc] => do
        let i ← nat? i; let e ← parseExpr e; let sc ← parseScope sc; pure (i, RepDef.vol e sc)
    | _ => none

/-- `(c15 table (<new>) ((cell expr scope)…) (cells…))` → `(ok (cells…) (mods (cell value)…) (deps (names…)…))` -/
def handleTable (new : Assign) (vpos : List (Nat × RepDef)) (cells : List Nat) : Sexp :=
  let r := tableUpdate new vpos cells
  let deps := vpos.map (fun p => match p.2 with
    | .vol e s => Sexp.list ((dedupNames (e.vars.filter s.isVol)).map atom)
    | .const _ => Sexp.list [])
  .list [atom "ok", .list (r.1.map ofNat), .list (r.2.map (fun m => .list [ofNat m.1, ofNat m.2])), .list deps]

def handle : List Sexp → Sexp
  | [.atom "run", .atom p, pt, .list params, .list vol, .list ups] =>
      match parsePT pt, parseAssign params, vol.mapM parseName, parseUpdates ups with
      | some pt, some params, some vol, some ups => handleRun p pt params vol ups
      | _, _, _, _ => err "c15-bad-request"
  | [.atom "table", .list new, .list vpos, .list cells] =>
      match parseAssign new, parseVpos vpos, parseCells cells with
      | some new, some vpos, some cells => handleTable new vpos cells
      | _, _, _ => err "c15-bad-request"
  | [.atom "fcount", q, obs] =>
      match rat? q, nat? obs with
      | some q, some obs => judgeFloatCount q obs
      | _, _ => err "c15-bad-request"
  | [.atom "flags", pt, .list params, .list vol] =>
      match parsePT pt, parseAssign params, vol.mapM parseName with
      | some pt, some params, some vol => .list [atom "flags", ofBool (pt.inside (.dict params vol))]
      | _, _, _ => err "c15-bad-request"
  | [.atom "judge", .atom p, pt, .list params, .list vol, .list ups, .list obs] =>
      match parsePT pt, parseAssign params, vol.mapM parseName, parseUpdates ups with
      | some pt, some params, some vol, some ups => handleJudge p pt params vol ups obs
      | _, _, _, _ => err "c15-bad-request"
  | _ => err "c15-bad-request"

end QP.C15
