import QP.Base
namespace QP.C15
open Sexp

def handle : List Sexp → Sexp
  | _ => Sexp.err "c15-not-implemented"

end QP.C15
