import QP.Base
namespace QP.C11
open Sexp

def handle : List Sexp → Sexp
  | _ => Sexp.err "c11-not-implemented"

end QP.C11
