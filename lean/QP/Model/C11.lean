import QP.Base
/-!
# C11 — the pulse storage stays loadable whatever point a store operation fails at

Model of `qupulse/serialization.py`: `PulseStorage.__setitem__/overwrite/__delitem__` (collection of the
transaction in child-before-parent order, the `put` loop, publication to `_temporary_storage`),
`FilesystemBackend.put/delete`, `ZipFileBackend.put/delete/_update`, `DictBackend.put/delete`.

A transaction is compiled, per backend, into the list of primitive file-system / archive / dict steps the
code performs, in the order it performs them.  `run : List Step → FS → FS`; a failure (exception or crash)
at position `k` leaves `run (steps.take k) fs₀`.  `Loadable` is the spec (every listed identifier loads with
all references resolving transitively; every identifier holds its old or its new document); `loadableB` is
its executable twin used as judge of the states the real code leaves behind.

Two compilations are modelled for the two file backends: the one of the pinned tree (`dirPinned`,
`zipPinned`: truncate-then-write; copy, `os.remove`, `os.rename`, append) for which the property is false
(PF-17, see `QP.Props.C11.*_counterexample`) and the repaired one (`dir`, `zip`: complete temporary file,
then one `os.replace`) of `fixes/PF-17.diff`.
-/
namespace QP.C11
open Sexp

abbrev Id := Nat

/-- what a stored file / archive member holds: an incomplete text (empty or cut off: does not parse) or a
complete JSON document, abstracted to a content token and the identifiers it references -/
inductive Data where
  | garbage
  | doc (tok : Nat) (refs : List Id)
  deriving DecidableEq, Repr

/-- association list, first match wins -/
abbrev Store := List (Id × Data)

namespace Store
def get : Store → Id → Option Data
  | [], _ => none
  | (j, d) :: r, i => if j = i then some d else get r i
def put (s : Store) (i : Id) (d : Data) : Store := (i, d) :: s
def erase (s : Store) (i : Id) : Store := s.filter (fun p => !(p.1 == i))
/-- keys without repetition (what the backend lists) -/
def ids : Store → List Id
  | [] => []
  | (j, _) :: r => j :: (ids r).filter (fun k => !(k == j))
/-- canonical form: one pair per listed identifier -/
def norm (s : Store) : Store := s.ids.filterMap (fun i => (s.get i).map (fun d => (i, d)))
end Store

/-! ## the spec, over views `Id → Option Data` -/

abbrev G := Id → Option Data

/-- `i` loads: it holds a complete document and every reference of it loads (well-founded: a reference
cycle does not load — the real loader recurses forever) -/
inductive Loads (g : G) : Id → Prop where
  | mk (i : Id) (tok : Nat) (refs : List Id) :
      g i = some (.doc tok refs) → (∀ r, r ∈ refs → Loads g r) → Loads g i

/-- every listed identifier loads -/
def AllLoad (g : G) : Prop := ∀ i, g i ≠ none → Loads g i

/-- every identifier holds its old or its new content -/
def OldOrNew (g pre fin : G) : Prop := ∀ i, g i = pre i ∨ g i = fin i

def Loadable (g pre fin : G) : Prop := AllLoad g ∧ OldOrNew g pre fin

def gput (g : G) (i : Id) (d : Data) : G := fun j => if j = i then some d else g j
def gerase (g : G) (i : Id) : G := fun j => if j = i then none else g j

/-! ## executable twin (judge) -/

/-- loader with the loaded identifier removed below it; fuel `s.length` always suffices
(`QP.Props.C11.loadsB_iff`) -/
def loadsE : Nat → Store → Id → Bool
  | 0, _, _ => false
  | n + 1, s, i =>
    match s.get i with
    | some (.doc _ refs) => refs.all (fun r => loadsE n (s.erase i) r)
    | _ => false

def loadsB (s : Store) (i : Id) : Bool := loadsE s.length s i

def allLoadB (s : Store) : Bool := s.ids.all (loadsB s)

def oldOrNewB (s pre fin : Store) : Bool :=
  (s.ids ++ pre.ids ++ fin.ids).all (fun i => s.get i == pre.get i || s.get i == fin.get i)

def loadableB (s pre fin : Store) : Bool := allLoadB s && oldOrNewB s pre fin

/-! ## the modelled world -/

/-- directory of the `FilesystemBackend` (`entries`: the `<id>.json` files, `tmpText`: the temporary file),
the archive of the `ZipFileBackend` (`none`: no readable archive at its path) and its temporary archive,
the dict of the `DictBackend`, and `PulseStorage._temporary_storage` (`cache`) -/
structure FS where
  entries : Store := []
  tmpText : Option Data := none
  archive : Option Store := none
  tmpZip : Option Store := none
  dict : Store := []
  cache : Store := []
  deriving DecidableEq, Repr

inductive Step where
  -- directory backend
  | truncate (i : Id)               -- `open('<i>.json', 'w')`
  | write (i : Id) (d : Data)       -- `file.write(data)` (+ close) on `<i>.json`
  | remove (i : Id)                 -- `os.remove('<i>.json')`
  | tmpCreate                       -- `open('<i>.json.tmp', 'w')`
  | tmpWrite (d : Data)             -- `file.write(data)` (+ close) on the temporary file
  | tmpRename (i : Id)              -- `os.replace(tmp, '<i>.json')`
  -- zip backend
  | zTmpCreate                      -- `tempfile.mkstemp` + `ZipFile(tmp, 'w')`
  | zCopy (i : Id)                  -- `zout.writestr(item, zin.read(item.filename))`
  | zTmpAppend (i : Id) (d : Data)  -- `zout.writestr(filename, data)`
  | zRemove                         -- `os.remove(root)`
  | zRename                         -- `os.rename(tmp, root)` / `os.replace(tmp, root)`
  | zAppend (i : Id) (d : Data)     -- `ZipFile(root, 'a').writestr(filename, data)`
  -- dict backend
  | dictPut (i : Id) (d : Data)
  | dictDel (i : Id)
  -- PulseStorage
  | publish (ws : List (Id × Data)) -- `_temporary_storage.update(**_transaction_storage)`
  | uncache (i : Id)                -- `del _temporary_storage[i]`
  deriving DecidableEq, Repr

def step (fs : FS) : Step → FS
  | .truncate i => { fs with entries := fs.entries.put i .garbage }
  | .write i d => { fs with entries := fs.entries.put i d }
  | .remove i => { fs with entries := fs.entries.erase i }
  | .tmpCreate => { fs with tmpText := some .garbage }
  | .tmpWrite d => { fs with tmpText := some d }
  | .tmpRename i =>
    match fs.tmpText with
    | some d => { fs with entries := fs.entries.put i d, tmpText := none }
    | none => fs
  | .zTmpCreate => { fs with tmpZip := some [] }
  | .zCopy i =>
    match fs.archive, fs.tmpZip with
    | some a, some t =>
      match a.get i with
      | some d => { fs with tmpZip := some (t.put i d) }
      | none => fs
    | _, _ => fs
  | .zTmpAppend i d =>
    match fs.tmpZip with
    | some t => { fs with tmpZip := some (t.put i d) }
    | none => fs
  | .zRemove => { fs with archive := none }
  | .zRename =>
    match fs.tmpZip with
    | some t => { fs with archive := some t, tmpZip := none }
    | none => fs
  | .zAppend i d => { fs with archive := some ((fs.archive.getD []).put i d) }
  | .dictPut i d => { fs with dict := fs.dict.put i d }
  | .dictDel i => { fs with dict := fs.dict.erase i }
  | .publish ws => { fs with cache := ws.foldl (fun c p => c.put p.1 p.2) fs.cache }
  | .uncache i => { fs with cache := fs.cache.erase i }

def run : List Step → FS → FS
  | [], fs => fs
  | s :: ss, fs => run ss (step fs s)

/-- `dirPinned` / `zipPinned`: the code of the pinned tree; `dir` / `zip`: with `fixes/PF-17.diff` -/
inductive Backend where
  | dir | zip | dict | dirPinned | zipPinned
  deriving DecidableEq, Repr

def Backend.fixed : Backend → Bool
  | .dir | .zip | .dict => true
  | _ => false

/-- what a *new* backend object over the same directory / archive lists and returns -/
def view : Backend → FS → Option Store
  | .dir, fs | .dirPinned, fs => some fs.entries
  | .zip, fs | .zipPinned, fs => fs.archive
  | .dict, fs => some fs.dict

def existsB (b : Backend) (fs : FS) (i : Id) : Bool :=
  match view b fs with
  | some s => (s.get i).isSome
  | none => false

inductive Op where
  | put (i : Id) (d : Data) (overwrite : Bool)
  | delete (i : Id)
  deriving DecidableEq, Repr

def Op.id : Op → Id
  | .put i _ _ => i
  | .delete i => i

inductive Err where
  | fileExists   -- `FileExistsError` of `put(..., overwrite=False)`
  | keyError     -- `KeyError` of `delete`
  | typeError    -- un-serializable object met by the JSON encoder
  | clash        -- `RuntimeError`: identifier already taken by a different object
  | valueError   -- `__setitem__` under a name that is not the serializable's identifier
  deriving DecidableEq, Repr

/-- `for item in zin.infolist(): if item.filename != filename: zout.writestr(item, …)` -/
def copyArchiveWithout (i : Id) (a : Store) : List Step :=
  (a.ids.filter (fun k => !(k == i))).map Step.zCopy

def members (fs : FS) : Store := fs.archive.getD []

def compileOp (b : Backend) (fs : FS) : Op → Except Err (List Step)
  | .put i d ow =>
    if existsB b fs i && !ow then .error .fileExists else
    .ok (match b with
      | .dir => [.tmpCreate, .tmpWrite d, .tmpRename i]
      | .dirPinned => [.truncate i, .write i d]
      | .zip => .zTmpCreate :: copyArchiveWithout i (members fs) ++ [.zTmpAppend i d, .zRename]
      | .zipPinned =>
        if existsB b fs i then
          .zTmpCreate :: copyArchiveWithout i (members fs) ++ [.zRemove, .zRename, .zAppend i d]
        else [.zAppend i d]
      | .dict => [.dictPut i d])
  | .delete i =>
    if !existsB b fs i then .error .keyError else
    .ok (match b with
      | .dir | .dirPinned => [.remove i]
      | .zip => .zTmpCreate :: copyArchiveWithout i (members fs) ++ [.zRename]
      | .zipPinned => .zTmpCreate :: copyArchiveWithout i (members fs) ++ [.zRemove, .zRename]
      | .dict => [.dictDel i])

/-- the steps of a sequence of backend calls; stops at the first call that raises -/
def compileOps (b : Backend) : FS → List Op → List Step × Option Err
  | _, [] => ([], none)
  | fs, op :: ops =>
    match compileOp b fs op with
    | .error e => ([], some e)
    | .ok ss =>
      let r := compileOps b (run ss fs) ops
      (ss ++ r.1, r.2)

/-! ## PulseStorage level: collecting the transaction -/

/-- a serializable with its sub-serializables in the order the JSON encoder meets them.
`oid`: identity of the Python object (a shared sub-template occurs several times with the same `oid`);
`tok`: token of the document a named node serializes to; `ser = false`: its serialization data holds an
object the encoder cannot serialize; `reused`: the object is the one the storage already caches under this
identifier -/
inductive Node where
  | mk (id : Option Id) (oid : Nat) (tok : Nat) (ser : Bool) (reused : Bool) (children : List Node)
  deriving Repr

/-- `_transaction_storage`: identifier, object identity, serialization — in insertion order -/
abbrev TxnStore := List (Id × Nat × Data)

def TxnStore.oid? : TxnStore → Id → Option Nat
  | [], _ => none
  | (j, o, _) :: r, i => if j = i then some o else TxnStore.oid? r i

def TxnStore.writes (t : TxnStore) : List (Id × Data) := t.map (fun e => (e.1, e.2.2))

mutual
/-- the sub-serializables of one node, in the order the encoder meets them: references of the produced
document and the transaction storage afterwards -/
def encodeChildren (present : Id → Bool) : List Node → TxnStore → Except Err (List Id × TxnStore)
  | [], t => .ok ([], t)
  | c :: cs, t =>
    match encodeChild present c t with
    | .error e => .error e
    | .ok (r1, t1) =>
      match encodeChildren present cs t1 with
      | .error e => .error e
      | .ok (r2, t2) => .ok (r1 ++ r2, t2)
/-- `JSONSerializableEncoder.default(o)` -/
def encodeChild (present : Id → Bool) : Node → TxnStore → Except Err (List Id × TxnStore)
  | .mk (some i) oid tok ser reused children, t =>
    if present i then
      (if reused then .ok ([i], t) else .error .clash)
    else
      -- `self.storage[i] = o` → `__setitem__` → nested `overwrite(i, o)`
      match t.oid? i with
      | some o => if o = oid then .ok ([i], t) else .error .clash   -- already collected / taken by another object
      | none =>
        if !ser then .error .typeError else
        match encodeChildren present children t with
        | .error e => .error e
        | .ok (refs, t') =>
          if (t'.oid? i).isSome then .error .clash   -- a sub-serializable of `o` took `o`'s identifier
          else .ok ([i], t' ++ [(i, oid, .doc tok refs)])
  | .mk none _ _ ser _ children, t =>
    -- anonymous: embedded into the parent's document
    if !ser then .error .typeError else encodeChildren present children t
end

def Node.tok : Node → Nat
  | .mk _ _ tok _ _ _ => tok
def Node.id : Node → Option Id
  | .mk id _ _ _ _ _ => id
def Node.oid : Node → Nat
  | .mk _ oid _ _ _ _ => oid
def Node.ser : Node → Bool
  | .mk _ _ _ ser _ _ => ser
def Node.reused : Node → Bool
  | .mk _ _ _ _ r _ => r
def Node.children : Node → List Node
  | .mk _ _ _ _ _ c => c

/-- top-level `PulseStorage.overwrite(i, node)`: the transaction storage in insertion order -/
def collect (present : Id → Bool) (i : Id) (n : Node) : Except Err (List (Id × Data)) :=
  if !n.ser then .error .typeError else
  match encodeChildren present n.children [] with
  | .error e => .error e
  | .ok (refs, t) =>
    if (t.oid? i).isSome then .error .clash   -- a sub-serializable took the identifier of the stored object
    else .ok (t.writes ++ [(i, .doc n.tok refs)])

inductive Txn where
  | store (ws : List (Id × Data))   -- an already collected transaction: `put(id, doc, overwrite=True)` each, then publish
  | overwrite (i : Id) (n : Node)   -- `PulseStorage.overwrite(i, n)`
  | setitem (i : Id) (n : Node)     -- `PulseStorage.__setitem__(i, n)`
  | del (i : Id)                    -- `PulseStorage.__delitem__(i)`
  | raw (ops : List Op)             -- direct calls on the backend object
  deriving Repr

def presentB (b : Backend) (fs : FS) (i : Id) : Bool :=
  (fs.cache.get i).isSome || existsB b fs i

/-- what a transaction amounts to once the PulseStorage front end (identifier checks, collection) is through -/
inductive Plan where
  | puts (ws : List (Id × Data))   -- `put(id, doc, overwrite=True)` each in this order, then publish
  | delete (i : Id)                -- `del backend[i]`, then drop the cache entry
  | calls (ops : List Op)          -- backend calls only
  deriving Repr

/-- the front end: raises (`.error`) before any backend call, or yields the plan -/
def plan (b : Backend) (fs : FS) : Txn → Except Err Plan
  | .store ws => .ok (.puts ws)
  | .overwrite i n => (collect (presentB b fs) i n).map .puts
  | .setitem i n =>
    if n.id ≠ some i then .error .valueError else
    if (fs.cache.get i).isSome then
      (if n.reused then .ok (.calls []) else .error .clash)
    else if existsB b fs i then .error .clash else
    (collect (presentB b fs) i n).map .puts
  | .del i => .ok (.delete i)
  | .raw ops => .ok (.calls ops)

def Plan.ops : Plan → List Op
  | .puts ws => ws.map (fun p => Op.put p.1 p.2 true)
  | .delete i => [.delete i]
  | .calls ops => ops

/-- the cache update that follows the backend calls when none of them raised -/
def Plan.epilogue : Plan → List Step
  | .puts ws => [.publish ws]
  | .delete i => [.uncache i]
  | .calls _ => []

def Plan.steps (b : Backend) (fs : FS) (p : Plan) : List Step × Option Err :=
  let r := compileOps b fs p.ops
  match r.2 with
  | none => (r.1 ++ p.epilogue, none)
  | some e => (r.1, some e)

/-- the steps of one transaction and the exception it ends with when nothing is injected -/
def compileTxn (b : Backend) (fs : FS) (txn : Txn) : List Step × Option Err :=
  match plan b fs txn with
  | .error e => ([], some e)
  | .ok p => p.steps b fs

/-- the backend calls a transaction amounts to (none when the front end raises) -/
def txnOps (b : Backend) (fs : FS) (txn : Txn) : List Op :=
  match plan b fs txn with
  | .error _ => []
  | .ok p => p.ops

/-! ## the intended effect of a transaction on the view -/

def applyOp (s : Store) : Op → Store
  | .put i d _ => s.put i d
  | .delete i => s.erase i

def applyOps (s : Store) (ops : List Op) : Store := ops.foldl applyOp s

/-- well-formedness of one backend call against the current view: a written document is complete and its
references load without the written identifier (children first, no cycle); a deleted entry is referenced
by no other entry -/
def WFop (g : G) : Op → Prop
  | .put i d _ => ∃ tok refs, d = .doc tok refs ∧ ∀ r, r ∈ refs → Loads (gerase g i) r
  | .delete i => ∀ j d, j ≠ i → g j = some d → ∀ tok refs, d = .doc tok refs → i ∉ refs

def applyOpG (g : G) : Op → G
  | .put i d _ => gput g i d
  | .delete i => gerase g i

def applyOpsG (g : G) (ops : List Op) : G := ops.foldl applyOpG g

def WFops : G → List Op → Prop
  | _, [] => True
  | g, op :: ops => WFop g op ∧ WFops (applyOpG g op) ops

/-- executable twin of `WFop` / `WFops` over stores -/
def wfOpB (s : Store) : Op → Bool
  | .put i d _ =>
    match d with
    | .doc _ refs => refs.all (loadsB (s.erase i))
    | .garbage => false
  | .delete i =>
    s.ids.all (fun j => j == i ||
      match s.get j with
      | some (.doc _ refs) => !(refs.contains i)
      | _ => true)

def wfOpsB : Store → List Op → Bool
  | _, [] => true
  | s, op :: ops => wfOpB s op && wfOpsB (applyOp s op) ops

def nodupB : List Id → Bool
  | [] => true
  | i :: r => !(r.contains i) && nodupB r

mutual
/-- every sub-serializable taken from the storage (`reused`) satisfies `P` (used with
`P i := i loads without the identifier being stored`: the new content must not refer back to itself) -/
def Node.reusedOK (P : Id → Prop) : Node → Prop
  | .mk id _ _ _ reused children => (reused = true → ∀ i, id = some i → P i) ∧ reusedOKs P children
def reusedOKs (P : Id → Prop) : List Node → Prop
  | [] => True
  | c :: cs => c.reusedOK P ∧ reusedOKs P cs
end

/-- the state a failure leaves behind is acceptable: a new backend object can list it, everything listed
loads, every identifier holds its old or its new content -/
def LoadableFS (b : Backend) (fs : FS) (pre fin : Store) : Prop :=
  ∃ s, view b fs = some s ∧ Loadable s.get pre.get fin.get

def loadableFSB (b : Backend) (fs : FS) (pre fin : Store) : Bool :=
  match view b fs with
  | some s => loadableB s pre fin
  | none => false

/-- a transaction is well formed against the stored content `pre`: every backend call is (`WFop`) and no
identifier is touched twice -/
def WFtxn (b : Backend) (fs : FS) (txn : Txn) (pre : Store) : Prop :=
  WFops pre.get (txnOps b fs txn) ∧ ((txnOps b fs txn).map Op.id).Nodup

def wfTxnB (b : Backend) (fs : FS) (txn : Txn) (pre : Store) : Bool :=
  wfOpsB pre (txnOps b fs txn) && nodupB ((txnOps b fs txn).map Op.id)

/-- the content the transaction is meant to produce -/
def finalStore (b : Backend) (fs : FS) (txn : Txn) (pre : Store) : Store := applyOps pre (txnOps b fs txn)

/-! ## histories: several transactions on one PulseStorage object, failures in between -/

/-- the state one transaction leaves when a failure hits at position `k` (`k ≥` number of steps: none) -/
def runTxn (b : Backend) (fs : FS) (txn : Txn) (k : Nat) : FS :=
  run ((compileTxn b fs txn).1.take k) fs

/-- a history: each transaction is compiled against the state (backend content *and* cache) its predecessor
left — there is no other state a PulseStorage carries from one operation to the next -/
def runHistory (b : Backend) : FS → List (Txn × Nat) → FS
  | fs, [] => fs
  | fs, (txn, k) :: h => runHistory b (runTxn b fs txn k) h

/-- every transaction of the history is well formed against the content it meets -/
def WFhistory (b : Backend) : FS → List (Txn × Nat) → Prop
  | _, [] => True
  | fs, (txn, k) :: h => (∀ pre, view b fs = some pre → WFtxn b fs txn pre) ∧ WFhistory b (runTxn b fs txn k) h

/-- the cache of the PulseStorage only holds identifiers the backend stores -/
def CacheOK (b : Backend) (fs : FS) : Prop :=
  ∀ pre, view b fs = some pre → ∀ i, fs.cache.get i ≠ none → pre.get i ≠ none

/-- a history of stores / overwrites of template trees whose sub-templates taken from the storage load
without the identifier being stored — hypotheses on the trees only -/
def TreeHistory (b : Backend) : FS → List (Txn × Nat) → Prop
  | _, [] => True
  | fs, (txn, k) :: h =>
    (∃ top n, (txn = .overwrite top n ∨ txn = .setitem top n) ∧
      ∀ pre, view b fs = some pre → n.reusedOK (fun i => Loads (gerase pre.get top) i)) ∧
    TreeHistory b (runTxn b fs txn k) h

/-! ## line protocol -/

def dataOf? : Sexp → Option Data
  | .atom "g" => some .garbage
  | .list [.atom "d", t, .list refs] => do
    let t ← nat? t
    let rs ← refs.mapM nat?
    some (.doc t rs)
  | _ => none

def ofData : Data → Sexp
  | .garbage => .atom "g"
  | .doc t refs => .list [.atom "d", ofNat t, .list (refs.map ofNat)]

def storeOf? : Sexp → Option Store
  | .list xs => xs.mapM (fun x => match x with
    | .list [i, d] => do some ((← nat? i), (← dataOf? d))
    | _ => none)
  | _ => none

def ofStore (s : Store) : Sexp := .list (s.norm.map (fun p => .list [ofNat p.1, ofData p.2]))

def ofView : Option Store → Sexp
  | none => .atom "missing"
  | some s => ofStore s

def viewOf? : Sexp → Option (Option Store)
  | .atom "missing" => some none
  | s => (storeOf? s).map some

def backendOf? : Sexp → Option Backend
  | .atom "dir" => some .dir
  | .atom "zip" => some .zip
  | .atom "dict" => some .dict
  | .atom "dir-pinned" => some .dirPinned
  | .atom "zip-pinned" => some .zipPinned
  | _ => none

partial def nodeOf? : Sexp → Option Node
  | .list [.atom "n", i, oid, t, ser, reused, .list ch] => do
    let id ← (match i with | .atom "-" => some none | x => (nat? x).map some)
    let oid ← nat? oid
    let t ← nat? t
    let ser ← bool? ser
    let reused ← bool? reused
    let ch ← ch.mapM nodeOf?
    some (.mk id oid t ser reused ch)
  | _ => none

def opOf? : Sexp → Option Op
  | .list [.atom "put", i, d, ow] => do some (.put (← nat? i) (← dataOf? d) (← bool? ow))
  | .list [.atom "delete", i] => do some (.delete (← nat? i))
  | _ => none

def txnOf? : Sexp → Option Txn
  | .list [.atom "store", ws] => (storeOf? ws).map .store
  | .list [.atom "overwrite", i, n] => do some (.overwrite (← nat? i) (← nodeOf? n))
  | .list [.atom "setitem", i, n] => do some (.setitem (← nat? i) (← nodeOf? n))
  | .list [.atom "del", i] => do some (.del (← nat? i))
  | .list [.atom "raw", .list ops] => (ops.mapM opOf?).map .raw
  | _ => none

def Step.kind : Step → String
  | .truncate _ => "open" | .write _ _ => "write" | .remove _ => "remove"
  | .tmpCreate => "open" | .tmpWrite _ => "write" | .tmpRename _ => "rename"
  | .zTmpCreate => "mkstemp" | .zCopy _ => "writestr" | .zTmpAppend _ _ => "writestr"
  | .zRemove => "remove" | .zRename => "rename" | .zAppend _ _ => "writestr"
  | .dictPut _ _ => "dictput" | .dictDel _ => "dictdel"
  | .publish _ => "publish" | .uncache _ => "uncache"

def ofErr : Option Err → Sexp
  | none => .atom "none"
  | some .fileExists => .atom "file_exists"
  | some .keyError => .atom "key_error"
  | some .typeError => .atom "type_error"
  | some .clash => .atom "clash"
  | some .valueError => .atom "value_error"

/-- which clause of `Loadable` a view violates -/
def judge (v : Option Store) (pre fin : Store) : Sexp :=
  match v with
  | none => .list [.atom "violates", .atom "backend-unreadable"]
  | some s =>
    match s.ids.filter (fun i => !(loadsB s i)) with
    | i :: _ => .list [.atom "violates", .atom "does-not-load", ofNat i]
    | [] =>
      match (s.ids ++ pre.ids ++ fin.ids).filter (fun i => !(s.get i == pre.get i || s.get i == fin.get i)) with
      | i :: _ => .list [.atom "violates", .atom "neither-old-nor-new", ofNat i]
      | [] => .atom "ok"

def mkFS (b : Backend) (s : Store) (cache : Store) : FS :=
  match b with
  | .dir | .dirPinned => { entries := s, cache := cache }
  | .zip | .zipPinned => { archive := some s, cache := cache }
  | .dict => { dict := s, cache := cache }

def prefixStates : List Step → FS → List FS
  | [], fs => [fs]
  | s :: ss, fs => fs :: prefixStates ss (step fs s)

/-- length of the shortest prefix of `steps` after which the view of `b` has changed `c` times -/
def prefixForChanges (b : Backend) : FS → List Step → Nat → Nat
  | _, _, 0 => 0
  | _, [], _ => 0
  | fs, s :: ss, c + 1 =>
    let fs' := step fs s
    let changed := match view b fs', view b fs with
      | some x, some y => !((x.ids ++ y.ids).all (fun i => x.get i == y.get i))
      | none, none => false
      | _, _ => true
    1 + prefixForChanges b fs' ss (if changed then c else c + 1)

def handle : List Sexp → Sexp
  -- (c11 crash <backend> <pre-store> <cache-store> <txn>): every prefix state with its verdict
  | [.atom "crash", b, pre, cache, txn] =>
    match backendOf? b, storeOf? pre, storeOf? cache, txnOf? txn with
    | some b, some pre, some cache, some txn =>
      let fs := mkFS b pre cache
      let r := compileTxn b fs txn
      let fin := finalStore b fs txn pre
      let wf := wfTxnB b fs txn pre
      .list [.atom "ok", ofErr r.2, ofBool wf, .list (r.1.map (fun s => .atom s.kind)), ofStore fin,
        .list ((prefixStates r.1 fs).map (fun st =>
          .list [ofView (view b st), judge (view b st) pre fin, .list (st.cache.ids.map ofNat)]))]
    | _, _, _, _ => Sexp.err "bad-args"
  -- (c11 history <backend> <pre-store> <cache-store> ((<txn> <k>) …)): the state after every transaction;
  -- <k> is a number of steps or `(changes c)`: the shortest prefix after which the view changed c times
  | [.atom "history", b, pre, cache, .list steps] =>
    match backendOf? b, storeOf? pre, storeOf? cache,
        steps.mapM (fun s => match s with
          | .list [t, .list [.atom "changes", c]] => do some ((← txnOf? t), (Sum.inr (← nat? c) : Sum Nat Nat))
          | .list [t, k] => do some ((← txnOf? t), (Sum.inl (← nat? k) : Sum Nat Nat))
          | _ => none) with
    | some b, some pre, some cache, some steps =>
      let rec go (fs : FS) : List (Txn × Sum Nat Nat) → List Sexp
        | [] => []
        | (txn, kk) :: rest =>
          let r := compileTxn b fs txn
          let cur := (view b fs).getD []
          let k := match kk with
            | .inl k => k
            | .inr c => prefixForChanges b fs r.1 c
          let fs' := runTxn b fs txn k
          let fin := finalStore b fs txn cur
          .list [ofErr r.2, ofBool (wfTxnB b fs txn cur), ofNat r.1.length, ofView (view b fs'),
                 judge (view b fs') cur fin, .list (fs'.cache.ids.map ofNat), ofStore fin] :: go fs' rest
      .list (.atom "ok" :: go (mkFS b pre cache) steps)
    | _, _, _, _ => Sexp.err "bad-args"
  -- (c11 judge <view|missing> <pre-store> <fin-store>)
  | [.atom "judge", v, pre, fin] =>
    match viewOf? v, storeOf? pre, storeOf? fin with
    | some v, some pre, some fin => judge v pre fin
    | _, _, _ => Sexp.err "bad-args"
  -- (c11 loads <store>): per listed identifier whether it loads
  | [.atom "loads", s] =>
    match storeOf? s with
    | some s => .list (s.ids.map (fun i => .list [ofNat i, ofBool (loadsB s i)]))
    | none => Sexp.err "bad-args"
  | _ => Sexp.err "c11-unknown-request"

end QP.C11
