import QP.Base.Sexp
