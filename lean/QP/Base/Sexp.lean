/-
S-expression line protocol shared by the Lean driver and the Python harness.
Atoms are bare tokens (no whitespace, no parentheses); integers are atoms that parse as `Int`;
strings with unusual characters never travel (names are sanitised by the harness).
-/
namespace QP

inductive Sexp where
  | atom (s : String)
  | list (xs : List Sexp)
  deriving Repr, Inhabited, BEq

namespace Sexp

partial def toStr : Sexp → String
  | atom s => s
  | list xs => "(" ++ " ".intercalate (xs.map toStr) ++ ")"

instance : ToString Sexp := ⟨toStr⟩

/-- tokenizer -/
def tokenize (s : String) : List String := Id.run do
  let mut toks : Array String := #[]
  let mut cur : String := ""
  for c in s.toList do
    if c == '(' || c == ')' then
      if cur != "" then toks := toks.push cur; cur := ""
      toks := toks.push (String.singleton c)
    else if c == ' ' || c == '\t' || c == '\n' || c == '\r' then
      if cur != "" then toks := toks.push cur; cur := ""
    else
      cur := cur.push c
  if cur != "" then toks := toks.push cur
  return toks.toList

/-- parse a token list with an explicit stack -/
def parseToks (toks : List String) : Option Sexp := Id.run do
  let mut stack : List (List Sexp) := [[]]
  for t in toks do
    if t == "(" then
      stack := [] :: stack
    else if t == ")" then
      match stack with
      | top :: next :: rest => stack := (list top.reverse :: next) :: rest
      | _ => return none
    else
      match stack with
      | top :: rest => stack := (atom t :: top) :: rest
      | [] => return none
  match stack with
  | [[x]] => return some x
  | _ => return none

def parse (s : String) : Option Sexp := parseToks (tokenize s)

def int? : Sexp → Option Int
  | atom s => s.toInt?
  | _ => none

def nat? : Sexp → Option Nat
  | atom s => s.toNat?
  | _ => none

def ofInt (i : Int) : Sexp := atom (toString i)
def ofNat (n : Nat) : Sexp := atom (toString n)
def ofBool (b : Bool) : Sexp := atom (if b then "true" else "false")

def bool? : Sexp → Option Bool
  | atom "true" => some true
  | atom "false" => some false
  | _ => none

/-- rationals travel as `(q num den)` -/
def ofRat (r : Rat) : Sexp := list [atom "q", ofInt r.num, ofNat r.den]

def rat? : Sexp → Option Rat
  | list [atom "q", n, d] => do
      let n ← int? n; let d ← int? d
      if d == 0 then none else some (mkRat n d.natAbs * (if d < 0 then -1 else 1))
  | atom s => (s.toInt?).map (fun (i : Int) => (i : Rat))
  | _ => none

def listOf? {α} (f : Sexp → Option α) : Sexp → Option (List α)
  | list xs => xs.mapM f
  | _ => none

def ofList {α} (f : α → Sexp) (xs : List α) : Sexp := list (xs.map f)

def err (msg : String) : Sexp := list [atom "err", atom msg]

end Sexp
end QP
