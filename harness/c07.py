"""C07 — symbolic integral, initial and final values agree with the instantiated pulse.

For every case (template tree from the shared generator `ptgen` or from the range families below, parameters):
* the REAL symbolic `pt.integral[ch]`, `pt.initial_values[ch]`, `pt.final_values[ch]` are evaluated at the
  parameters (`ExpressionScalar.evaluate_in_scope`, exact on the dyadic stream),
* (a) correspondence: compared with the Lean model of the closed forms `QP.C07.integralOf / endOf`,
* (b) judge: compared with Lean's integral / first / last value of the segment lists of `QP.PT.denote`
  (what the template denotes) and of the piecewise linear function recovered from the REAL program by
  sampling every played piece (`plIntegral / plEnd` applied to both),
* `pt.pad_to(longer)` is instantiated and every piece played after the original end must hold the final value.

Documented classes (Lean: `QP.C07.pathTags`): PF-09 (`ForLoopPT.final_values` index), PF-C07-2 (a table that
starts with a `jump` segment), PF-C07-3 (the part the closed form reads is empty at the parameters) are open
findings; `table-end` (a table whose last segment is `hold`: the template *specifies* the last entry's value)
is not a defect and is checked against the model only.
"""
from __future__ import annotations

import copy
import fractions
import math
import multiprocessing
import os
import random
from typing import Any, Dict, List, Optional, Tuple

import core
import ptcheck
import ptgen
from core import sx

F = fractions.Fraction
PID = 'C07'
QUANTS = ('integral', 'initial', 'final')
ATTR = {'integral': 'integral', 'initial': 'initial_values', 'final': 'final_values'}
SEG_CAP = 1500


# ------------------------------------------------------------------------------------------------
# the real code: quantities, program, sampled pieces
# ------------------------------------------------------------------------------------------------

def eval_quantity(expr, params):
    """numeric value of one symbolic result at the parameters -> ('ok', Fraction) | ('error', cls)"""
    from qupulse.expressions import ExpressionScalar
    import numpy
    try:
        if not hasattr(expr, 'evaluate_in_scope'):
            expr = ExpressionScalar(expr)
        v = expr.evaluate_in_scope(dict(params))
        if isinstance(v, numpy.ndarray):
            if v.shape != ():
                return ('error', 'non-scalar')
            v = v[()]
        if isinstance(v, (float, numpy.floating)) and not math.isfinite(float(v)):
            return ('error', 'not-finite')
        return ('ok', ptgen.exact_frac(v))
    except Exception as exc:  # noqa
        return ('error', core.classify_exception(exc))


def symbolic_quantities(pt) -> Dict[str, Any]:
    """the three symbolic results: {quantity: {ch: expression} | 'not-provided' | 'error:cls'}"""
    from qupulse.expressions import ExpressionScalar
    out: Dict[str, Any] = {}
    for q in QUANTS:
        try:
            d = getattr(pt, ATTR[q])
        except NotImplementedError:
            out[q] = 'not-provided'
            continue
        except Exception as exc:  # noqa
            out[q] = 'error:' + core.classify_exception(exc)
            continue
        out[q] = {str(ch): (e if hasattr(e, 'evaluate_in_scope') else _wrap(e)) for ch, e in d.items()}
    return out


def _wrap(e):
    from qupulse.expressions import ExpressionScalar
    try:
        return ExpressionScalar(e)
    except Exception:  # noqa
        return e


def quantities(sym, params) -> Dict[str, Any]:
    """{'integral': {ch: ('ok', q)|('error', cls)} | 'not-provided' | 'error:cls', ...}"""
    return {q: (d if isinstance(d, str) else {ch: eval_quantity(e, params) for ch, e in d.items()})
            for q, d in sym.items()}


# per process: templates of the range families are instantiated for many parameter assignments
_CACHE: Dict[str, dict] = {}


def cached_template(case: dict) -> dict:
    import json
    if not case.get('reuse'):
        pt = ptgen.build(case['spec'])
        return {'pt': pt, 'sym': symbolic_quantities(pt)}
    key = json.dumps(ptgen.strip(case['spec']), sort_keys=True)
    ent = _CACHE.get(key)
    if ent is None:
        pt = ptgen.build(case['spec'])
        ent = {'pt': pt, 'sym': symbolic_quantities(pt)}
        if len(_CACHE) > 200:
            _CACHE.clear()
        _CACHE[key] = ent
    return ent


def leaf_segments(wf, ch, cache) -> Optional[List[Tuple[F, F, F]]]:
    """the piecewise linear function one played waveform puts on channel `ch`, recovered by sampling two
    interior points of every piece between consecutive breakpoints; None if a piece is not linear"""
    import numpy as np
    key = (id(wf), ch)
    if key in cache:
        return cache[key]
    breaks: set = set()
    ptgen._wf_breaks(wf, breaks, F(0), 10 ** 6)
    d = ptgen.num_frac(wf.duration)
    pts = sorted({t for t in breaks if 0 < t < d} | {F(0), d})
    times = []
    for a, b in zip(pts, pts[1:]):
        L = b - a
        times += [a + L / 4, a + L / 2, a + 3 * L / 4]
    arr = wf.get_sampled(ch, np.array([float(t) for t in times], dtype=float))
    segs = []
    for k, (a, b) in enumerate(zip(pts, pts[1:])):
        s1, sm, s2 = (arr[3 * k + j] for j in range(3))
        if any(math.isnan(x) for x in (s1, sm, s2)):
            cache[key] = None
            return None
        s1, sm, s2 = F(float(s1)), F(float(sm)), F(float(s2))
        if s1 + s2 != 2 * sm:
            cache[key] = None
            return None
        half = (s2 - s1) / 2
        segs.append((b - a, s1 - half, s2 + half))
    cache[key] = segs
    return segs


def program_segments(prog, chans) -> Optional[Dict[str, List[Tuple[F, F, F]]]]:
    """per channel: the pieces the real program plays, in order (repetitions unrolled); None if too long /
    not piecewise linear"""
    cache: dict = {}

    def count(l) -> int:
        if l.is_leaf():
            return l.repetition_count
        return l.repetition_count * sum(count(c) for c in l)

    if count(prog) > SEG_CAP:
        return None
    out = {}
    for ch in chans:
        def walk(l) -> Optional[list]:
            if l.is_leaf():
                if l.waveform is None:
                    return []
                s = leaf_segments(l.waveform, ch, cache)
                return None if s is None else s * l.repetition_count
            body = []
            for c in l:
                s = walk(c)
                if s is None:
                    return None
                body += s
            return body * l.repetition_count
        segs = walk(prog)
        if segs is None or len(segs) > 4 * SEG_CAP:
            return None
        out[ch] = segs
    return out


def observe(case: dict) -> dict:
    """run the real code on one case"""
    ent = cached_template(case)
    pt = ent['pt']
    params = dict(case['params'])
    impl: Dict[str, Any] = {'q': quantities(ent['sym'], params)}
    # `top_cm`: channels renamed / dropped by `create_program(channel_mapping=..)`.  The Lean side sees the same thing as a
    # MappingPT around the tree (used for serialisation only); the symbolic quantities are the bare template's, under
    # the new channel names
    top_cm = case.get('top_cm') or None
    kw: Dict[str, Any] = {}
    ser_pt = pt
    if top_cm:
        import qupulse.pulses as qp
        kw['channel_mapping'] = dict(top_cm)
        ser_pt = qp.MappingPT(pt, channel_mapping=dict(top_cm))
        impl['q'] = {q: (d if isinstance(d, str) else {top_cm.get(ch, ch): v for ch, v in d.items()
                                                       if top_cm.get(ch, ch) is not None})
                     for q, d in impl['q'].items()}
    try:
        td = pt.duration.evaluate_in_scope(dict(params))
        impl['tdur'] = ('ok', ptgen.num_frac(td))
    except Exception as exc:  # noqa
        impl['tdur'] = ('error', core.classify_exception(exc))
    segs = None
    try:
        prog = pt.create_program(parameters=params, **kw)
        if prog is None:
            impl['status'] = 'empty'
        else:
            impl['status'] = 'ok'
            impl['dur'] = ptgen.num_frac(prog.duration)
            sets = ptgen.leaf_channel_sets(prog)
            if all(s == sets[0] for s in sets):
                impl['chans'] = sorted(sets[0])
                try:
                    segs = program_segments(prog, impl['chans'])
                except Exception as exc:  # noqa
                    impl['sample_error'] = core.classify_exception(exc)
            else:
                impl['chans'] = 'nonuniform'
    except Exception as exc:  # noqa
        impl['status'] = 'error'
        impl['error'] = core.classify_exception(exc)
    impl['segs'] = segs
    # pad_to
    pad = None
    extra = case.get('pad')
    if extra is not None and impl['tdur'][0] == 'ok' and impl['status'] in ('ok', 'empty') \
            and isinstance(impl['q']['final'], dict):
        new_dur = impl['tdur'][1] + F(extra)
        pad = {'new_dur': new_dur}
        try:
            if case.get('reuse'):
                # symbolic target duration: the padded template is shared by all parameter assignments
                padded = ent.get('padded')
                if padded is None:
                    padded = ent['padded'] = pt.pad_to(lambda dur, extra=float(extra): dur + extra)
            else:
                padded = pt.pad_to(float(new_dur))
            pprog = padded.create_program(parameters=params, **kw)
            if pprog is None:
                pad['status'] = 'empty'
            else:
                pad['status'] = 'ok'
                pad['dur'] = ptgen.num_frac(pprog.duration)
                sets = ptgen.leaf_channel_sets(pprog)
                chans = sorted(sets[0]) if all(s == sets[0] for s in sets) else None
                pad['chans'] = chans
                pad['segs'] = program_segments(pprog, chans) if chans else None
        except Exception as exc:  # noqa
            pad['status'] = 'error'
            pad['error'] = core.classify_exception(exc)
    impl['pad'] = pad
    return {'pt': ser_pt, 'impl': impl}


def request_line(pt, case: dict, impl: dict) -> str:
    fields: List[Any] = ['c07', 'run', ['pt', ptgen.to_sx(pt)],
                         ['params'] + [[k, ptgen.num_frac(v)] for k, v in case['params'].items()]]
    if impl.get('segs'):
        fields.append(['sampled'] + [[ch] + [[l, a, b] for (l, a, b) in segs] for ch, segs in impl['segs'].items()])
    if impl.get('pad') is not None:
        fields.append(['pad', impl['pad']['new_dur']])
    return sx(fields)


# ------------------------------------------------------------------------------------------------
# parsing the model's answer
# ------------------------------------------------------------------------------------------------

def _res(x):
    if x[0] == 'ok':
        return ('ok', core.as_frac(x[1]))
    return ('error', x[1])


def _opt(x):
    return None if x == 'none' else core.as_frac(x)


def _pl_row(row) -> dict:
    r = {'integral': core.as_frac(ptgen._field(row[1:], 'integral')[0]),
         'first': _opt(ptgen._field(row[1:], 'first')[0]),
         'last': _opt(ptgen._field(row[1:], 'last')[0])}
    for k in ('tags-first', 'tags-last'):
        t = ptgen._field(row[1:], k)
        if t is not None:
            r[k] = ['error'] if (t and isinstance(t[0], list)) else list(t)
    return r


def parse_reply(ans) -> dict:
    if not ans or ans[0] == 'err' or ans[0] == 'ctx':
        raise core.MachineryError('driver rejected a C07 request: %r' % (ans,))
    out: Dict[str, Any] = {}
    out['chans'] = ptgen._field(ans, 'chans')
    out['regular'] = ptgen._field(ans, 'regular')[0] == 'true'
    # the hypotheses of the `_partial` theorems (supported, regular, keeps) hold for this case
    out['covered'] = ptgen._field(ans, 'covered')[0] == 'true'
    out['tdur'] = _res(ptgen._field(ans, 'tdur')[0])
    model = {}
    for row in ptgen._field(ans, 'model'):
        model[row[0]] = {'integral': _res(ptgen._field(row[1:], 'integral')[0]),
                         'initial': _res(ptgen._field(row[1:], 'initial')[0]),
                         'final': _res(ptgen._field(row[1:], 'final')[0]),
                         'provides': [x == 'true' for x in ptgen._field(row[1:], 'provides')]}
    out['model'] = model
    spec = ptgen._field(ans, 'spec')
    if spec[0] == 'empty':
        out['spec'] = {'status': 'empty'}
    elif isinstance(spec[0], list):
        out['spec'] = {'status': 'error', 'error': spec[0][1]}
    else:
        out['spec'] = {'status': 'ok', 'dur': core.as_frac(ptgen._field(spec, 'dur')[0]),
                       'chans': {row[0]: _pl_row(row) for row in spec[2:]}}
    out['sampled'] = {row[0]: _pl_row(row) for row in (ptgen._field(ans, 'sampled') or [])}
    pad = ptgen._field(ans, 'pad')
    if pad is not None:
        if pad[0] == 'empty':
            out['pad'] = {'status': 'empty'}
        elif isinstance(pad[0], list):
            out['pad'] = {'status': 'error', 'error': pad[0][1]}
        else:
            out['pad'] = {'status': 'ok', 'dur': core.as_frac(ptgen._field(pad, 'dur')[0]),
                          'chans': {row[0]: _pl_row(row) for row in pad[2:]}}
    return out


# ------------------------------------------------------------------------------------------------
# case families
# ------------------------------------------------------------------------------------------------

def range_bodies() -> List[Tuple[str, dict]]:
    """bodies whose values / durations / emptiness depend on the loop index `i`"""
    return [
        ('const', {'k': 'const', 'dur': '1', 'amps': [['A', 'v + i/4']], 'meas': []}),
        ('table', {'k': 'table', 'entries': [['A', [['0', 'i/2', 'hold'], ['1', 'v + i', 'linear'], ['2', 'v - i/4', 'linear']]]],
                   'meas': [], 'cons': []}),
        ('func', {'k': 'func', 'ch': 'A', 'dur': '2', 'expr': 'v + i*t/2', 'meas': [], 'cons': []}),
        ('dur', {'k': 'const', 'dur': '(i + 8)/4', 'amps': [['A', 'v'], ['B', 'i']], 'meas': []}),
        ('maybe-empty', {'k': 'rep', 'body': {'k': 'const', 'dur': '0.5', 'amps': [['A', 'v + i']], 'meas': []},
                         'count': 'Max(i, 0)', 'meas': [], 'cons': []}),
    ]


def range_case(body_name: str, body: dict, triple, wrap: str) -> dict:
    a, b, c = triple
    loop = {'k': 'for', 'body': copy.deepcopy(body), 'idx': 'i', 'range': ['a', 'b', 'c'], 'meas': [], 'cons': []}
    chans = ['A', 'B'] if body_name == 'dur' else ['A']
    if wrap == 'plain':
        spec = loop
    elif wrap == 'seq-tail':
        tail = {'k': 'const', 'dur': '0.5', 'amps': [[ch, '0.25'] for ch in chans], 'meas': []}
        spec = {'k': 'seq', 'subs': [loop, tail], 'meas': [], 'cons': []}
    elif wrap == 'seq-head':
        head = {'k': 'const', 'dur': '0.5', 'amps': [[ch, '0.25'] for ch in chans], 'meas': []}
        spec = {'k': 'seq', 'subs': [head, loop], 'meas': [], 'cons': []}
    elif wrap == 'map':
        spec = {'k': 'map', 'body': loop, 'pm': [['a', 'a0 + 1'], ['v', '2*w']], 'mm': None,
                'cm': [[ch, {'A': 'X', 'B': 'Y'}[ch]] for ch in chans]}
    elif wrap == 'rep':
        spec = {'k': 'rep', 'body': loop, 'count': '2', 'meas': [], 'cons': []}
    elif wrap == 'nested':
        # the range of the inner loop depends on the outer index
        inner = {'k': 'for', 'body': {'k': 'const', 'dur': '0.5', 'amps': [['A', 'v + i + j/4']], 'meas': []},
                 'idx': 'j', 'range': ['0', 'i', '1'], 'meas': [], 'cons': []}
        spec = {'k': 'for', 'body': inner, 'idx': 'i', 'range': ['a', 'b', 'c'], 'meas': [], 'cons': []}
    else:
        raise core.MachineryError(wrap)
    params: Dict[str, Any] = {'b': b, 'c': c, 'v': 0.5}
    if wrap == 'map':
        params = {'a0': a - 1, 'b': b, 'c': c, 'w': 0.25}
    else:
        params['a'] = a
    return {'spec': spec, 'params': params, 'pad': F(3, 4), 'reuse': True}


def range_descs(lo: int, hi: int, steps: List[int]) -> List[dict]:
    out = []
    bodies = range_bodies()
    for a in range(lo, hi + 1):
        for b in range(lo, hi + 1):
            for c in steps:
                for bi, (bn, body) in enumerate(bodies):
                    out.append({'family': 'range', 'label': 'range:' + bn, 'body': bi, 'triple': (a, b, c), 'wrap': 'plain'})
                k = (a * 7 + b * 3 + c) % 5
                wrap = ['seq-tail', 'seq-head', 'map', 'rep', 'nested'][k]
                bi = (a + b + c) % len(bodies)
                if wrap == 'nested':
                    bi = 0
                out.append({'family': 'range', 'label': 'range-wrapped:' + wrap, 'body': bi, 'triple': (a, b, c), 'wrap': wrap})
    # cases that share a template are neighbours (one worker chunk builds the symbolic results once)
    out.sort(key=lambda d: (d['wrap'], d['body']))
    return out


def func_t_descs(ctx) -> List[dict]:
    """time dependent FunctionPTs instantiated from a scope that has an entry literally called `t` (legal: `t` is the bound
    time variable inside the formula and an ordinary name elsewhere): as an extra parameter, as the duration of a
    neighbouring wait, as a loop index, as a mapped name, as a repetition count; no ArithmeticPT / ParallelChannelPT in the
    tree (outside the class of PF-14).  Integral / initial / final / pad_to against the REAL program."""
    out = []
    forms = ['a + b*t', 'a - t/2', 'b*t', 'a + b*(t - 1)']

    def func(expr, dur='2'):
        return {'k': 'func', 'ch': 'A', 'dur': dur, 'expr': expr, 'meas': [], 'cons': []}
    for fi, expr in enumerate(forms):
        f = func(expr)
        wait = {'k': 'const', 'dur': 't', 'amps': [['A', '0.125']], 'meas': []}
        lvl = {'k': 'const', 'dur': '1', 'amps': [['A', 't/4']], 'meas': []}
        shapes = {
            'extra': (f, {'t': 1.5}),
            'extra0': (f, {'t': 0}),
            'wait': ({'k': 'seq', 'subs': [wait, f], 'meas': [], 'cons': []}, {'t': 0.5}),
            'wait-after': ({'k': 'seq', 'subs': [f, wait], 'meas': [], 'cons': []}, {'t': 2}),
            'index': ({'k': 'for', 'body': {'k': 'seq', 'subs': [lvl, f], 'meas': [], 'cons': []}, 'idx': 't',
                       'range': ['1', 'n', '1'], 'meas': [], 'cons': []}, {'n': 3}),
            'mapped': ({'k': 'map', 'body': {'k': 'seq', 'subs': [f, lvl], 'meas': [], 'cons': []}, 'pm': [['t', '2*u']],
                        'mm': None, 'cm': None}, {'u': 0.75}),
            'count': ({'k': 'rep', 'body': f, 'count': 't', 'meas': [], 'cons': []}, {'t': 2}),
            'func-dur-param': (func(expr, 'd'), {'d': 1, 't': 3}),
        }
        for name, (spec, params) in shapes.items():
            params = dict(params)
            pt_names = {'a': 0.25, 'b': 0.5}
            for k in pt_names:
                if k in expr:
                    params[k] = pt_names[k]
            out.append({'family': 'given', 'label': 'func-t', 'seed': fi,
                        'case': {'spec': copy.deepcopy(spec), 'params': params, 'cm': {}, 'mm': None, 'single': [],
                                 'pad': '0.5' if name not in ('extra0',) else None}})
    return out


POINT_CHANS = ['X', 'Y', 'Z', 'W']


def point_drop_case(rng: random.Random) -> dict:
    """a multi channel PointPT with per-channel DIFFERENT (vector valued) entry voltages, instantiated with a channel
    dropped that is not the last of `channel_names` (further channels dropped / renamed at random): by a MappingPT
    (`mode` map) or by `create_program(channel_mapping=..)` (`mode` top); plain, in a sequence, repeated, iterated (the index
    in the voltages), inside an atomic multi channel template; the symbolic quantities of the remaining channels against
    the instantiated pulse, `pad_to` against the voltage the pulse ends on"""
    fs = ptgen.fstr
    n = rng.choice([2, 3, 3, 4])
    chans = rng.sample(POINT_CHANS, n)
    wrap = rng.choice(['plain', 'plain', 'plain', 'seq', 'rep', 'for', 'amulti'])
    mode = 'top' if (wrap != 'amulti' and rng.random() < 0.4) else 'map'
    literal_times = wrap == 'amulti' or rng.random() < 0.5
    n_e = rng.choice([2, 3, 3, 4])
    t = F(0) if rng.random() < 0.7 else rng.choice([F(1, 2), F(1)])
    entries = []
    for j in range(n_e):
        ts = fs(t) if (literal_times or j == 0) else ('d + %s' % fs(t - 1) if t != 1 else 'd')     # d = 1
        if rng.random() < 0.85 or j == n_e - 1:
            base, step = F(rng.randrange(-16, 17), 8), F(rng.choice([1, 2, 3, -1, -2, 5]), 8)
            vec = []
            for i in range(n):
                val = base + i * step                         # pairwise different
                form = rng.random()
                if form < 0.4:
                    e = fs(val)
                elif form < 0.8:
                    e = 'v + %s' % fs(val - F(1, 4))          # v = 1/4
                else:
                    e = '2*v + %s' % fs(val - F(1, 2))
                if wrap == 'for' and (i == 0 or rng.random() < 0.3):
                    e += ' + i/4'
                vec.append(e)
            v: Any = vec
        else:
            v = rng.choice(['v', '0.375', '2*v - 1'])
        interp = 'hold' if j == 0 else rng.choice(['hold', 'linear', 'linear', 'linear', 'jump'] if j == 1 else
                                                  ['hold', 'linear', 'linear'])
        entries.append([ts, v, interp])
        t += rng.choice([F(1, 2), F(1), F(2)])
    point = {'k': 'point', 'chans': list(chans), 'entries': entries, 'meas': [], 'cons': []}
    # the dropped set: one channel that is NOT the last, others at random, at least one channel stays
    drop = {chans[rng.randrange(n - 1)]}
    for c in chans:
        if c not in drop and len(drop) < n - 1 and rng.random() < 0.25:
            drop.add(c)
    new_names = ['P', 'Q', 'R', 'S']
    rng.shuffle(new_names)
    cm = {}
    for c in chans:
        if c in drop:
            cm[c] = None
        elif rng.random() < 0.3:
            cm[c] = new_names.pop()
    kept = [cm.get(c, c) for c in chans if cm.get(c, c) is not None]
    inner_kept = kept if mode == 'map' else [c for c in chans]
    x: dict = point
    if mode == 'map':
        x = {'k': 'map', 'body': point, 'pm': None, 'mm': None, 'cm': [[a, b] for a, b in cm.items()]}
    if wrap == 'seq':
        tail = {'k': 'const', 'dur': '0.5', 'amps': [[c, fs(F(rng.randrange(-8, 9), 8))] for c in inner_kept], 'meas': []}
        x = {'k': 'seq', 'subs': [x, tail] if rng.random() < 0.5 else [tail, x], 'meas': [], 'cons': []}
    elif wrap == 'rep':
        x = {'k': 'rep', 'body': x, 'count': 'n', 'meas': [], 'cons': []}
    elif wrap == 'for':
        x = {'k': 'for', 'body': x, 'idx': 'i', 'range': ['0', 'n', '1'], 'meas': [], 'cons': []}
    elif wrap == 'amulti':
        last_t = entries[-1][0]
        other = {'k': 'const', 'dur': last_t, 'amps': [['U', '0.625']], 'meas': []}
        x = {'k': 'amulti', 'subs': [x, other], 'meas': [], 'cons': []}
    case = {'spec': x, 'params': {'v': 0.25, 'd': 1, 'n': rng.choice([1, 2, 3])}, 'cm': {}, 'mm': None, 'single': [],
            'pad': rng.choice([F(1, 2), F(3, 4), F(2)]) if rng.random() < 0.7 else None}
    if mode == 'top':
        case['top_cm'] = cm
    return case


def make_case(desc: dict) -> Optional[dict]:
    fam = desc['family']
    if fam == 'point-drop':
        rng = random.Random(desc['seed'])
        for _ in range(6):
            case = point_drop_case(rng)
            try:
                pt = ptgen.build(copy.deepcopy(case['spec']))
            except Exception:  # noqa -- e.g. a zero length atomic multi channel part
                continue
            case['params'] = {k: v for k, v in case['params'].items() if k in pt.parameter_names}
            return case
        return None
    if fam == 'given':
        c = dict(desc['case'])
        if c.get('pad') is not None:
            c['pad'] = F(c['pad'])
        return c
    if fam == 'range':
        bn, body = range_bodies()[desc['body']]
        return range_case(bn, body, desc['triple'], desc['wrap'])
    rng = random.Random(desc['seed'])
    if fam == 'random':
        for _ in range(6):
            case = ptgen.random_case(rng, desc.get('depth', 4))
            # TimeReversalPT implements the integral only: keep a share of such trees
            if 'rev' in ptgen.spec_kinds(case['spec']) and rng.random() < 0.6:
                continue
            break
        case['cm'], case['mm'], case['single'] = {}, None, []
        case['pad'] = rng.choice([F(1, 2), F(3, 4), F(2), F(1, 4)]) if rng.random() < 0.6 else None
        if rng.random() < desc.get('t_param_p', 0.0):
            # a scope entry literally called `t` while FunctionPTs are instantiated (an ordinary parameter / loop index /
            # mapped name renamed to `t`, or an extra value): `t` is the bound time variable inside a FunctionPT's formula
            # and an ordinary name everywhere else.  Only trees outside the class of PF-14 (C03) qualify.
            case = dict(ptgen.scope_with_t(rng, case) or case, pad=case['pad'])
        return case
    if fam == 'exhaustive':
        case = ptgen.exhaustive_case(desc['spec'])
        if case is not None:
            case['pad'] = F(1, 2)
        return case
    if fam == 'malformed':
        for _ in range(12):
            base = ptgen.random_case(rng, desc.get('depth', 3))
            base['spec'] = ptgen.strip(base['spec'])
            base['cm'], base['mm'], base['single'] = {}, None, []
            c = ptgen.malform(rng, base)
            if c is not None and c.get('fault') not in ('noninjective', 'unknown_meas'):
                c['cm'], c['mm'] = {}, None
                c['pad'] = None
                return c
        return None
    raise core.MachineryError('unknown family %r' % fam)


def case_json(case: dict) -> dict:
    d = ptgen.case_json(case)
    d['pad'] = None if case.get('pad') is None else str(case['pad'])
    if case.get('top_cm'):
        d['top_cm'] = dict(case['top_cm'])
    return d


def work(desc: dict) -> Optional[dict]:
    import warnings
    warnings.filterwarnings('ignore')
    core.ensure_repo_on_path()
    try:
        case = make_case(desc)
    except core.MachineryError:
        raise
    if case is None:
        return None
    try:
        obs = observe(case)
    except core.MachineryError:
        raise
    pt = obs['pt']
    line = request_line(pt, case, obs['impl'])
    kinds = ptgen.spec_kinds(case['spec'])
    keep = ptgen.all_atoms_keep_channel(pt, {c: c for c in pt.defined_channels})
    complete = set(pt.parameter_names) <= set(case['params'])
    try:
        pf11 = sorted(ptcheck.pf11_channels(pt, {c: c for c in pt.defined_channels}))
    except Exception:  # noqa
        pf11 = sorted(pt.defined_channels)
    return {'case': case_json(case), 'impl': obs['impl'], 'line': line,
            'meta': {'kinds': kinds, 'depth': ptgen.spec_depth(case['spec']), 'keep': keep, 'complete': complete,
                     'pf11': pf11, 'sum_piecewise': sum_piecewise_class(pt)},
            'family': desc['family'], 'label': desc.get('label', desc['family'])}


def run_descs(ctx, descs: List[dict], workers: Optional[int] = None) -> List[dict]:
    if workers is None:
        workers = int(os.environ.get('VERIF_WORKERS', '0')) or (4 if ctx.quick else 14)
    workers = max(1, min(workers, len(descs) // 8 or 1))
    if workers > 1:
        mp = multiprocessing.get_context('fork')
        with mp.Pool(workers) as pool:
            recs = pool.map(work, descs, chunksize=max(1, len(descs) // (workers * 8)))
    else:
        recs = [work(d) for d in descs]
    recs = [r for r in recs if r is not None]
    answers = core.Lean.run([r['line'] for r in recs])
    for r, a in zip(recs, answers):
        r['reply'] = parse_reply(a)
    return recs


# ------------------------------------------------------------------------------------------------
# correspondence and judge
# ------------------------------------------------------------------------------------------------

def sum_piecewise_class(pt) -> bool:
    """class of the open finding PF-C07-4: a ForLoopPT L_in lies inside a ForLoopPT L_out, the symbolic integral of L_in's body is
    (on some channel) a Piecewise with a condition that mentions L_in's own index -- e.g. a FunctionPT `Max(v + i/4, w)*t` -- and
    that integral also mentions L_out's index.  L_out substitutes its index (`subs`) into `Sum(<Piecewise>, (i, ..))`; sympy then
    folds the Piecewise out of the Sum although its condition depends on the summation index, `i` becomes a free variable and the
    integral cannot be evaluated (ExpressionVariableMissingException)."""
    import sympy

    def loops_below(node, outer: list, out: list):
        name = type(node).__name__
        if name == 'ForLoopPulseTemplate':
            for o in outer:
                out.append((o, node))
            outer = outer + [node]
        for c in _tpl_children(node):
            loops_below(c, outer, out)
    pairs: list = []
    try:
        loops_below(pt, [], pairs)
        for l_out, l_in in pairs:
            i_in, i_out = sympy.Symbol(l_in.loop_index), sympy.Symbol(l_out.loop_index)
            for e in l_in.body.integral.values():
                ex = sympy.sympify(getattr(e, 'underlying_expression', e))
                if i_out not in ex.free_symbols:
                    continue
                for pw in ex.atoms(sympy.Piecewise):
                    if any(i_in in cond.free_symbols for _v, cond in pw.args if hasattr(cond, 'free_symbols')):
                        return True
    except Exception:  # noqa -- the class predicate must never break a run
        return False
    return False


def _tpl_children(pt) -> list:
    t = type(pt).__name__
    if t in ('SequencePulseTemplate', 'AtomicMultiChannelPulseTemplate'):
        return list(pt.subtemplates)
    if t in ('RepetitionPulseTemplate', 'ForLoopPulseTemplate'):
        return [pt.body]
    if t in ('MappingPulseTemplate', 'ParallelChannelPulseTemplate'):
        return [pt.template]
    if t == 'ArithmeticPulseTemplate':
        return [pt._pulse_template]
    if t == 'ArithmeticAtomicPulseTemplate':
        return [pt.lhs, pt.rhs]
    if t == 'TimeReversalPulseTemplate':
        return [pt._inner]
    return []


MISSING_VAR = 'other:ExpressionVariableMissingException'
FINDING_OF_TAG = {'pf09': 'PF-09', 'empty-part': 'PF-C07-3', 'table-start': 'PF-C07-2'}
WHAT = {
    'PF-C07-4': 'ForLoopPulseTemplate.integral of a loop nested in a loop: the outer index is substituted into Sum(<Piecewise with a '
                'condition on the inner index>, (i, ..)), sympy folds the Piecewise out of the Sum, the inner index becomes a free '
                'variable and the integral cannot be evaluated',
    'PF-09': 'ForLoopPulseTemplate.final_values evaluates the body at start + Max(floor((stop-start)/step) - 1, 0)*step, '
             'which is not the last index of the range when the step does not divide stop - start',
    'PF-C07-2': 'initial_values of a table / point template is the first entry although a first segment with jump '
                'interpolation plays the second entry from t = 0',
    'PF-C07-3': 'initial_values / final_values read a sub-template or iteration that is empty at these parameters '
                '(zero repetitions, empty range, zero duration) instead of the first / last part that is played',
}


def ill_formed(rec) -> bool:
    """a loop with step 0 that create_program never reaches (it lies inside an empty loop / repetition): the template is
    ill-formed (`range(a, b, 0)`), its closed forms contain `zoo`; nothing is judged"""
    return rec['case'].get('fault') == 'zerostep'


def diff_model(rec) -> List[str]:
    """(a) the real symbolic results against the Lean model of the closed forms"""
    impl, reply = rec['impl'], rec['reply']
    d: List[str] = []
    # not an accepted assignment (rejected, or a declared parameter is missing): only values that both sides produce count
    rejected = impl['status'] == 'error' or not rec['meta'].get('complete', True) or ill_formed(rec)
    for qi, q in enumerate(QUANTS):
        iq = impl['q'][q]
        if rejected and isinstance(iq, str) and iq.startswith('error:'):
            continue
        for ch in reply['chans']:
            m = reply['model'].get(ch, {}).get(q)
            if m is None:
                continue
            if iq == 'not-provided':
                prov = reply['model'][ch]['provides'][qi - 1] if q != 'integral' else True
                if prov or m[0] == 'ok':
                    d.append('%s: not provided by the implementation, model gives %s' % (q, m,))
                continue
            if isinstance(iq, str):
                if m[0] == 'ok':
                    d.append('%s: the implementation raises %s, model gives %s' % (q, iq, m[1]))
                continue
            iv = iq.get(ch)
            if iv is None:
                if m[0] == 'ok':
                    d.append('%s[%s]: no such key in the implementation, model gives %s' % (q, ch, m[1]))
                continue
            if iv[0] == 'ok' and m[0] == 'ok':
                if iv[1] != m[1]:
                    d.append('%s[%s]: implementation %s, model %s' % (q, ch, iv[1], m[1]))
            elif iv[0] != m[0]:
                if (m[0] == 'error' and m[1] == 'unsupported') or rejected:
                    continue            # outside the modelled fragment (counted by the caller) / not accepted
                if q == 'integral' and iv == ('error', MISSING_VAR) and rec['meta'].get('sum_piecewise'):
                    continue            # open finding PF-C07-4 (reported by the judge)
                if m[0] == 'error' and m[1] in ('parameter_missing', 'other:ExpressionVariableMissingException'):
                    # sympy simplified the missing parameter away (0*x, x - x): the expression needs fewer parameters
                    # than the template; the value itself is still judged against the instantiated pulse
                    continue
                d.append('%s[%s]: implementation %s, model %s' % (q, ch, iv, m))
        if isinstance(iq, dict):
            extra = sorted(set(iq) - set(reply['chans']))
            if extra:
                d.append('%s: keys %s are not defined channels of the model' % (q, extra))
    if impl['tdur'][0] == 'ok' and reply['tdur'][0] == 'ok' and impl['tdur'][1] != reply['tdur'][1]:
        d.append('duration expression: implementation %s, model %s' % (impl['tdur'][1], reply['tdur'][1]))
    pad, mpad = impl.get('pad'), reply.get('pad')
    if pad is not None and mpad is not None and pad.get('status') in ('ok', 'empty') and mpad['status'] in ('ok', 'empty'):
        if pad['status'] != mpad['status']:
            d.append('pad_to: implementation %s, model %s' % (pad['status'], mpad['status']))
        elif pad['status'] == 'ok' and pad['dur'] != mpad['dur']:
            d.append('pad_to duration: implementation %s, model %s' % (pad['dur'], mpad['dur']))
    return d


def expected_values(rec, ch) -> Dict[str, List[Tuple[str, F]]]:
    """what the instantiated pulse says about channel `ch`: values from `denote` and from the real program"""
    reply, impl = rec['reply'], rec['impl']
    out: Dict[str, List[Tuple[str, F]]] = {'integral': [], 'first': [], 'last': []}
    spec = reply['spec']
    if spec['status'] == 'ok' and ch in spec['chans']:
        for k in out:
            if spec['chans'][ch][k] is not None:
                out[k].append(('denote', spec['chans'][ch][k]))
    elif spec['status'] == 'empty':
        out['integral'].append(('denote', F(0)))
    if impl['status'] == 'ok' and ch in reply['sampled']:
        for k in out:
            if reply['sampled'][ch][k] is not None:
                out[k].append(('program', reply['sampled'][ch][k]))
    elif impl['status'] == 'empty':
        out['integral'].append(('program', F(0)))
    return out


def program_reference(rec, ch) -> Optional[dict]:
    """integral / first / last of what the REAL program plays on `ch`, if that has to be the only reference: the program
    was sampled, its integral on `ch` differs from the integral of what the template denotes (a real deviation, not a
    zero length piece the sampling cannot see) and the channel is outside the class of the open finding PF-11 (C01 /
    C05: a ParallelChannelPT below a transformation -- there the program is known to deviate from denote and either
    value is accepted)."""
    impl, reply = rec['impl'], rec['reply']
    spec = reply['spec']
    if impl['status'] != 'ok' or not impl.get('segs') or ch not in reply['sampled']:
        return None
    if spec['status'] != 'ok' or ch not in spec['chans']:
        return None
    if reply['sampled'][ch]['integral'] == spec['chans'][ch]['integral']:
        return None
    if ch in rec['meta'].get('pf11', []):
        return None
    return reply['sampled'][ch]


def judge(rec) -> Tuple[List[dict], List[dict]]:
    """(b) the real symbolic results against the instantiated pulse.  Returns (violations, known):
    each entry {'clause', 'channel', 'what', 'finding'?}"""
    impl, reply = rec['impl'], rec['reply']
    viol: List[dict] = []
    known: List[dict] = []
    if impl['status'] == 'error':
        return viol, known          # the parameter assignment is not accepted
    if not reply['regular']:
        return viol, known          # negative duration / count, non exact integers: outside the quantifier
    if ill_formed(rec):
        return viol, known
    if not rec['meta'].get('complete', True):
        # a declared parameter is missing (create_program only notices if the parameter is actually used): not an
        # accepted parameter assignment
        return viol, known
    if not rec['meta']['keep']:
        # an atomic leaf all of whose channels are dropped by a mapping vanishes together with its duration (C04 makes
        # the same exception): the closed forms of channels added around it describe a pulse that is not instantiated
        return viol, known
    spec = reply['spec']
    for ch in reply['chans']:
        exp = expected_values(rec, ch)
        prow = program_reference(rec, ch)
        tags = {'first': [], 'last': []}
        if spec['status'] == 'ok' and ch in spec['chans']:
            tags['first'] = spec['chans'][ch].get('tags-first', [])
            tags['last'] = spec['chans'][ch].get('tags-last', [])
        for q, key in (('integral', 'integral'), ('initial', 'first'), ('final', 'last')):
            iq = impl['q'][q]
            if not isinstance(iq, dict):
                if isinstance(iq, str) and iq.startswith('error:'):
                    viol.append({'clause': q + '-raises', 'channel': ch,
                                 'what': '%s of the template raises %s although the class implements it' % (ATTR[q], iq[6:])})
                continue
            iv = iq.get(ch)
            if iv is None:
                continue
            want = exp[key]
            if not want:
                continue
            if iv[0] != 'ok':
                m = reply['model'].get(ch, {}).get(q)
                if m is not None and m[0] == 'error' and m[1] == 'unsupported':
                    continue
                if q == 'integral' and iv[1] == MISSING_VAR and rec['meta'].get('sum_piecewise'):
                    known.append({'clause': 'integral-raises', 'channel': ch, 'finding': 'PF-C07-4', 'tags': [],
                                  'what': 'evaluating integral[%s] at the parameters raises ExpressionVariableMissingException; the '
                                          'instantiated pulse has %s' % (ch, want[0][1])})
                    continue
                viol.append({'clause': q + '-raises', 'channel': ch,
                             'what': 'evaluating %s[%s] at the parameters raises %s; the instantiated pulse has %s'
                                     % (ATTR[q], ch, iv[1], want[0][1])})
                continue
            if any(iv[1] == w for _src, w in want):
                if prow is not None and prow[key] is not None and iv[1] != prow[key]:
                    # the value agrees with what the template denotes, but the REAL program plays something else on this
                    # channel (its integral differs from the denoted one, so this is not a zero length piece that sampling
                    # cannot see): the property is about the instantiated pulse
                    what = '%s[%s] evaluates to %s, the instantiated program plays %s (the template denotes %s' % (
                        ATTR[q], ch, iv[1], prow[key], spec['chans'][ch][key])
                    what += ')' if key == 'integral' else '; the played channel integrates to %s, the denoted one to %s)' % (
                        prow['integral'], spec['chans'][ch]['integral'])
                    viol.append({'clause': q, 'channel': ch, 'what': what})
                continue
            t = [x for x in tags.get(key, []) if x != 'error'] if key != 'integral' else []
            what = '%s[%s] evaluates to %s, the instantiated pulse has %s' % (
                ATTR[q], ch, iv[1], ', '.join('%s (%s)' % (w, src) for src, w in want))
            findings = [FINDING_OF_TAG[x] for x in t if x in FINDING_OF_TAG]
            if findings:
                known.append({'clause': q, 'channel': ch, 'what': what, 'finding': findings[0], 'tags': t})
                continue
            if 'table-end' in t:
                # the template specifies its last entry's value at its end: compared with the model only
                m = reply['model'].get(ch, {}).get(q)
                if m is not None and m[0] == 'ok' and m[1] == iv[1]:
                    continue
                what += '; the value the table specifies at its end is %s' % (m[1] if m and m[0] == 'ok' else m,)
            viol.append({'clause': q, 'channel': ch, 'what': what})
    # pad_to: everything played after the original end holds the final value
    pad = impl.get('pad')
    if pad is not None and pad.get('status') == 'ok' and pad.get('segs') and impl['tdur'][0] == 'ok':
        T = impl['dur'] if impl['status'] == 'ok' else F(0)
        for ch, segs in pad['segs'].items():
            fv = impl['q']['final'].get(ch) if isinstance(impl['q']['final'], dict) else None
            t = F(0)
            tail = []
            for (l, a, b) in segs:
                if t >= T:
                    tail.append((t, l, a, b))
                t += l
            if not tail:
                continue
            exp = expected_values(rec, ch)['last']
            prow = program_reference(rec, ch)
            if prow is not None and prow['last'] is not None:
                exp = [('program', prow['last'])]        # the real program deviates from denote here: it is the reference
            tg = []
            if spec['status'] == 'ok' and ch in spec['chans']:
                tg = spec['chans'][ch].get('tags-last', [])
            for (t0, l, a, b) in tail:
                if a != b:
                    viol.append({'clause': 'pad-not-constant', 'channel': ch,
                                 'what': 'pad_to: channel %s ramps from %s to %s after the original end (t=%s)' % (ch, a, b, t0)})
                    break
                if exp and not any(a == w for _s, w in exp):
                    what = ('pad_to(%s): channel %s holds %s after the original end t=%s, the unpadded pulse ends on %s'
                            % (pad['new_dur'], ch, a, T, ', '.join('%s (%s)' % (w, s) for s, w in exp)))
                    findings = [FINDING_OF_TAG[x] for x in tg if x in FINDING_OF_TAG]
                    if findings:
                        known.append({'clause': 'pad', 'channel': ch, 'what': what, 'finding': findings[0], 'tags': tg})
                    elif 'table-end' in tg and fv is not None and fv[0] == 'ok' and fv[1] == a:
                        pass
                    else:
                        viol.append({'clause': 'pad', 'channel': ch, 'what': what})
                    break
        if impl['status'] == 'ok' and pad['dur'] != max(pad['new_dur'], impl['dur']) and pad['new_dur'] >= impl['dur']:
            viol.append({'clause': 'pad-duration', 'channel': None,
                         'what': 'pad_to(%s) lasts %s' % (pad['new_dur'], pad['dur'])})
    return viol, known


def open_findings(ctx) -> set:
    return {k.get('finding') for k in ctx.findings.for_property(PID)}


def assess(ctx, rec, count=True):
    diffs = diff_model(rec)
    viols, known = judge(rec)
    listed = open_findings(ctx)
    # a violation inside a documented class is excused only if that finding is listed as open
    still = [k for k in known if k['finding'] not in listed]
    known = [k for k in known if k['finding'] in listed]
    viols = viols + [{'clause': k['clause'], 'channel': k['channel'],
                      'what': k['what'] + ' [class %s]' % k['finding']} for k in still]
    if count:
        impl, reply = rec['impl'], rec['reply']
        ctx.case(rec['line'], nontrivial=impl['status'] == 'ok' and len(rec['meta']['kinds']) > 1)
        ctx.count('family:' + rec['label'].split(':')[0])
        ctx.count('impl:' + impl['status'] + (':' + impl['error'] if impl['status'] == 'error' else ''))
        ctx.count('spec:' + reply['spec']['status'] + (':' + reply['spec']['error'] if reply['spec']['status'] == 'error' else ''))
        for k in set(rec['meta']['kinds']):
            ctx.count('kind:' + k)
        if not reply['regular']:
            ctx.count('not-regular')
        elif reply.get('covered') and impl['status'] == 'ok':
            ctx.count('theorem-hypotheses-hold')
        if not rec['meta']['keep']:
            ctx.count('leaf-without-channel')
        if not rec['meta'].get('complete', True):
            ctx.count('declared-parameter-missing')
        for q in QUANTS:
            iq = impl['q'][q]
            ctx.count('%s:%s' % (q, 'values' if isinstance(iq, dict) else iq))
            if isinstance(iq, dict):
                ctx.count('quantity-evaluations', len(iq))
        if impl.get('segs'):
            ctx.count('program-sampled')
        elif impl['status'] == 'ok':
            ctx.count('program-not-sampled')
        if reply['spec']['status'] == 'ok':
            for ch, row in reply['spec']['chans'].items():
                for t in row.get('tags-first', []) + row.get('tags-last', []):
                    ctx.count('class:' + t)
                if impl.get('segs') and ch in reply['sampled'] and reply['sampled'][ch]['integral'] != row['integral']:
                    ctx.count('program-deviates-from-denote')
                    ctx.count('program-deviates-from-denote:' + ('PF-11 class, either value accepted'
                                                                 if ch in rec['meta'].get('pf11', []) else 'program is the reference'))
        for m in reply['model'].values():
            for q in QUANTS:
                if m[q][0] == 'error' and m[q][1] == 'unsupported':
                    ctx.count('model-unsupported:' + q)
        pad = impl.get('pad')
        if pad is not None:
            ctx.count('pad:' + pad.get('status', '?'))
        if rec['label'].startswith('range'):
            ctx.count('range-shape:' + range_shape(rec['case']))
        if rec['case'].get('fault'):
            ctx.count('fault:' + rec['case']['fault'])
    return diffs, viols, known


def range_shape(case) -> str:
    p = case['params']
    a = p.get('a', p.get('a0', 0) + 1)
    b, c = p['b'], p['c']
    r = range(int(a), int(b), int(c))
    if len(r) == 0:
        return 'empty'
    if len(r) == 1:
        return 'single'
    div = (int(b) - int(a)) % int(c) == 0
    return ('neg' if c < 0 else 'pos') + ('-dividing' if div else '-nondividing')


def summary(rec) -> str:
    s = 'kinds=%s params=%s' % ('/'.join(rec['meta']['kinds']), rec['case']['params'])
    if rec['case'].get('top_cm'):
        s += ' create_program(channel_mapping=%s)' % rec['case']['top_cm']
    return s


def replay_record(rec, what, extra=None) -> dict:
    d = {'kind': 'c07-case', 'case': rec['case'], 'label': rec.get('label')}
    if extra:
        d.update(extra)
    return d


def evaluate_given(cases, label='search') -> List[dict]:
    recs = []
    for i, c in enumerate(cases):
        try:
            r = work({'family': 'given', 'case': c, 'label': label})
        except core.MachineryError:
            raise
        except Exception:  # noqa -- a candidate that cannot be constructed
            r = None
        if r is not None:
            recs.append(r)
    if not recs:
        return []
    answers = core.Lean.run([r['line'] for r in recs])
    for r, a in zip(recs, answers):
        r['reply'] = parse_reply(a)
    return recs


def spec_candidates(spec):
    """smaller spec trees: replace a node by one of its children, drop sequence parts, drop decorations"""
    out = []

    def rec(node, rebuild):
        for c in ptgen.children(node):
            out.append(rebuild(copy.deepcopy(c)))
        k = node['k']
        if k == 'seq' and len(node['subs']) > 1:
            for i in range(len(node['subs'])):
                n = copy.deepcopy(node)
                del n['subs'][i]
                out.append(rebuild(n))
        for key in ('meas', 'cons'):
            if node.get(key):
                n = copy.deepcopy(node)
                n[key] = []
                out.append(rebuild(n))
        if k == 'rep' and node['count'] not in ('1', '2'):
            for cnt in ('1', '2'):
                n = copy.deepcopy(node)
                n['count'] = cnt
                out.append(rebuild(n))
        if k == 'for' and node['range'] != ['0', '2', '1']:
            n = copy.deepcopy(node)
            n['range'] = ['0', '2', '1']
            out.append(rebuild(n))
        if k == 'table':
            for ci, (ch, es) in enumerate(node['entries']):
                if len(es) > 2:
                    for i in range(len(es)):
                        n = copy.deepcopy(node)
                        del n['entries'][ci][1][i]
                        out.append(rebuild(n))
        # descend
        if k in ('seq', 'amulti'):
            for i, c in enumerate(node['subs']):
                def rb(x, i=i, node=node):
                    n = copy.deepcopy(node)
                    n['subs'][i] = x
                    return rebuild(n)
                rec(c, rb)
        elif k == 'aarith':
            for key in ('lhs', 'rhs'):
                def rb(x, key=key, node=node):
                    n = copy.deepcopy(node)
                    n[key] = x
                    return rebuild(n)
                rec(node[key], rb)
        elif 'body' in node:
            def rb(x, node=node):
                n = copy.deepcopy(node)
                n['body'] = x
                return rebuild(n)
            rec(node['body'], rb)

    rec(spec, lambda x: x)
    return out


def shrink(ctx, rec, clause, rounds=6):
    """delta debugging on the spec tree; a candidate is kept if the judge reports the same clause"""
    best = rec
    for _ in range(rounds):
        cands = spec_candidates(best['case']['spec'])[:50]
        cases = []
        for s in cands:
            c = copy.deepcopy(best['case'])
            c['spec'] = s
            cases.append(c)
        progressed = False
        for r in evaluate_given(cases):
            _d, vs, _k = assess(ctx, r, count=False)
            if any(v['clause'] == clause for v in vs) and len(r['line']) < len(best['line']):
                best = r
                progressed = True
                break
        if not progressed:
            break
    return best


def note_known(ctx, k):
    """one KNOWN-FINDING line per finding and run (the first reproduction), the others are counted"""
    ctx.count('known:' + k['finding'])
    seen = ctx.extra.setdefault('known_examples', {})
    if k['finding'] not in seen:
        seen[k['finding']] = k['what']
        ctx.known_finding(k['finding'], '%s: e.g. %s' % (WHAT[k['finding']], k['what']))


def report(ctx, rec, diffs, viols, known):
    for k in known:
        note_known(ctx, k)
    if viols:
        small = rec
        n_shrunk = ctx.extra.setdefault('shrunk', 0)
        if n_shrunk < 3:
            ctx.extra['shrunk'] = n_shrunk + 1
            small = shrink(ctx, rec, viols[0]['clause'])
            _d, vs, _k = assess(ctx, small, count=False)
            same = [v for v in vs if v['clause'] == viols[0]['clause']]
            what = same[0]['what'] if same else viols[0]['what']
        else:
            what = viols[0]['what']
        ctx.violation('%s [%s]' % (what, summary(small)),
                      replay_record(small, what, {'clause': viols[0]['clause'], 'original': rec['case']}))
    elif diffs:
        ctx.drift('pt.integral / initial_values / final_values vs QP.C07.integralOf / endOf', rec['case'], diffs[:3],
                  'see model')


# ------------------------------------------------------------------------------------------------
# shared objects / query history: one atom OBJECT used by several templates, quantities queried in varying orders
# ------------------------------------------------------------------------------------------------

SHARED_RANGES = [['0', '3', '1'], ['2', '8', '2'], ['0', '5', '2'], ['3', '0', '-1'], ['1', '2', '1'], ['0', '0', '1'],
                 ['4', '1', '-2']]
HIST_OPS = ['integral', 'initial', 'final', 'initial', 'final', 'pad', 'mutate-initial', 'mutate-final', 'mutate-integral']


def handmade_shared_atoms() -> List[Tuple[List[str], dict]]:
    """one index dependent atom per atomic class (channels, spec)"""
    return [
        (['X', 'Y'], {'k': 'point', 'chans': ['X', 'Y'], 'entries': [['0', ['v*i', 'w'], 'hold'], ['2', ['v*(i + 1)', 'w'], 'linear'],
                                                               ['3', ['v*(i + 1)', 'w'], 'hold']], 'meas': [], 'cons': []}),
        (['X'], {'k': 'point', 'chans': ['X'], 'entries': [['0', 'i/2', 'hold'], ['1', 'v + i', 'linear']], 'meas': [], 'cons': []}),
        (['X', 'Y'], {'k': 'const', 'dur': '1', 'amps': [['X', 'v + i/4'], ['Y', 'w']], 'meas': []}),
        (['X', 'Y'], {'k': 'table', 'entries': [['X', [['0', 'i/2', 'hold'], ['1', 'v + i', 'linear'], ['2', 'v - i/4', 'linear']]],
                                                ['Y', [['0', 'w', 'hold'], ['2', 'w + i', 'linear']]]], 'meas': [], 'cons': []}),
        (['X'], {'k': 'func', 'ch': 'X', 'dur': '2', 'expr': 'v + i*t/2', 'meas': [], 'cons': []}),
        (['X', 'Y'], {'k': 'amulti', 'subs': [{'k': 'const', 'dur': '1', 'amps': [['X', 'v + i']], 'meas': []},
                                              {'k': 'func', 'ch': 'Y', 'dur': '1', 'expr': 'w + i*t', 'meas': [], 'cons': []}],
                      'meas': [], 'cons': []}),
        (['X'], {'k': 'aarith', 'lhs': {'k': 'const', 'dur': '1', 'amps': [['X', 'v']], 'meas': []}, 'op': '-',
                 'rhs': {'k': 'table', 'entries': [['X', [['0', 'i', 'hold'], ['1', 'w', 'linear']]]], 'meas': [], 'cons': []},
                 'meas': []}),
    ]


def shared_scenario(rng) -> Optional[dict]:
    """a JSON-able scenario: one atom, several users of the SAME atom object, a script of queries"""
    hand = handmade_shared_atoms()
    params: Dict[str, Any] = {'v': rng.randrange(-8, 9) / 8, 'w': rng.randrange(-8, 9) / 8}
    if rng.random() < 0.6:
        chans, atom = hand[rng.randrange(len(hand))]
        atom = copy.deepcopy(atom)
    else:
        g = ptgen.Gen(rng, 3)
        env, values = g.params()
        chans = ['X', 'Y'][:rng.choice([1, 2])]
        try:
            atom = ptgen.strip(g.atom(chans, env.with_idx('i', [0, 1, 2, 3]), None, 'i'))
            if 'i' not in ptgen.build(atom).parameter_names:
                return None
        except Exception:  # noqa -- an ill-formed draw
            return None
        params.update(values)
    users: List[dict] = []
    kinds = ['self', 'for', 'for', 'par', 'rep', 'map', 'seq2', 'arith']
    n_users = rng.choice([2, 3, 3, 4])
    chosen = [rng.choice(kinds) for _ in range(n_users)]
    if not any(k in ('for', 'par') for k in chosen):
        chosen[0] = rng.choice(['for', 'par'])
    ranges = rng.sample(SHARED_RANGES, len(SHARED_RANGES))
    for k in chosen:
        if k == 'self':
            users.append({'kind': 'self', 'i': rng.randrange(0, 4)})
        elif k == 'for':
            users.append({'kind': 'for', 'range': ranges.pop()})
        elif k == 'par':
            ch = rng.choice(chans + ['Z'])
            users.append({'kind': 'par', 'over': [[ch, rng.choice(['0.25', 'w + 1', '-1.5'])]], 'i': rng.randrange(0, 4)})
        elif k == 'rep':
            users.append({'kind': 'rep', 'count': rng.choice(['2', '1', '3']), 'i': rng.randrange(0, 4)})
        elif k == 'map':
            users.append({'kind': 'map', 'pm': [['i', 'j + 1']], 'j': rng.randrange(0, 3)})
        elif k == 'seq2':
            users.append({'kind': 'seq2', 'i': rng.randrange(0, 4)})
        else:
            users.append({'kind': 'arith', 'op': rng.choice(['*', '+', '-']), 'scalar': rng.choice(['2', '0.5', 'w']),
                          'pt_lhs': rng.random() < 0.5, 'i': rng.randrange(0, 4)})
    script = []
    for _ in range(rng.randrange(4, 12)):
        script.append([rng.randrange(len(users)), rng.choice(HIST_OPS)])
    return {'atom': atom, 'chans': chans, 'users': users, 'params': params, 'script': script}


def user_spec(u: dict, atom: dict) -> dict:
    k = u['kind']
    if k == 'self':
        return atom
    if k == 'for':
        return {'k': 'for', 'body': atom, 'idx': 'i', 'range': list(u['range']), 'meas': [], 'cons': []}
    if k == 'par':
        return {'k': 'par', 'body': atom, 'over': [list(o) for o in u['over']]}
    if k == 'rep':
        return {'k': 'rep', 'body': atom, 'count': u['count'], 'meas': [], 'cons': []}
    if k == 'map':
        return {'k': 'map', 'body': atom, 'pm': [list(x) for x in u['pm']], 'mm': None, 'cm': None}
    if k == 'seq2':
        return {'k': 'seq', 'subs': [atom, atom], 'meas': [], 'cons': []}
    if k == 'arith':
        return {'k': 'arith', 'body': atom, 'op': u['op'], 'scalar': u['scalar'], 'pt_lhs': u['pt_lhs']}
    raise core.MachineryError('unknown user kind %r' % k)


def user_params(u: dict, base: dict) -> dict:
    p = dict(base)
    if 'i' in u:
        p['i'] = u['i']
    if 'j' in u:
        p['j'] = u['j']
    return p


def _pad_tail(pad: Optional[dict], T) -> Any:
    """what a padded program plays after the original end: {ch: [(len, v0, v1), ...]} | status"""
    if pad is None:
        return None
    if pad.get('status') != 'ok' or not pad.get('segs'):
        return pad.get('status'), pad.get('error')
    out = {}
    for ch, segs in pad['segs'].items():
        t = F(0)
        tail = []
        for (l, a, b) in segs:
            if t >= T:
                tail.append((l, a, b))
            t += l
        out[ch] = tail
    return out


def run_scenario(desc: dict) -> Optional[dict]:
    """worker: build the shared objects, run the script, and evaluate a FRESH structurally equal template per user"""
    import warnings
    warnings.filterwarnings('ignore')
    core.ensure_repo_on_path()
    from qupulse.expressions import ExpressionScalar
    sc = desc['scenario']
    if sc is None:
        sc = shared_scenario(random.Random(desc['seed']))
        if sc is None:
            return None
    try:
        atom_obj = ptgen.build(copy.deepcopy(sc['atom']))
    except Exception:  # noqa
        return None
    shared_atom = dict(copy.deepcopy(sc['atom']), _pt=atom_obj)
    users = []
    for u in sc['users']:
        spec = user_spec(u, shared_atom)
        try:
            obj = atom_obj if u['kind'] == 'self' else ptgen.build(spec)
            fresh_case = {'spec': ptgen.strip(spec), 'params': user_params(u, sc['params']), 'cm': {}, 'mm': None,
                          'single': [], 'pad': F(1, 2)}
            ptgen.build(fresh_case['spec'])
        except Exception:  # noqa -- e.g. the loop index is not used by a random atom
            users.append(None)
            continue
        users.append({'obj': obj, 'case': fresh_case})
    if sum(u is not None for u in users) < 2:
        return None
    history = []
    for step, (ui, op) in enumerate(sc['script']):
        u = users[ui]
        if u is None:
            continue
        pt, params = u['obj'], dict(u['case']['params'])
        if op.startswith('mutate-'):
            q = op[len('mutate-'):]
            try:
                d = getattr(pt, ATTR[q])
                for k in list(d):
                    d[k] = ExpressionScalar(777)
                d['__caller__'] = ExpressionScalar(1)
                if len(d) > 1 and step % 2:
                    d.pop(next(iter(d)))
            except Exception:  # noqa -- not provided / immutable result: nothing to corrupt
                pass
            continue
        if op == 'pad':
            ans: Any = None
            try:
                td = ptgen.num_frac(pt.duration.evaluate_in_scope(dict(params)))
                padded = pt.pad_to(float(td + F(1, 2)))
                pprog = padded.create_program(parameters=params)
                pad: Dict[str, Any] = {'new_dur': td + F(1, 2)}
                if pprog is None:
                    pad['status'] = 'empty'
                else:
                    pad['status'] = 'ok'
                    pad['dur'] = ptgen.num_frac(pprog.duration)
                    sets = ptgen.leaf_channel_sets(pprog)
                    chans = sorted(sets[0]) if all(s_ == sets[0] for s_ in sets) else None
                    pad['chans'] = chans
                    pad['segs'] = program_segments(pprog, chans) if chans else None
                ans = pad
            except NotImplementedError:
                ans = None
            except Exception as exc:  # noqa
                ans = {'status': 'error', 'error': core.classify_exception(exc)}
            history.append({'step': step, 'user': ui, 'op': op, 'answer': ans})
            continue
        try:
            d = getattr(pt, ATTR[op])
            ans = {str(ch): eval_quantity(e, params) for ch, e in d.items()}
        except NotImplementedError:
            ans = 'not-provided'
        except Exception as exc:  # noqa
            ans = 'error:' + core.classify_exception(exc)
        history.append({'step': step, 'user': ui, 'op': op, 'answer': ans})
    recs = []
    for u in users:
        if u is None:
            recs.append(None)
            continue
        r = work({'family': 'given', 'case': u['case'], 'label': 'shared:fresh'})
        recs.append(r)
    atom_kinds = ptgen.spec_kinds(sc['atom'])
    return {'scenario': {'atom': sc['atom'], 'chans': sc['chans'], 'users': sc['users'], 'params': sc['params'],
                         'script': sc['script']},
            'recs': recs, 'history': history, 'atom_kinds': atom_kinds}


def judge_history(out: dict) -> Tuple[List[dict], List[dict], List[str]]:
    """every answer of the query history against the answer of the fresh template; a different answer is judged
    against the instantiated pulse like any other answer.  Returns (violations, known, drifts)."""
    viols: List[dict] = []
    known: List[dict] = []
    drifts: List[str] = []
    kinds = [u['kind'] for u in out['scenario']['users']]
    for h in out['history']:
        rec = out['recs'][h['user']]
        if rec is None or 'reply' not in rec:
            continue
        op = h['op']
        before = ', '.join('%s on user %d (%s)' % (o, ui, kinds[ui]) for ui, o in out['scenario']['script'][:h['step']]) or 'nothing'
        if op == 'pad':
            fresh_pad = rec['impl'].get('pad')
            T = rec['impl']['dur'] if rec['impl']['status'] == 'ok' else F(0)
            if h['answer'] is None or fresh_pad is None:
                continue
            if _pad_tail(h['answer'], T) == _pad_tail(fresh_pad, T):
                continue
            mod = dict(rec, impl=dict(rec['impl'], pad=h['answer']))
            clause = 'pad'
        else:
            fresh = rec['impl']['q'][op]
            if h['answer'] == fresh:
                continue
            mod = dict(rec, impl=dict(rec['impl'], q=dict(rec['impl']['q'], **{op: h['answer']})))
            clause = op
        vs, ks = judge(mod)
        vs = [v for v in vs if v['clause'].startswith(clause)]
        ks = [k for k in ks if k['clause'].startswith(clause)]
        note = ' -- queried on user %d (%s) of a shared %s object after: %s; a fresh structurally equal template answers %s' % (
            h['user'], kinds[h['user']], '/'.join(out['atom_kinds']), before,
            _short_answer(rec['impl'].get('pad') if op == 'pad' else rec['impl']['q'][op], op, rec))
        for v in vs:
            viols.append(dict(v, what=v['what'] + note, step=h['step']))
        for k in ks:
            known.append(k)
        if not vs and not ks:
            drifts.append('%s of user %d (%s) depends on the query history: %s, fresh %s (after: %s)' % (
                op, h['user'], kinds[h['user']], _short_answer(h['answer'], op, rec),
                _short_answer(rec['impl'].get('pad') if op == 'pad' else rec['impl']['q'][op], op, rec), before))
    return viols, known, drifts


def _short_answer(ans, op, rec) -> str:
    if op == 'pad':
        T = rec['impl']['dur'] if rec['impl']['status'] == 'ok' else F(0)
        t = _pad_tail(ans, T)
        if isinstance(t, dict):
            return '{%s}' % ', '.join('%s: holds %s' % (ch, '/'.join(sorted({str(a) for (_l, a, _b) in segs})) or '-')
                                      for ch, segs in sorted(t.items()))
        return str(t)
    if isinstance(ans, dict):
        return '{%s}' % ', '.join('%s: %s' % (ch, v[1]) for ch, v in sorted(ans.items()))
    return str(ans)


def evaluate_scenarios(ctx, descs: List[dict]) -> List[dict]:
    workers = int(os.environ.get('VERIF_WORKERS', '0')) or (4 if ctx.quick else 14)
    workers = max(1, min(workers, len(descs) // 4 or 1))
    if workers > 1:
        mp = multiprocessing.get_context('fork')
        with mp.Pool(workers) as pool:
            outs = pool.map(run_scenario, descs, chunksize=max(1, len(descs) // (workers * 4)))
    else:
        outs = [run_scenario(d) for d in descs]
    outs = [o for o in outs if o is not None]
    flat = [r for o in outs for r in o['recs'] if r is not None]
    answers = core.Lean.run([r['line'] for r in flat])
    for r, a in zip(flat, answers):
        r['reply'] = parse_reply(a)
    return outs


def shrink_scenario(ctx, out: dict, clause: str) -> dict:
    """drop script steps / users while some answer of the history still violates the same clause"""
    best = out
    progressed = True
    rounds = 0
    while progressed and rounds < 8:
        progressed = False
        rounds += 1
        sc = best['scenario']
        cands = []
        for i in range(len(sc['script'])):
            c = copy.deepcopy(sc)
            del c['script'][i]
            cands.append(c)
        if not cands:
            break
        outs = evaluate_scenarios(ctx, [{'scenario': c, 'seed': 0} for c in cands])
        for o in outs:
            vs, _k, _d = judge_history(o)
            if any(v['clause'].startswith(clause) for v in vs) and len(o['scenario']['script']) < len(best['scenario']['script']):
                best = o
                progressed = True
                break
    return best


def scenario_replay(out: dict, what: str) -> dict:
    sc = copy.deepcopy(out['scenario'])
    return {'kind': 'c07-shared', 'scenario': sc, 'what': what}


def shared_stream(ctx, n: int):
    base = ctx.fork('shared').getrandbits(48)
    descs = [{'scenario': None, 'seed': base + i} for i in range(n)]
    # every hand-made atom with a fixed adversarial script: wrappers first, then the other users, then the atom itself
    for ai, (chans, atom) in enumerate(handmade_shared_atoms()):
        users = [{'kind': 'for', 'range': ['0', '3', '1']}, {'kind': 'for', 'range': ['2', '8', '2']},
                 {'kind': 'par', 'over': [[chans[-1], '0.25']], 'i': 5}, {'kind': 'self', 'i': 1}]
        for order in ([0, 1, 2, 3], [2, 3, 0, 1], [3, 1, 0, 2]):
            script = []
            for ui in order:
                script += [[ui, 'initial'], [ui, 'final'], [ui, 'integral'], [ui, 'pad']]
            script += [[order[0], 'mutate-final'], [order[0], 'mutate-initial'], [order[0], 'mutate-integral']]
            for ui in order:
                script += [[ui, 'final'], [ui, 'initial'], [ui, 'integral']]
            descs.append({'scenario': {'atom': copy.deepcopy(atom), 'chans': chans, 'users': users,
                                       'params': {'v': 0.25, 'w': 1.0}, 'script': script}, 'seed': ai})
    outs = evaluate_scenarios(ctx, descs)
    handle_scenarios(ctx, outs)


def handle_scenarios(ctx, outs: List[dict], count=True) -> bool:
    ok = True
    for o in outs:
        for r in o['recs']:
            if r is None:
                continue
            diffs, viols, known = assess(ctx, r, count=count)
            if diffs or viols or known:
                ctx.disagreements += 1 if (diffs or viols) else 0
                report(ctx, r, diffs, viols, known)
                ok = ok and not viols
        if count:
            ctx.count('shared:scenarios')
            ctx.count('shared:queries', len(o['history']))
            for k in set(o['atom_kinds']):
                ctx.count('shared:atom:' + k)
            for u in o['scenario']['users']:
                ctx.count('shared:user:' + u['kind'])
            ctx.count('shared:caller-mutations', sum(1 for _u, op in o['scenario']['script'] if op.startswith('mutate-')))
        vs, ks, ds = judge_history(o)
        for k in ks:
            note_known(ctx, k)
        if vs:
            ok = False
            ctx.disagreements += 1
            small = o
            n_shrunk = ctx.extra.setdefault('shrunk_scenarios', 0)
            if n_shrunk < 2:
                ctx.extra['shrunk_scenarios'] = n_shrunk + 1
                small = shrink_scenario(ctx, o, vs[0]['clause'])
                vs2, _k, _d = judge_history(small)
                vs = [v for v in vs2 if v['clause'].startswith(vs[0]['clause'])] or vs
            ctx.violation(vs[0]['what'], scenario_replay(small, vs[0]['what']))
        elif ds:
            ctx.drift('answers of integral / initial_values / final_values / pad_to depend on the query history', o['scenario'],
                      ds[:3], 'fresh template')
    return ok


# ------------------------------------------------------------------------------------------------
# test-level: non-affine function templates against composite Simpson integration of the real program
# ------------------------------------------------------------------------------------------------

def simpson_tests(ctx):
    """independent numerical integration (a test, not part of the proof / correspondence)"""
    import numpy as np
    from qupulse.pulses import FunctionPT, SequencePT, RepetitionPT, ForLoopPT, MappingPT, ConstantPT
    from qupulse.program.loop import to_waveform
    rng = ctx.fork('simpson')
    exprs = ['sin(w*t) + v', 'v*t**2 - t', 'exp(-t/2)*v', 'cos(w*t)*t', 'v*t**3/4 + i*t', 'sqrt(t + 1)*v']
    n_cases = ctx.n(30, 400)
    bad = 0
    done = 0
    for k in range(n_cases):
        e = rng.choice(exprs)
        dur = rng.choice([1, 2, 1.5, 'd'])
        f = FunctionPT(e, dur, 'A')
        params = {'w': rng.choice([0.5, 1.0, 2.0, 3.0]), 'v': rng.randrange(-16, 17) / 8, 'd': rng.choice([0.5, 1.0, 2.0, 4.0])}
        shape = rng.choice(['plain', 'seq', 'rep', 'for', 'map'])
        if shape == 'map' and 'v' not in f.parameter_names:
            shape = 'plain'
        if 'i' in f.parameter_names and shape != 'for':
            params['i'] = rng.randrange(-2, 3)
        if shape == 'plain':
            pt = f
        elif shape == 'seq':
            pt = SequencePT(f, ConstantPT(1, {'A': 'v'}), f)
        elif shape == 'rep':
            pt = RepetitionPT(f, 'n')
            params['n'] = rng.randrange(0, 4)
        elif shape == 'for':
            body = f if 'i' in f.parameter_names else SequencePT(f, ConstantPT(0.5, {'A': 'i'}))
            a, b, c = rng.choice([(0, 3, 1), (0, 5, 2), (5, 0, -2), (2, 2, 1), (1, 2, 3), (3, -2, -2)])
            pt = ForLoopPT(body, 'i', (a, b, c))
        else:
            pt = MappingPT(f, parameter_mapping={'v': '2*u + 1'}, allow_partial_parameter_mapping=True)
            params['u'] = params.pop('v')
        params = {k_: v_ for k_, v_ in params.items() if k_ in pt.parameter_names}
        try:
            integral = float(pt.integral['A'].evaluate_in_scope(dict(params)))
            prog = pt.create_program(parameters=params)
        except Exception as exc:  # noqa
            ctx.count('simpson:error:' + core.classify_exception(exc))
            continue
        done += 1
        ctx.count('simpson:' + shape)
        if prog is None:
            num = 0.0
            T = 0.0
        else:
            wf = to_waveform(prog)
            T = float(wf.duration)
            # composite Simpson on every played piece (pieces are smooth in between)
            brk = sorted({float(t) for t in ptgen.program_breaks(prog, limit=10 ** 5)} | {0.0, T})
            num = 0.0
            for a, b in zip(brk, brk[1:]):
                if b - a <= 0:
                    continue
                m = 200
                ts = np.linspace(a, b, 2 * m + 1)
                ts[-1] = np.nextafter(b, a)
                ys = wf.get_sampled('A', ts)
                h = (b - a) / (2 * m)
                num += h / 3 * (ys[0] + ys[-1] + 4 * ys[1:-1:2].sum() + 2 * ys[2:-1:2].sum())
        scale = max(1.0, abs(num), abs(integral))
        ok = abs(num - integral) <= 1e-7 * scale
        if ok and prog is not None and shape in ('plain', 'seq', 'map', 'rep'):
            try:
                ini = float(pt.initial_values['A'].evaluate_in_scope(dict(params)))
                fin = float(pt.final_values['A'].evaluate_in_scope(dict(params)))
                y0 = float(wf.get_sampled('A', np.array([0.0]))[0])
                y1 = float(wf.get_sampled('A', np.array([np.nextafter(T, 0.0)]))[0])
                if abs(ini - y0) > 1e-9 * max(1, abs(y0)) or abs(fin - y1) > 1e-6 * max(1, abs(y1)):
                    ok = False
            except Exception as exc:  # noqa
                ctx.count('simpson:ends-error:' + core.classify_exception(exc))
        if not ok:
            bad += 1
            ctx.violation('non-affine function template: integral[A] evaluates to %r, composite Simpson integration of the '
                          'instantiated program gives %r (expression %s, shape %s, parameters %s)' % (integral, num, e, shape, params),
                          {'kind': 'c07-simpson', 'expr': e, 'shape': shape, 'params': params, 'dur': str(dur)})
    ctx.extra['tests'] = {'what': 'non-affine FunctionPT (sin, cos, exp, sqrt, powers) alone and inside sequence / repetition / '
                                  'iteration / mapping: symbolic integral vs composite Simpson integration (400 panels per piece) '
                                  'of the sampled real program, relative tolerance 1e-7; initial / final vs samples at 0 and '
                                  'just before the end. Test-level evidence only, not covered by the Lean model.',
                          'cases': done, 'failures': bad}


# ------------------------------------------------------------------------------------------------
# scalar arithmetic with a per-channel scalar that mixes time dependent and constant entries (test level)
# ------------------------------------------------------------------------------------------------

MIX_TIME = ['g*t', '1 + t', 't/2 + g', '2 - t/4', '1 + g*t']
MIX_CONST = ['g', '3', '0.5', 'g + 1', '-2']


def mixed_scalar_recipe(rng) -> dict:
    atom = rng.choice(['table', 'table', 'amulti', 'point', 'table3'])
    chans = {'table': ['I', 'M'], 'amulti': ['X', 'Y'], 'point': ['I', 'M'], 'table3': ['I', 'M', 'K']}[atom]
    op = rng.choice(['*', '*', '+', '-', '/'])
    side = 'lhs' if op in '*/' and rng.random() < 0.8 or op == '/' else rng.choice(['lhs', 'rhs'])
    order = list(chans)
    rng.shuffle(order)
    scalar = [[order[0], '1 + t' if op == '/' else rng.choice(MIX_TIME)], [order[1], rng.choice(MIX_CONST)]]
    if len(order) > 2 and rng.random() < 0.6:
        scalar.append([order[2], rng.choice(MIX_CONST + MIX_TIME[:2] if op != '/' else MIX_CONST)])
    rng.shuffle(scalar)
    return {'atom': atom, 'op': op, 'pt_side': side, 'scalar': scalar, 'wrap': rng.choice(['plain', 'plain', 'seq', 'rep', 'map']),
            'params': {'T': rng.choice([1, 2, 4]), 'a': rng.choice([2, 0.5, -1]), 'g': rng.choice([0.5, 2, -0.25, 1.5])}}


def mixed_scalar_build(rc: dict):
    import qupulse.pulses as qp
    from qupulse.pulses.arithmetic_pulse_template import ArithmeticPulseTemplate
    a = rc['atom']
    if a in ('table', 'table3'):
        ent = {'I': [(0, 0.), ('T', 'a', 'linear')], 'M': [(0, 1.), ('T', 1.)]}
        if a == 'table3':
            ent['K'] = [(0, 'a'), ('T/2', 0.25, 'linear'), ('T', 0.25)]
        atom = qp.TablePT(ent)
    elif a == 'point':
        atom = qp.PointPT([(0, [0., 1.]), ('T', ['a', 0.5], 'linear')], ['I', 'M'])
    else:
        atom = qp.AtomicMultiChannelPT(qp.FunctionPT('a*t', 'T', channel='X'), qp.FunctionPT('1 + t', 'T', channel='Y'))
    scalar = dict((c, e) for c, e in rc['scalar'])
    pt = ArithmeticPulseTemplate(atom, rc['op'], scalar) if rc['pt_side'] == 'lhs' else ArithmeticPulseTemplate(scalar, rc['op'], atom)
    w = rc['wrap']
    if w == 'seq':
        pt = qp.SequencePT(pt, qp.ConstantPT(1, {c: 0.5 for c in atom.defined_channels}), pt)
    elif w == 'rep':
        pt = qp.RepetitionPT(pt, 2)
    elif w == 'map' and 'g' in pt.parameter_names:
        pt = qp.MappingPT(pt, parameter_mapping={'g': 'h + 1'}, allow_partial_parameter_mapping=True)
    return pt


def mixed_scalar_check(rc: dict) -> List[str]:
    """symbolic integral of every channel against composite Simpson integration of the instantiated program (exact up to
    rounding for the constant channels and for * + - with scalars affine in t: the integrand is a polynomial of degree
    <= 2 per piece)"""
    import numpy as np
    from qupulse.program.loop import to_waveform
    pt = mixed_scalar_build(rc)
    params = dict(rc['params'])
    if 'h' in pt.parameter_names:
        params['h'] = params.pop('g') - 1
    params = {k: v for k, v in params.items() if k in pt.parameter_names}
    out = []
    try:
        integ = {ch: float(e.evaluate_in_scope(dict(params))) for ch, e in pt.integral.items()}
    except Exception as exc:  # noqa
        if rc['op'] == '/':
            # sympy's integrator gives up on some rational integrands p(t)/(1 + t) (TypeError inside the polynomial ring code,
            # also on the unchanged tree): no symbolic value, nothing to compare
            return []
        return ['integral raises %s: %s' % (core.classify_exception(exc), str(exc)[:100])]
    prog = pt.create_program(parameters=params)
    wf = to_waveform(prog)
    T = float(wf.duration)
    brk = sorted({float(t) for t in ptgen.program_breaks(prog, limit=10 ** 5)} | {0.0, T})
    for ch in sorted(integ):
        num = 0.0
        for a, b in zip(brk, brk[1:]):
            if b - a <= 0:
                continue
            m = 100
            ts = np.linspace(a, b, 2 * m + 1)
            ts[-1] = np.nextafter(b, a)
            ys = wf.get_sampled(ch, ts)
            h = (b - a) / (2 * m)
            num += h / 3 * (ys[0] + ys[-1] + 4 * ys[1:-1:2].sum() + 2 * ys[2:-1:2].sum())
        if abs(num - integ[ch]) > 1e-7 * max(1.0, abs(num), abs(integ[ch])):
            out.append('integral[%s] evaluates to %r, composite Simpson integration of the instantiated program gives %r'
                       % (ch, integ[ch], float(num)))
    return out


def mixed_scalar_report(ctx, rc: dict, count=True) -> bool:
    try:
        fs = mixed_scalar_check(rc)
    except Exception as exc:  # noqa -- e.g. a division by a scalar with a zero: not an accepted input
        ctx.count('mixed-scalar:error:' + core.classify_exception(exc))
        return True
    if count:
        ctx.case('mixed-scalar:' + repr(sorted(rc.items(), key=lambda kv: kv[0])), nontrivial=True)
        ctx.count('mixed-scalar')
        ctx.count('mixed-scalar:op' + rc['op'])
    if fs:
        sc = '{%s}' % ', '.join('%s: %s' % (c, e) for c, e in rc['scalar'])
        expr = ('pt %s %s' % (rc['op'], sc)) if rc['pt_side'] == 'lhs' else ('%s %s pt' % (sc, rc['op']))
        ctx.violation('%s [ArithmeticPT %s over a %s template, %s, params %s]' % (fs[0], expr, rc['atom'], rc['wrap'], rc['params']),
                      {'kind': 'c07-mixed-scalar', 'recipe': rc})
        return False
    return True


def mixed_scalar_tests(ctx):
    rng = ctx.fork('mixed-scalar')
    bad = 0
    n = ctx.n(70, 900)
    for _ in range(n):
        if not mixed_scalar_report(ctx, mixed_scalar_recipe(rng)):
            bad += 1
    ctx.disagreements += bad
    ctx.extra.setdefault('tests2', {'what': 'ArithmeticPT over a multi channel atomic template with a per-channel scalar mapping that '
                                            'mixes time dependent (affine in t) and constant entries: symbolic integral of every '
                                            'channel vs composite Simpson integration of the sampled real program (relative 1e-7). '
                                            'Test-level evidence, not covered by the Lean model.', 'cases': n, 'failures': bad})


# ------------------------------------------------------------------------------------------------
# python range() against the model's range arithmetic
# ------------------------------------------------------------------------------------------------

def range_arithmetic(ctx, bound: int, steps: int):
    triples = [(a, b, s) for a in range(-bound, bound + 1) for b in range(-bound, bound + 1)
               for s in range(-steps, steps + 1) if s != 0]
    answers = core.Lean.run([sx(['c07', 'range', a, b, s]) for a, b, s in triples])
    for (a, b, s), ans in zip(triples, answers):
        r = range(a, b, s)
        ctx.case('range %d %d %d' % (a, b, s), nontrivial=len(r) > 0)
        ln = int(ptgen._field(ans, 'len')[0])
        last = ptgen._field(ans, 'last')[0]
        cnt = int(ptgen._field(ans, 'count')[0])
        if ln != len(r) or (len(r) and int(last) != r[-1]) or (not len(r) and last != 'none') or max(cnt, 0) != len(r):
            ctx.drift('python range() vs QP.PT.pyRange', [a, b, s], [len(r), r[-1] if len(r) else None], str(ans))
    ctx.exhaustive_spaces.append('range(a, b, s) length / last element / ceiling count: all |a|,|b| <= %d, 0 < |s| <= %d (%d triples)'
                                 % (bound, steps, len(triples)))


# ------------------------------------------------------------------------------------------------
# run / replay
# ------------------------------------------------------------------------------------------------

def run(ctx: core.Ctx):
    ctx.rule = ('(1) ForLoopPT over five index dependent bodies (constant, table, function, index dependent duration, '
                'possibly empty repetition) for ALL ranges (a, b, c) in a box given as parameters (empty, single, dividing / '
                'non-dividing, negative step), plain and wrapped (sequence head / tail, mapping with renamed channels, '
                'repetition, nested loop whose range depends on the outer index); (2) random well-formed trees of the shared '
                'generator ptgen over all 13 classes built from the real qupulse classes (dyadic numbers; TimeReversalPT, '
                'which only implements the integral, thinned out); (3) all nestings of depth <= 3 over two atoms; '
                '(4) a single-fault malformed stream (closed forms still evaluated, nothing judged when create_program '
                'rejects); every case with pad_to; (4b) multi channel point templates with per-channel different (vector) entry '
                'voltages instantiated with a channel dropped that is not the last one (MappingPT or '
                'create_program(channel_mapping), further drops / renames, plain / sequence / repetition / iteration / atomic '
                'multi channel): quantities of the remaining channels and pad_to against the REAL program; (4c) half of the random '
                'trees outside the PF-14 class (no ArithmeticPT / ParallelChannelPT) with a scope entry literally called t '
                '(a parameter / loop index / mapped name renamed to t, or an extra value) plus 32 hand-made time dependent '
                'function templates next to a wait / level / index / count / mapping called t; (4d, test level) ArithmeticPT over a multi channel atomic template with a per-channel scalar mapping mixing time dependent (affine in t) and constant entries, all four operators and both operand orders, plain / sequence / repetition / mapping: symbolic integral of every channel vs composite Simpson integration of the real program; (5) shared objects / query history: one atom OBJECT (every atomic class, hand-made and '
                'random) used by several templates (two loops with different ranges, parallel channel, repetition, mapping, '
                'sequence, arithmetic, stand-alone), integral / initial_values / final_values / pad_to queried in varying '
                'orders and repeatedly, result dicts mutated by the caller in between: every answer must equal the answer of a '
                'fresh structurally equal template (which is judged like every other case). Non-trivial = a program is produced from a tree with more than one node; '
                'distinct by canonical request line')
    ctx.assumptions = [
        'IEEE-754 arithmetic is exact on the generated dyadic numbers (power-of-two segment lengths and divisors)',
        'sympy parses, substitutes, sums (Sum), integrates (affine integrands) and lambdifies the generated expressions '
        'according to their mathematical meaning',
        'function templates are affine in t in the modelled stream; non-affine ones are compared with an independent '
        'composite Simpson integration only (test-level)',
        'parameter assignments with negative durations / repetition counts or integers that are only approximately '
        'integral are accepted by create_program as empty / rounded pulses and are outside the quantifier (QP.C07.regular)',
        'a table whose last segment uses hold interpolation specifies its last entry as final value although the played '
        'voltage ends on the previous entry; there final_values is compared with the model only (class table-end)',
    ]
    for crec in ctx.corpus():
        replay(ctx, crec, from_corpus=True)
        ctx.corpus_replayed += 1
    range_arithmetic(ctx, ctx.n(10, 24), ctx.n(5, 9))
    lo, hi = (-2, 3) if ctx.quick else (-4, 6)
    steps = [-3, -2, -1, 1, 2, 3] if ctx.quick else [-4, -3, -2, -1, 1, 2, 3, 4, 7]
    descs = range_descs(lo, hi, steps)
    ctx.exhaustive_spaces.append('ForLoopPT ranges: all (a, b, c) with %d <= a, b <= %d, c in %s, for 5 bodies plain + one wrapped '
                                 'variant each: %d cases' % (lo, hi, steps, len(descs)))
    ex = ptgen.exhaustive_specs(3)
    for i, spec in enumerate(ex):
        descs.append({'family': 'exhaustive', 'seed': i, 'spec': spec})
    ctx.exhaustive_spaces.append('all nestings of depth <= 3 over two atoms with wrappers rep(2), rep(0 by parameter), iteration, '
                                 'mapping, scalar arithmetic, reversal, parallel channel and binary sequencing: %d trees' % len(ex))
    base = ctx.fork('random').getrandbits(48)
    depth = 4 if ctx.quick else 5
    for i in range(ctx.n(600, 12000)):
        descs.append({'family': 'random', 'seed': base + i, 'depth': depth, 't_param_p': 0.5 if i % 2 else 0.0})
    descs += func_t_descs(ctx)
    base = ctx.fork('malformed').getrandbits(48)
    for i in range(ctx.n(50, 1200)):
        descs.append({'family': 'malformed', 'seed': base + i})
    base = ctx.fork('point-drop').getrandbits(48)
    for i in range(ctx.n(160, 4000)):
        descs.append({'family': 'point-drop', 'seed': base + i, 'label': 'point-drop'})
    recs = run_descs(ctx, descs)
    for rec in recs:
        diffs, viols, known = assess(ctx, rec)
        if diffs or viols or known:
            ctx.disagreements += 1 if (diffs or viols) else 0
            report(ctx, rec, diffs, viols, known)
    shared_stream(ctx, ctx.n(120, 3000))
    simpson_tests(ctx)
    mixed_scalar_tests(ctx)
    replay_known(ctx)


def replay_known(ctx):
    """the recorded witness of every open known finding is replayed on the implementation"""
    for kf in ctx.findings.for_property(PID):
        w = kf.get('witness')
        if not w:
            continue
        for r in evaluate_given([w], label='known-finding'):
            _d, viols, known = assess(ctx, r, count=False)
            mine = [k for k in known if k['finding'] == kf['finding']]
            if mine:
                ctx.known_finding(kf['finding'], 'witness: %s: %s' % (WHAT.get(kf['finding'], kf.get('what', '')), mine[0]['what']))
            elif viols:
                ctx.violation('known-finding witness violates outside the recorded class: %s' % viols[0]['what'],
                              replay_record(r, viols[0]['what']))
            else:
                ctx.count('known-finding-no-longer-reproduces:' + kf['finding'])


def replay(ctx: core.Ctx, rec: dict, from_corpus: bool = False) -> bool:
    if rec.get('kind') == 'c07-simpson':
        sub = core.Ctx(ctx.pid, rec.get('tier', 'quick'), rec.get('seed', 0))
        sub.violations = ctx.violations
        simpson_tests(sub)
        return not ctx.violations
    if rec.get('kind') == 'c07-mixed-scalar':
        return mixed_scalar_report(ctx, rec['recipe'], count=from_corpus)
    if rec.get('kind') == 'c07-shared':
        outs = evaluate_scenarios(ctx, [{'scenario': rec['scenario'], 'seed': 0}])
        return handle_scenarios(ctx, outs, count=from_corpus)
    case = rec.get('case')
    if case is None:
        return True
    rs = evaluate_given([case], label='corpus' if from_corpus else 'replay')
    if not rs:
        return True
    r = rs[0]
    diffs, viols, known = assess(ctx, r, count=from_corpus)
    for k in known:
        note_known(ctx, k)
    expect = rec.get('expect_known')
    if from_corpus and expect and not any(k['finding'] == expect for k in known) and expect in open_findings(ctx):
        ctx.count('corpus-witness-no-longer-reproduces:' + expect)
    if viols:
        ctx.violation('%s [%s]' % (viols[0]['what'], summary(r)), replay_record(r, viols[0]['what']))
        return False
    if diffs:
        ctx.drift('replayed case: model and implementation differ', case, diffs[:3], 'see model')
    return True
