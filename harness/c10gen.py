"""Random pulse-template trees over ALL serialisable pulse-template classes, built from the real classes.

Self-contained generator for C10 (the shared `ptgen` was not available when this was written).

Every generated tree is constructible and instantiable with the parameter assignments produced by
`assignments()`. Conventions that keep trees valid:

* parameters come in three kinds, recognisable by their first letter:
    d…  strictly positive reals (durations, table times, measurement lengths)
    v…  arbitrary reals (voltages)                      n…  small non-negative integers (counts, ranges)
* `gen(depth, channels, atomic, dur)` returns a template with exactly `channels` as defined channels;
  with `atomic=True` it is atomic (usable inside AtomicMultiChannelPT / ArithmeticAtomicPT) and its
  duration is the expression `dur`.
* identifiers are put on random nodes; a named node is remembered in a pool and may be *re-used as the
  same Python object* by later parents (sharing), also across the roots of one forest.
"""
from __future__ import annotations

import random
import warnings
from typing import Any, Dict, List, Optional, Sequence, Tuple

NASTY_FLOATS = [0.1 + 0.2, 1 / 3, 2 / 3, 0.1, 1e-3, 2.675, 1.0000000000000002, 123456.789e-5, 0.7, 1.1]
RATIONALS = ['1/3', '7/3', '5/8', '2/3', '-1/3', '5/7', '22/7', '-7/4']     # exact constant fractions (as strings)
POS_RATIONALS = ['1/3', '7/3', '5/8', '2/3', '5/7', '3/2']
# loop ranges that differ only where CPython hashes collide: hash(-1) == hash(-2), hash(2**61) == hash(1),
# hash(2**61 - 1) == hash(0)  (sympy Integers hash like ints)
def colliding_ranges(n: str):
    return [[(4, 0, -1), (4, 0, -2)],
            [(n + ' + 3', 0, -1), (n + ' + 3', 0, -2)],
            [(n + ' + 4', n, -1), (n + ' + 4', n, -2)],
            [(-1, 3), (-2, 3)],
            [(-1, 3, 2), (-2, 3, 2)],
            [(3, -1, -1), (3, -2, -1)],
            [(n, -1, -1), (n, -2, -1)],
            [(0, 2 ** 61, 2 ** 60), (0, 1, 2 ** 60)],
            [(0, 2 ** 61 - 1, 2 ** 60), (0, 0, 2 ** 60)]]


WEIRD_IDS = ['pt %d', 'pt.%d', 'pt-%d', 'PT%d', u'pü%d', 'p_%d']


def _q():
    import qupulse.pulses as P
    from qupulse.pulses import (TablePT, PointPT, FunctionPT, ConstantPT, SequencePT, RepetitionPT, ForLoopPT,
                                MappingPT, AtomicMultiChannelPT, ParallelChannelPT, ArithmeticPT,
                                ArithmeticAtomicPT, TimeReversalPT, AbstractPT)
    return locals()


class Gen:
    def __init__(self, rng: random.Random, *, p_named: float = 0.35, p_share: float = 0.25,
                 weird_ids: bool = True, floats: bool = True, allow_abstract: bool = False,
                 classes: Optional[Sequence[str]] = None, amc_duration: bool = True,
                 nested_mapping: bool = True):
        self.rng = rng
        self.p_named = p_named
        self.p_share = p_share
        self.weird_ids = weird_ids
        self.floats = floats
        self.allow_abstract = allow_abstract
        self.amc_duration = amc_duration
        self.nested_mapping = nested_mapping
        self.classes = set(classes) if classes else None
        self.pool: List[Tuple[tuple, Any]] = []          # (key, template) of named templates
        self.n_id = 0
        self.n_par = {'d': 0, 'v': 0, 'n': 0}
        self.stats: Dict[str, int] = {}
        self.shared_uses = 0
        self.has_abstract = False
        self.tsize: Dict[int, Any] = {}                   # id(template) -> (template, size of its expansion as a tree)
        self.max_reuse_size = 25
        self.Q = _q()

    # -- small pieces -----------------------------------------------------------------------------
    def count(self, k):
        self.stats[k] = self.stats.get(k, 0) + 1

    def par(self, kind: str, fresh: float = 0.4) -> str:
        n = self.n_par[kind]
        if n == 0 or (self.rng.random() < fresh and n < 4):
            self.n_par[kind] = n + 1
            return '%s%d' % (kind, n)
        return '%s%d' % (kind, self.rng.randrange(n))

    def num(self):
        r = self.rng.random()
        if self.floats and r < 0.35:
            return self.rng.choice(NASTY_FLOATS) * self.rng.choice([1, -1, 2])
        if r < 0.6:
            return self.rng.randrange(-3, 4)
        return self.rng.randrange(-8, 9) / 4

    def rat(self, positive: bool = False) -> str:
        """an exact constant non-integer fraction, written as the user would: '7/3'"""
        self.count('with:rational-constant')
        return self.rng.choice(POS_RATIONALS if positive else RATIONALS)

    def const(self) -> str:
        """a constant as it appears inside a formula"""
        return self.rat() if self.rng.random() < 0.3 else repr(self.num())

    def vexpr(self, allow_t: bool = False):
        """a voltage: number, parameter or small formula (str / int / float)"""
        r = self.rng.random()
        if r < 0.1:
            return self.rat()
        if r < 0.3:
            return self.num()
        v = self.par('v')
        forms = ['{v}', '{v}*2', '{v} + 1', '{v}*{c}', '{v} - {w}', '{v}*{w}', 'sin({v})', 'Max({v}, {w})', '{v}**2',
                 '{c} + {v}', '{v}/3']
        if allow_t:
            forms += ['{v}*t', 't*{c}', 'sin(t) + {v}', '{v} + t/2']
        f = self.rng.choice(forms)
        return f.format(v=v, w=self.par('v'), c='(%s)' % self.const())

    def fresh_dur(self):
        r = self.rng.random()
        if r < 0.12:
            return self.rat(positive=True)
        if r < 0.3:
            return self.rng.choice([1, 2, 3, 1.5, 0.75, 2.5] + ([0.1 + 0.2, 1.1] if self.floats else []))
        d = self.par('d')
        return self.rng.choice(['{d}', '{d}', '{d}*2', '{d} + 1', '{d}/2']).format(d=d)

    @staticmethod
    def frac(dur, num, den):
        """the time dur*num/den as something a template accepts"""
        if isinstance(dur, (int, float)):
            return dur * num / den
        return '(%s)*%d/%d' % (dur, num, den)

    def meas(self, dur, force: bool = False):
        if not force and self.rng.random() < 0.55:
            return None
        out = []
        for _ in range(self.rng.randrange(1, 3)):
            name = 'm%d' % self.rng.randrange(3)
            begin = self.rng.choice([0, 0.25, self.frac(dur, 1, 4), self.par('d') + '/4', self.rat(positive=True)])
            length = self.rng.choice([0.5, self.frac(dur, 1, 2), self.par('d'), 0.1 + 0.2 if self.floats else 0.25,
                                      self.rat(positive=True)])
            out.append((name, begin, length))
        self.count('with:measurements')
        return out

    def cons(self, force: bool = False):
        """parameter constraints of every relation kind the constructor accepts (<, <=, >, >=, ==, Eq, Ne; strings and
        sympy relations; compound expressions on both sides). Satisfied by the regular assignments, violated by 5000."""
        if not force and self.rng.random() < 0.6:
            return None
        import sympy
        out = []
        for _ in range(self.rng.randrange(1, 3)):
            kind = self.rng.choice('dvn')
            p, q = self.par(kind), self.par(kind)
            form = self.rng.choice(['{p} < 1000', '{p} > -1000', '{p} <= {q} + 2000', '{p}*2 < 2500',
                                    'Ne({p}, 5000)', 'Ne({p}*2, {q} + 7000)', 'Ne({p} + {q}, -3000)',
                                    '{p}*2 + 1 <= {q}**2 + 5000', '{p} >= -{q} - 3000', '-{p} > -1000 - {q}/3',
                                    '{p}*2 == {q} + 3', 'Eq({p}, {q} + 1)', 'sym-ne', 'sym-le', 'sym-eq',
                                    '{p} == {p}', 'Eq({p} + {q}, {q} + {p})'])          # (decided on the spot: 'True')
            if p == q and ('==' in form or 'Eq' in form or form == 'sym-eq'):
                form = '{p} < 1000'            # (an equation sympy decides on the spot is PF-C10h; a one-variable equation
                #                                makes TablePT's consistency check raise TypeError - not a storage matter)
            if form == 'sym-ne':
                c = sympy.Ne(sympy.Symbol(p) * 3, sympy.Symbol(q) - 9000)
                self.count('with:constraint-ne')
            elif form == 'sym-le':
                c = sympy.Le(sympy.Symbol(p), sympy.Symbol(q) ** 2 + 4000)
            elif form == 'sym-eq':
                c = sympy.Eq(sympy.Symbol(p) * 2, sympy.Symbol(q) + 5)
                self.count('with:constraint-eq')
            else:
                c = form.format(p=p, q=q)
                if 'Ne(' in form:
                    self.count('with:constraint-ne')
                if '==' in form or 'Eq(' in form:
                    self.count('with:constraint-eq')
            out.append(c)
        self.count('with:constraints')
        return out

    def ident(self) -> Optional[str]:
        if self.rng.random() >= self.p_named:
            return None
        n = self.n_id
        self.n_id += 1
        if self.weird_ids and self.rng.random() < 0.2:
            return self.rng.choice(WEIRD_IDS) % n
        return 'id%d' % n

    def interp(self):
        return self.rng.choice(['hold', 'linear', 'jump', 'hold'])

    # -- leaves -----------------------------------------------------------------------------------
    def leaf(self, channels: List[str], dur):
        Q = self.Q
        kinds = ['const', 'table', 'point'] + (['func'] if len(channels) == 1 else [])
        if self.classes:
            kinds = [k for k in kinds if k in self.classes] or kinds
        kind = self.rng.choice(kinds)
        ident = self.ident()
        m = self.meas(dur)
        if kind == 'const':
            kw = {}
            if self.rng.random() < 0.3:
                kw['name'] = 'c%d' % self.rng.randrange(5)
            pt = Q['ConstantPT'](dur, {c: self.vexpr() for c in channels}, identifier=ident, measurements=m, **kw)
        elif kind == 'func':
            pt = Q['FunctionPT'](self.vexpr(allow_t=True), dur, channels[0], identifier=ident, measurements=m,
                                 parameter_constraints=self.cons())
        elif kind == 'table':
            entries = {}
            for c in channels:
                rows = [(0, self.vexpr())]
                if self.rng.random() < 0.7:
                    rows.append((self.frac(dur, 1, 2), self.vexpr(), self.interp()))
                rows.append((dur, self.vexpr(), self.interp()))
                entries[c] = rows
            pt = Q['TablePT'](entries, identifier=ident, measurements=m, parameter_constraints=self.cons())
        else:
            def val():
                if len(channels) > 1 and self.rng.random() < 0.5:
                    return [self.vexpr() for _ in channels]
                return self.vexpr()
            rows = [(0, val())]
            if self.rng.random() < 0.7:
                rows.append((self.frac(dur, 1, 3), val(), self.interp()))
            rows.append((dur, val(), self.interp()))
            pt = Q['PointPT'](rows, channels, identifier=ident, measurements=m, parameter_constraints=self.cons())
        self.count('class:' + kind)
        return self.remember(pt, channels, True, dur)

    # -- pool / sharing ---------------------------------------------------------------------------
    @staticmethod
    def key(channels, atomic, dur):
        return (tuple(sorted(channels)), bool(atomic), repr(dur) if atomic else None)

    def kids(self, pt) -> list:
        name = type(pt).__name__
        if name in ('SequencePulseTemplate', 'AtomicMultiChannelPulseTemplate'):
            return list(pt.subtemplates)
        if name in ('RepetitionPulseTemplate', 'ForLoopPulseTemplate'):
            return [pt.body]
        if name in ('MappingPulseTemplate', 'ParallelChannelPulseTemplate'):
            return [pt.template]
        if name == 'TimeReversalPulseTemplate':
            return [pt._inner]
        if name in ('ArithmeticPulseTemplate', 'ArithmeticAtomicPulseTemplate'):
            return [c for c in (pt.lhs, pt.rhs) if hasattr(c, 'identifier')]
        return []

    def size(self, pt) -> int:
        """number of nodes of the template expanded as a tree (shared objects counted at every use)"""
        k = id(pt)
        if k not in self.tsize or self.tsize[k][0] is not pt:
            self.tsize[k] = (pt, 1 + sum(self.size(c) for c in self.kids(pt)))     # (keeps pt alive: ids stay unique)
        return self.tsize[k][1]

    def remember(self, pt, channels, atomic, dur):
        self.size(pt)
        if pt.identifier is not None:
            self.pool.append((self.key(channels, True, dur) if atomic else self.key(channels, False, None), pt))
            self.count('named')
        return pt

    def reuse(self, channels, atomic, dur):
        if not self.pool or self.rng.random() >= self.p_share:
            return None
        if atomic:
            want = [p for k, p in self.pool if k == self.key(channels, True, dur)]
        else:
            cs = tuple(sorted(channels))
            want = [p for k, p in self.pool if k[0] == cs]
        want = [p for p in want if self.size(p) <= self.max_reuse_size]
        if not want:
            return None
        self.shared_uses += 1
        self.count('shared-use')
        return self.rng.choice(want)

    # -- composites -------------------------------------------------------------------------------
    def gen(self, depth: int, channels: List[str], atomic: bool = False, dur=None):
        Q = self.Q
        if dur is None:
            dur = self.fresh_dur()
        shared = self.reuse(channels, atomic, dur)
        if shared is not None:
            return shared
        if depth <= 0:
            return self.leaf(channels, dur)
        options = ['leaf', 'mapping']
        if not atomic:
            # (inside AtomicMultiChannelPT / ArithmeticAtomicPT only classes offering get_measurement_windows work)
            options += ['par', 'arith', 'timerev']
        if len(channels) > 1:
            options += ['amc', 'amc']
        options += ['arithatomic']
        if not atomic:
            options += ['seq', 'seq', 'rep', 'forloop', 'forloop']
        if self.allow_abstract and not atomic:
            options += ['abstract']
        if self.classes:
            options = [o for o in options if o in self.classes or o == 'leaf'] or ['leaf']
        kind = self.rng.choice(options)
        if kind == 'leaf':
            return self.leaf(channels, dur)
        ident = self.ident()
        pt = getattr(self, 'mk_' + kind)(depth, channels, atomic, dur, ident)
        self.count('class:' + kind)
        return self.remember(pt, channels, atomic, dur)

    def mk_seq(self, depth, channels, atomic, dur, ident):
        subs = [self.gen(depth - 1, channels) for _ in range(self.rng.randrange(1, 4))]
        return self.Q['SequencePT'](*subs, identifier=ident, measurements=self.meas(1), parameter_constraints=self.cons())

    def mk_rep(self, depth, channels, atomic, dur, ident):
        body = self.gen(depth - 1, channels)
        import numpy
        count = self.rng.choice([1, 2, 3, self.par('n'), self.par('n') + ' + 1', 0, numpy.int64(2), numpy.int32(3)])
        return self.Q['RepetitionPT'](body, count, identifier=ident, measurements=self.meas(1),
                                      parameter_constraints=self.cons())

    def mk_forloop(self, depth, channels, atomic, dur, ident):
        body = self.gen(depth - 1, channels)
        idx = sorted(p for p in body.parameter_names if p.startswith('v'))
        if not idx:
            body = self.Q['ParallelChannelPT'](body, {channels[0]: self.par('v') + ' + 1'})
            idx = sorted(p for p in body.parameter_names if p.startswith('v'))
        index = self.rng.choice(idx)
        n = self.par('n')
        rng_like = self.rng.choice([2, 3, (1, 3), (0, 4, 2), (3, 0, -1), (5, 0, -2), n, (n, n + ' + 2'),
                                    (0, n + '*2', 2), (n + ' + 3', n, -2), range(1, 4)])
        if self.rng.random() < 0.4:
            rng_like = self.rng.choice(self.rng.choice(colliding_ranges(n)))
            self.count('with:hash-colliding-range')
        return self.Q['ForLoopPT'](body, index, rng_like, identifier=ident, measurements=self.meas(1),
                                   parameter_constraints=self.cons())

    def mk_mapping(self, depth, channels, atomic, dur, ident, inner=None):
        # inner template lives on renamed channels / measurement names / parameters
        rename = {}
        inner_channels = list(channels)
        if self.rng.random() < 0.5:
            k = self.rng.randrange(len(channels))
            inner_channels[k] = 'i' + channels[k]
            rename['i' + channels[k]] = channels[k]
        if inner is None:
            if self.nested_mapping and depth > 1 and self.rng.random() < 0.3:
                inner = self.mk_mapping(depth - 1, inner_channels, atomic, dur, None)   # anonymous: gets flattened
                self.count('mapping:nested-anonymous')
            else:
                inner = self.gen(depth - 1, inner_channels, atomic, dur)
        kw = {}
        if rename:
            kw['channel_mapping'] = rename
        vs = sorted(p for p in inner.parameter_names if p.startswith('v'))
        if vs and self.rng.random() < 0.7:
            pm = {}
            for p in self.rng.sample(vs, min(len(vs), self.rng.randrange(1, 3))):
                pm[p] = self.rng.choice(['{q}', '{q}*2', '{q} + 1', '{q} - {r}', '{q}*{c}', '{c}']).format(
                    q=self.par('v'), r=self.par('v'), c=self.const())
            kw['parameter_mapping'] = pm
        ms = sorted(inner.measurement_names)
        if ms and self.rng.random() < 0.6:
            kw['measurement_mapping'] = {ms[0]: 'r' + ms[0]}
        if self.rng.random() < 0.3:
            kw['allow_partial_parameter_mapping'] = True
        return self.Q['MappingPT'](inner, identifier=ident, parameter_constraints=self.cons(), **kw)

    def mk_amc(self, depth, channels, atomic, dur, ident):
        cs = list(channels)
        self.rng.shuffle(cs)
        cut = self.rng.randrange(1, len(cs))
        parts = [sorted(cs[:cut]), sorted(cs[cut:])]
        if len(parts[1]) > 1 and self.rng.random() < 0.4:
            parts = [parts[0], parts[1][:1], parts[1][1:]]
        subs = [self.gen(depth - 1, p, True, dur) for p in parts]
        kw = {}
        if self.amc_duration and self.rng.random() < 0.4:
            kw['duration'] = dur
            self.count('amc:duration')
        return self.Q['AtomicMultiChannelPT'](*subs, identifier=ident, measurements=self.meas(dur),
                                              parameter_constraints=self.cons(), **kw)

    def mk_par(self, depth, channels, atomic, dur, ident):
        ch = self.rng.choice(channels)
        if len(channels) > 1 and self.rng.random() < 0.6:
            inner = self.gen(depth - 1, [c for c in channels if c != ch], atomic, dur)
        else:
            inner = self.gen(depth - 1, channels, atomic, dur)
        return self.Q['ParallelChannelPT'](inner, {ch: self.vexpr(allow_t=inner._is_atomic())}, identifier=ident)

    def mk_arith(self, depth, channels, atomic, dur, ident):
        inner = self.gen(depth - 1, channels, atomic, dur)
        allow_t = inner._is_atomic()
        if self.rng.random() < 0.5:
            scalar = self.vexpr(allow_t)
        else:
            scalar = {c: self.vexpr(allow_t) for c in self.rng.sample(channels, self.rng.randrange(1, len(channels) + 1))}
        if self.rng.random() < 0.6:
            return self.Q['ArithmeticPT'](inner, self.rng.choice(['+', '-', '*', '/']), scalar, identifier=ident)
        return self.Q['ArithmeticPT'](scalar, self.rng.choice(['+', '-', '*']), inner, identifier=ident)

    def mk_arithatomic(self, depth, channels, atomic, dur, ident):
        lhs = self.gen(depth - 1, channels, True, dur)
        sub = sorted(self.rng.sample(channels, self.rng.randrange(1, len(channels) + 1)))
        rhs = self.gen(depth - 1, sub, True, dur)
        with warnings.catch_warnings():
            warnings.simplefilter('ignore')
            return self.Q['ArithmeticAtomicPT'](lhs, self.rng.choice(['+', '-']), rhs, identifier=ident,
                                                measurements=self.meas(dur), silent_atomic=True)

    def mk_timerev(self, depth, channels, atomic, dur, ident):
        return self.Q['TimeReversalPT'](self.gen(depth - 1, channels, atomic, dur), identifier=ident)

    def mk_abstract(self, depth, channels, atomic, dur, ident):
        self.has_abstract = True
        return self.abstract(channels, ident or self.force_ident())

    def force_ident(self):
        n = self.n_id
        self.n_id += 1
        return 'id%d' % n

    def abstract(self, channels, ident, full: Optional[bool] = None):
        """an unlinked AbstractPT declaring a random subset of its interface"""
        kw = {}
        r = self.rng
        kw['defined_channels'] = set(channels)          # parents need these three
        # (an explicitly EMPTY declaration is a declaration too)
        kw['parameter_names'] = {self.par('v'), self.par('d')} if r.random() < 0.75 else set()
        kw['measurement_names'] = {'m%d' % r.randrange(3)} if r.random() < 0.7 else set()
        if full or r.random() < 0.5:
            kw['integral'] = {c: self.vexpr() for c in channels}
        if full or r.random() < 0.6:
            kw['duration'] = self.fresh_dur()
        self.count('class:abstract')
        return self.Q['AbstractPT'](ident, **kw)

    # -- entry points -----------------------------------------------------------------------------
    def root(self, depth: int, channels: List[str]):
        """a named root"""
        for _ in range(50):
            pt = self.gen(depth, channels)
            if pt.identifier is None:
                # give the root an identifier without going through `renamed` (which uses the code under test)
                wrapper = self.rng.choice(['timerev', 'seq', 'rep'])
                ident = self.force_ident()
                if wrapper == 'timerev':
                    pt = self.Q['TimeReversalPT'](pt, identifier=ident)
                elif wrapper == 'seq':
                    pt = self.Q['SequencePT'](pt, identifier=ident)
                else:
                    pt = self.Q['RepetitionPT'](pt, 1, identifier=ident)
                self.count('class:' + wrapper)
                self.remember(pt, channels, False, None)
            return pt
        raise RuntimeError('no root')

    def all_parameters(self):
        """every parameter name handed out so far (a superset of what any generated template needs)"""
        return ['%s%d' % (k, i) for k, n in self.n_par.items() for i in range(n)]

    def forest(self, n_roots: int, depth: int, channels: List[str]):
        roots = []
        for _ in range(n_roots):
            r = self.root(depth, channels)
            if all(r is not o for o in roots):
                roots.append(r)
        return roots


def assignments(rng: random.Random, names, n: int, violate: bool = False) -> List[Dict[str, Any]]:
    """parameter assignments respecting the naming convention (d positive, n small non-negative ints)"""
    out = []
    for k in range(n):
        a = {}
        for p in sorted(names):
            if p.startswith('d'):
                a[p] = rng.choice([1, 2, 0.5, 1.5, rng.uniform(0.3, 3.0), 0.1 + 0.2])
            elif p.startswith('n'):
                a[p] = rng.randrange(0, 4)
            else:
                a[p] = rng.choice([rng.uniform(-2, 2), rng.randrange(-3, 4), 0.1 + 0.2, 1 / 3])
        cand = sorted(p for p in a if not p.startswith('n'))      # (a huge loop count is no constraint test)
        if violate and cand:
            a[rng.choice(cand)] = 5000
        out.append(a)
    return out
