"""C19 — waveform-memory placement never damages a segment that is still in use.

Correspondence
  * decision level: the real `find_place_for_segments_in_memory` (and through it `find_positions`) is run
    on an exhaustive lattice of small memories, on random large layouts (signed and the driver's unsigned
    dtypes) and on a malformed stream; the same inputs go to the Lean model `QP.C19.findPlace`; the
    implementation's answer is judged by `QP.C19.placeSafeB` (proved equivalent to `PlaceSafe`).
  * history level: the real `TaborChannelPair` (imported with a stub `tabor_control`) is driven over a fake
    instrument that records TRAC:DEF / TRAC:SEL / TRAC:DATA / SEGM:DATA / TRAC:DEL; the ghost contents of
    every slot are reconstructed from the recorded writes and the executable invariant `QP.C19.invObsB`
    judges the driver's state after every operation; the bookkeeping is compared with `QP.C19.step`.
"""
from __future__ import annotations

import copy
import itertools
import re
import sys
import types

import core
from core import sx

# ---------------------------------------------------------------------------------------------
# imports of the code under verification (the driver needs a stub `tabor_control`)
# ---------------------------------------------------------------------------------------------

_IMPORTED = {}


def _imports():
    if _IMPORTED:
        return _IMPORTED
    if 'tabor_control' not in sys.modules:
        tc = types.ModuleType('tabor_control')
        tcd = types.ModuleType('tabor_control.device')

        class TEWXAwg:  # noqa
            pass
        tcd.TEWXAwg = TEWXAwg
        tc.device = tcd
        sys.modules['tabor_control'] = tc
        sys.modules['tabor_control.device'] = tcd
    import warnings
    with warnings.catch_warnings():
        warnings.simplefilter('ignore')
        import numpy as np
        from qupulse._program import tabor as ptabor
        from qupulse.hardware.awgs import tabor as dtabor
        from qupulse.program.loop import Loop
        from qupulse.program.waveforms import ConstantWaveform, MultiChannelWaveform
    _IMPORTED.update(np=np, ptabor=ptabor, dtabor=dtabor, Loop=Loop, ConstantWaveform=ConstantWaveform,
                     MultiChannelWaveform=MultiChannelWaveform)
    return _IMPORTED


ERR = {'RuntimeError': 'runtime_error', 'AssertionError': 'assertion', 'IndexError': 'index_error',
       'ValueError': 'value_error', 'KeyError': 'key_error'}


def _err_class(exc) -> str:
    return ERR.get(type(exc).__name__, 'other:' + type(exc).__name__)


# ---------------------------------------------------------------------------------------------
# decision level
# ---------------------------------------------------------------------------------------------
# a case is (hashes, refs, caps, total, new_hashes, new_lengths, dtype) with dtype 'i' (int64 everywhere)
# or 'u' (uint32 counters/capacities and uint64 lengths, as the driver passes them)

def place_impl(case):
    """Run the real function. Returns (answer, pure) with answer ['ok', w2s, amend, insert] | ['error', class, text]."""
    im = _imports()
    np = im['np']
    hashes, refs, caps, total, newh, newl, dt = case
    if dt == 'u':
        rt, ct, lt = np.uint32, np.uint32, np.uint64
    else:
        rt = ct = lt = np.int64
    a_h = np.array(hashes, dtype=np.int64)
    a_r = np.array(refs, dtype=rt)
    a_c = np.array(caps, dtype=ct)
    a_nh = np.array(newh, dtype=np.int64)
    a_nl = np.array(newl, dtype=lt)
    before = [a.copy() for a in (a_h, a_r, a_c, a_nh, a_nl)]
    import warnings
    try:
        with warnings.catch_warnings():
            warnings.simplefilter('ignore')
            w, am, ins = im['ptabor'].find_place_for_segments_in_memory(a_h, a_r, a_c, total, a_nh, a_nl)
        ans = ['ok', [int(x) for x in w], [int(bool(x)) for x in am], [int(x) for x in ins]]
    except Exception as exc:  # noqa
        ans = ['error', _err_class(exc), str(exc.args[0])[:40] if exc.args else '']
    pure = all(b.shape == a.shape and bool((b == a).all()) for a, b in zip((a_h, a_r, a_c, a_nh, a_nl), before))
    return ans, pure


def place_line(case, ans) -> str:
    hashes, refs, caps, total, newh, newl, _dt = case
    impl = ['ok', ans[1], ans[2], ans[3]] if ans[0] == 'ok' else ['error', ans[1].replace(':', '_')]
    return sx(['c19', 'check', list(hashes), list(refs), list(caps), total, list(newh), list(newl), impl])


def lattice(n_max, hash_vals, cap_vals, new_hash_vals, new_len_vals, m_max, totals):
    """Exhaustive small memories: every vector of slot hashes / capacities / reference flags, every list of
    at most m_max new segments."""
    news = []
    for m in range(m_max + 1):
        for hs in itertools.product(new_hash_vals, repeat=m):
            for ls in itertools.product(new_len_vals, repeat=m):
                news.append((hs, ls))
    for n in range(n_max + 1):
        for hs in itertools.product(hash_vals, repeat=n):
            for cs in itertools.product(cap_vals, repeat=n):
                for rs in itertools.product((0, 1), repeat=n):
                    for nh, nl in news:
                        for t in totals:
                            yield (hs, rs, cs, t, nh, nl, 'i')


def random_layout(rng, unsigned=False):
    n = rng.choice([0, 1, 2, 3, 5, 8, 13, 21, 40]) if rng.random() < 0.7 else rng.randrange(0, 60)
    m = rng.choice([0, 1, 2, 3, 4, 6, 9, 14])
    pool = rng.randrange(2, 3 + n + m)
    lens_pool = [192 + 16 * k for k in range(rng.choice([2, 3, 6, 20]))]
    hashes = [rng.randrange(pool) for _ in range(n)]
    caps = [rng.choice(lens_pool) for _ in range(n)]
    p_free = rng.choice([0.2, 0.5, 0.8])
    refs = [0 if rng.random() < p_free else rng.choice([1, 1, 1, 2, 3]) for _ in range(n)]
    if n and rng.random() < 0.5:
        refs[0] = 1                                   # the driver's idle segment
    if n and rng.random() < 0.3:
        for j in range(n - rng.randrange(1, min(n, 4) + 1), n):
            refs[j] = 0                               # trailing free slots
    newh = [rng.randrange(pool + 2) for _ in range(m)]
    if m > 1 and rng.random() < 0.3:
        newh[rng.randrange(m)] = newh[rng.randrange(m)]   # duplicates among the new segments
    newl = []
    for h in newh:
        if h in hashes and rng.random() < 0.8:
            newl.append(caps[hashes.index(h)])
        else:
            newl.append(rng.choice(lens_pool + [lens_pool[-1] + 16, lens_pool[0]]))
    used = sum(caps)
    need = sum(l + 16 for l in newl)
    k = rng.random()
    if k < 0.35:
        total = used + rng.randrange(0, need + 64)
    elif k < 0.6:
        # around the fragmentation boundary: capacity before the last referenced slot + what would be amended
        last = max([j for j, r in enumerate(refs) if r > 0], default=-1)
        total = sum(caps[:last + 1]) + rng.choice([0, need, need // 2, need - 1, need + 1, 16, 17, 15])
    elif k < 0.8:
        total = used + need + rng.randrange(0, 500)
    else:
        total = rng.randrange(0, used + need + 100)
    return (tuple(hashes), tuple(refs), tuple(caps), total, tuple(newh), tuple(newl), 'u' if unsigned else 'i')


def malformed(rng):
    """shape mismatches and degenerate values; the precondition `all current arrays have one length` is only
    exercised where numpy's answer does not depend on the data (refs vs capacities, new hashes vs new lengths)"""
    base = list(random_layout(rng))
    n, m = len(base[0]), len(base[4])
    k = rng.randrange(4)
    # (numpy accepts an *empty* boolean mask on any array, so the shapes are only broken on non-empty masks)
    if k == 0 and m >= 1:
        base[5] = tuple(base[5]) + (192,)                  # one length too many
    elif k == 1 and m >= 2:
        base[4] = tuple(base[4]) + (base[4][-1],)          # one length missing
    elif k == 2 and n >= 2:
        base[1] = tuple(base[1])[:-1]; base[0] = tuple(base[0])[:-1]   # capacities longer than hashes/refs
    else:
        base[3] = -rng.randrange(0, 400)                   # negative total capacity
    base[6] = 'i'
    return tuple(base)


def _shape_ok(case):
    return len(case[0]) == len(case[1]) == len(case[2]) and len(case[4]) == len(case[5])


def check_place(ctx, cases, label, collect=None):
    """Run implementation + model + judge on the cases. Returns the list of violating cases."""
    answers = []
    lines = []
    for case in cases:
        ans, pure = place_impl(case)
        answers.append((ans, pure))
        lines.append(place_line(case, ans))
    res = core.Lean.run(lines)
    bad = []
    for case, (ans, pure), line, r in zip(cases, answers, lines, res):
        if r[0] != 'res':
            raise core.MachineryError('driver: %r for %s' % (r, line[:200]))
        model, verdict = r[1], r[2]
        known = any(h in case[0] for h in case[4])
        ctx.case(line, nontrivial=len(case[4]) > 0 and len(case[0]) > 0)
        if ans[0] == 'ok':
            n_ins = sum(1 for t in ans[3] if t >= 0)
            n_am = sum(ans[2])
            ctx.count('%s:ok' % label)
            if n_ins:
                ctx.count('%s:with-insert' % label)
                exact = any(t >= 0 and case[2][t] == case[5][k] for k, t in enumerate(ans[3]))
                bigger = any(t >= 0 and case[2][t] > case[5][k] for k, t in enumerate(ans[3]))
                if exact:
                    ctx.count('%s:insert-same-length' % label)
                if bigger:
                    ctx.count('%s:insert-bigger-slot' % label)
            if n_am:
                ctx.count('%s:with-amend' % label)
            if known:
                ctx.count('%s:with-known' % label)
            if len(set(case[4])) < len(case[4]):
                ctx.count('%s:duplicate-new-segments' % label)
        else:
            ctx.count('%s:error:%s:%s' % (label, ans[1], ans[2][:14].replace(' ', '-')))
        rec = {'kind': 'place', 'case': [list(c) if isinstance(c, tuple) else c for c in case]}
        if not pure:
            ctx.violation('find_place_for_segments_in_memory modified its input arrays (%s)' % (ans[0],),
                          dict(rec, impl=ans, judge='inputs-modified'))
            bad.append(case)
            continue
        if ans[0] == 'ok':
            if verdict != 'ok':
                ctx.violation('unsafe placement: %s; memory hashes=%s refs=%s capacities=%s total=%s, new hashes=%s '
                              'lengths=%s -> waveform_to_segment=%s to_amend=%s to_insert=%s'
                              % (verdict, list(case[0]), list(case[1]), list(case[2]), case[3], list(case[4]),
                                 list(case[5]), ans[1], ans[2], ans[3]),
                              dict(rec, impl=ans, judge=verdict, model=model))
                bad.append(case)
                continue
            m_ok = (model[0] == 'ok' and [int(x) for x in model[1]] == ans[1]
                    and [int(x) for x in model[2]] == ans[2] and [int(x) for x in model[3]] == ans[3])
            if not m_ok:
                ctx.drift('find_place_for_segments_in_memory vs QP.C19.findPlace (result)', line, ans, model)
                if collect is not None:
                    collect.append(case)
        else:
            if not _shape_ok(case):
                # precondition violated: any refusal is fine
                if ans[1] != 'index_error' or model[0] != 'error':
                    ctx.drift('find_place_for_segments_in_memory vs QP.C19.findPlace (malformed input)', line, ans, model)
                continue
            m_err = model[0] == 'error' and model[1] == ans[1]
            if not m_err:
                ctx.drift('find_place_for_segments_in_memory vs QP.C19.findPlace (error case)', line, ans, model)
                if collect is not None:
                    collect.append(case)
    return bad


def shrink_place(ctx, case):
    """Greedy minimisation of a violating decision-level case (the judge must keep saying `violates`)."""
    def violates(cands):
        if not cands:
            return []
        out = []
        answers = [place_impl(c) for c in cands]
        lines = [place_line(c, a[0]) for c, a in zip(cands, answers)]
        res = core.Lean.run(lines)
        for c, (a, pure), r in zip(cands, answers, res):
            if (not pure) or (a[0] == 'ok' and r[2] != 'ok'):
                out.append(c)
        return out

    cur = case
    for _round in range(40):
        h, r, c, t, nh, nl, dt = cur
        cands = []
        for j in range(len(h)):
            cands.append((h[:j] + h[j + 1:], r[:j] + r[j + 1:], c[:j] + c[j + 1:], t, nh, nl, dt))
        for j in range(len(nh)):
            cands.append((h, r, c, t, nh[:j] + nh[j + 1:], nl[:j] + nl[j + 1:], dt))
        for j in range(len(r)):
            if r[j] > 1:
                cands.append((h, r[:j] + (1,) + r[j + 1:], c, t, nh, nl, dt))
        good = violates([tuple(tuple(x) if isinstance(x, (list, tuple)) else x for x in cand) for cand in cands])
        if not good:
            break
        cur = good[0]
    return cur


# ---------------------------------------------------------------------------------------------
# history level: the real TaborChannelPair over a recording fake instrument
# ---------------------------------------------------------------------------------------------

class _FakeMain:
    def send_query(self, q):
        return '1'


class FakeDevice:
    """Records what the driver sends and keeps the *instrument side* picture of the segment memory:
    `devlen[n]` (segment number -> defined length) and `content[n]` (segment number -> bytes last written)."""

    def __init__(self, np, total_capacity):
        self.np = np
        self.dev_properties = dict(max_arb_mem=2 * total_capacity, chan_per_part=2, min_seq_len=3,
                                   max_seq_len=16384, min_aseq_len=2)
        self.main_instrument = _FakeMain()
        self.devlen = {}
        self.content = {}
        self.sel = None
        self.pending = []
        self.anomalies = []
        self.n_cmds = 0

    # -- what TaborChannelPair calls -------------------------------------------------------------
    def send_cmd(self, cmd_str, paranoia_level=None):
        self.n_cmds += 1
        for part in cmd_str.split(';'):
            part = part.strip()
            m = re.fullmatch(r':?TRAC:DEF\s*(\d+)\s*,\s*(\d+)', part)
            if m:
                self.devlen[int(m.group(1))] = int(m.group(2))
                continue
            m = re.fullmatch(r':?TRAC:SEL\s*(\d+)', part)
            if m:
                self.sel = int(m.group(1))
                continue
            if re.fullmatch(r':?TRAC:DEL:ALL', part):
                self.devlen.clear(); self.content.clear(); self.pending.clear()
                continue
            m = re.fullmatch(r':?TRAC:DEL\s*(\d+)', part)
            if m:
                self.devlen.pop(int(m.group(1)), None)
                self.content.pop(int(m.group(1)), None)

    def send_query(self, q):
        return '1'

    def send_binary_data(self, pref, bin_dat, paranoia_level=None):
        assert pref == ':TRAC:DATA'
        self.pending.append((self.sel, self.np.array(bin_dat, dtype=self.np.uint16, copy=True)))

    def download_segment_lengths(self, seg_len_list, pref=':SEGM:DATA', paranoia_level=None):
        for k, l in enumerate(seg_len_list):
            self.devlen[k + 1] = int(l)

    def download_sequencer_table(self, *a, **k):
        pass

    def download_adv_seq_table(self, *a, **k):
        pass

    def select_channel(self, ch):
        pass

    def is_coupled(self):
        return False

    def sample_rate(self, ch):
        return 10 ** 9

    def amplitude(self, ch):
        return 2.0

    def offset(self, ch):
        return 0.0

    # -- resolution of the recorded writes into per-slot contents ---------------------------------
    def settle(self):
        """A data block written to segment n holds segment n, one filler quantum, segment n+1, … with the
        lengths the instrument was told afterwards (TRAC:DEF / SEGM:DATA)."""
        for first, data in self.pending:
            quanta = len(data) // 32
            q, k = 0, first
            while q < quanta:
                length = self.devlen.get(k)
                if length is None or length % 16:
                    self.anomalies.append('data for undefined segment %r' % k)
                    break
                nq = length // 16
                if q + nq > quanta:
                    self.anomalies.append('segment %d longer than the data written for it' % k)
                    self.content[k] = b'garbled-%d-%d' % (k, self.n_cmds)
                    break
                self.content[k] = data[q * 32:(q + nq) * 32].tobytes()
                q += nq + 1
                k += 1
        self.pending = []


class Ids:
    """canonical small integers for segment data (python's hash of bytes is randomised per process)"""

    def __init__(self):
        self.by_bytes = {}
        self.by_hash = {}

    def of_bytes(self, b):
        if b is None:
            return -999
        if b not in self.by_bytes:
            self.by_bytes[b] = len(self.by_bytes)
        return self.by_bytes[b]

    def of_segment(self, seg):
        i = self.of_bytes(seg.get_as_binary().tobytes())
        self.by_hash[hash(seg)] = i
        return i

    def of_hash(self, h):
        h = int(h)
        if h not in self.by_hash:
            self.by_hash[h] = -1000 - len(self.by_hash)
        return self.by_hash[h]


class Driven:
    """One real TaborChannelPair on a fake instrument."""

    def __init__(self, total, pool):
        im = _imports()
        self.im = im
        self.np = im['np']
        self.pool = pool
        self.total = total
        self.dev = FakeDevice(self.np, total)
        self.ids = Ids()
        self.cp = im['dtabor'].TaborChannelPair(self.dev, (1, 2), 'fake')
        self.idle = self.ids.of_segment(self.cp._idle_segment)
        self.dev.settle()
        self.captured = None
        self.decisions = []
        orig = self.cp._find_place_for_segments_in_memory

        def spy(segments, segment_lengths):
            self.captured = [(self.ids.of_segment(s), int(l)) for s, l in zip(segments, segment_lengths)]
            before = ([self.ids.of_hash(h) for h in self.cp._segment_hashes], [int(x) for x in self.cp._segment_references],
                      [int(x) for x in self.cp._segment_capacity])
            try:
                res = orig(segments, segment_lengths)
            except Exception as exc:
                self.decisions.append((before, self.captured, ['error', _err_class(exc), '']))
                raise
            self.decisions.append((before, self.captured, ['ok', [int(x) for x in res[0]], [int(bool(x)) for x in res[1]],
                                                           [int(x) for x in res[2]]]))
            return res
        self.cp._find_place_for_segments_in_memory = spy

    def program(self, wf_ids):
        im = self.im
        children = []
        for j in wf_ids:
            v, n = self.pool[j]
            wf = im['MultiChannelWaveform']([im['ConstantWaveform'].from_mapping(n, {'A': v}),
                                             im['ConstantWaveform'].from_mapping(n, {'B': -v})])
            children.append(im['Loop'](waveform=wf, repetition_count=1))
        return im['Loop'](children=children)

    def apply(self, op):
        """returns (outcome, model_op)"""
        cp = self.cp
        self.captured = None
        import warnings
        try:
            with warnings.catch_warnings():
                warnings.simplefilter('ignore')
                if op[0] == 'upload':
                    cp.upload('p%d' % op[1], self.program(op[3]), ('A', 'B'), (None, None),
                              (lambda x: x, lambda x: x), force=bool(op[2]))
                elif op[0] == 'remove':
                    cp.remove('p%d' % op[1])
                elif op[0] == 'free':
                    cp.free_program('p%d' % op[1])
                elif op[0] == 'cleanup':
                    cp.cleanup()
                elif op[0] == 'clear':
                    cp.clear()
                elif op[0] == 'arm':
                    if 'p%d' % op[1] in cp.programs:
                        cp.arm('p%d' % op[1])
            outcome = 'ok'
        except Exception as exc:  # noqa
            outcome = _err_class(exc)
        self.dev.settle()
        if op[0] == 'upload':
            mop = ['upload', op[1], bool(op[2]), [[i, l] for i, l in (self.captured or [])]]
        elif op[0] in ('remove', 'free'):
            mop = [op[0], op[1]]
        elif op[0] == 'arm':
            mop = None
        else:
            mop = [op[0]]
        return outcome, mop

    def state(self):
        cp = self.cp
        n = len(cp._segment_hashes)
        hashes = [self.ids.of_hash(h) for h in cp._segment_hashes]
        caps = [int(x) for x in cp._segment_capacity]
        lens = [int(x) for x in cp._segment_lengths]
        refs = [int(x) for x in cp._segment_references]
        contents = [self.ids.of_bytes(self.dev.content.get(k + 1)) for k in range(n)]
        progs = []
        for name, pm in cp._known_programs.items():
            segs = [self.ids.of_bytes(s.get_as_binary().tobytes()) for s in pm.program.get_sampled_segments()[0]]
            progs.append([int(name[1:]), [int(x) for x in pm.waveform_to_segment], segs])
        return hashes, caps, lens, refs, contents, progs


def random_history(rng, n_ops):
    lens = [192, 208, 224, 256, 320]
    pool = [((j + 1) / 32.0, rng.choice(lens)) for j in range(rng.choice([5, 8, 12]))]
    # a waveform that samples to exactly the idle segment of slot 0 (192 points of 0 V on both channels, no
    # markers): such a program segment is "known" at slot 0 and shares the idle segment's reference counter
    idle_wf = None
    if rng.random() < 0.6:
        idle_wf = 0
        pool[0] = (0.0, 192)
        if len(pool) > 1:
            pool[1] = (pool[1][0], 192)          # and an ordinary 192-point segment that would fit slot 0
    total = rng.choice([1000, 1300, 1700, 2400, 4000])
    ops = []
    names = rng.choice([2, 3, 4])
    live = set()                      # rough picture of the uploaded names (failed uploads are not tracked)
    if idle_wf is not None and rng.random() < 0.35:
        # targeted opening: a program sharing slot 0 comes and goes while another one stays, then an
        # unknown 192-point segment arrives
        other = rng.sample(range(1, len(pool)), min(3, len(pool) - 1))
        ops += [['upload', 0, 0, [idle_wf] + other[:1]], ['upload', 1, 0, other[1:2] or other[:1]],
                [rng.choice(['remove', 'free']), 0], ['upload', 0, 0, [1] + other[2:3]]]
        live = {0, 1}
    while len(ops) < n_ops:
        k = rng.random()
        name = rng.randrange(names)
        if live and k >= 0.5 and rng.random() < 0.75:
            name = rng.choice(sorted(live))
        if k < 0.5:
            wfs = rng.sample(range(len(pool)), rng.choice([1, 1, 2, 2, 3, 4]))
            if idle_wf is not None and idle_wf not in wfs and rng.random() < 0.3:
                wfs[rng.randrange(len(wfs))] = idle_wf
            force = int(rng.random() < (0.7 if name in live else 0.3))
            ops.append(['upload', name, force, wfs])
            live.add(name)
        elif k < 0.7:
            ops.append(['remove', name]); live.discard(name)
        elif k < 0.8:
            ops.append(['free', name]); live.discard(name)
        elif k < 0.9:
            ops.append(['cleanup'])
        elif k < 0.93:
            ops.append(['clear']); live.clear()
        else:
            ops.append(['arm', name])
    return {'kind': 'history', 'total': total, 'pool': [[v, n] for v, n in pool], 'ops': ops}


def run_history(hist):
    """Drive the real channel pair; returns per-operation records and the model request line."""
    d = Driven(hist['total'], [tuple(p) for p in hist['pool']])
    steps = []
    mops = []
    overflow_at = None
    for j, op in enumerate(hist['ops']):
        outcome, mop = d.apply(op)
        st = d.state()
        if mop is not None:
            mops.append(mop)
            steps.append({'op': op, 'outcome': outcome, 'state': st, 'anomalies': list(d.dev.anomalies)})
        if overflow_at is None and sum(st[1]) > hist['total']:
            overflow_at = j       # recorded capacities exceed the instrument's memory (observation, see notes)
    line = sx(['c19', 'history', hist['total'], d.idle, mops])
    return d, steps, line, overflow_at


def judge_lines(steps):
    out = []
    for s in steps:
        hashes, caps, lens, refs, contents, progs = s['state']
        out.append(sx(['c19', 'judge-inv', hashes, caps, lens, refs, contents, progs]))
    return out


def check_histories(ctx, hists, label):
    runs = [run_history(h) for h in hists]
    lines = []
    for d, steps, line, _ov in runs:
        lines.append(line)
        lines.extend(judge_lines(steps))
    res = core.Lean.run(lines) if lines else []
    pos = 0
    bad = []
    for hist, (d, steps, line, ov) in zip(hists, runs):
        trace = res[pos]
        verdicts = res[pos + 1:pos + 1 + len(steps)]
        pos += 1 + len(steps)
        if trace[0] != 'trace' or len(trace) - 1 != len(steps):
            raise core.MachineryError('driver: bad trace for %s' % line[:200])
        ctx.case(line, nontrivial=len(steps) > 2)
        ctx.count('%s:histories' % label)
        if ov is not None:
            ctx.count('%s:recorded-capacities-exceed-memory' % label)
        violated = False
        drifted = False
        for j, (s, v, t) in enumerate(zip(steps, verdicts, trace[1:])):
            ctx.count('%s:op:%s:%s' % (label, s['op'][0], s['outcome']))
            if v[0] != 'judge' or v[1] != 'ok' or s['anomalies']:
                if v[0] != 'judge':
                    what = 'reference-counter-negative' if min(s['state'][3], default=0) < 0 else 'state-not-representable'
                elif v[1] != 'ok':
                    what = v[1]
                else:
                    what = 'instrument-protocol: ' + '; '.join(s['anomalies'][:2])
                damage = 'does-not-hold-its-data' in what
                if not violated or damage:
                    ctx.violation('after operation %d (%s) of the history the driver state breaks the invariant: %s; '
                                  'hashes=%s refs=%s contents=%s programs=%s'
                                  % (j, s['op'], what, s['state'][0], s['state'][3], s['state'][4], s['state'][5]),
                                  dict(hist, judge=what, at=j))
                if not violated:
                    bad.append(hist)
                violated = True
                if damage:
                    break
                # a broken reference mark is the precursor: the history is followed further (judge only) up to
                # the moment at which a program actually points at a slot that does not hold its data
                drifted = True
                continue
            if drifted:
                continue          # the model is no longer followed, the judge still is
            # bookkeeping comparison with the model
            m_out = t[0] if isinstance(t[0], str) else t[0][1]
            mh, mc, ml, mr, mp, mg = t[1]
            hashes, caps, lens, refs, contents, progs = s['state']
            same = (m_out == s['outcome']
                    and [int(x) for x in mh] == hashes and [int(x) for x in mc] == caps
                    and [int(x) for x in ml] == lens and [int(x) for x in mr] == refs
                    and [int(x) for x in mg] == contents
                    and [[int(p[0]), [int(x) for x in p[1]]] for p in mp] == [[p[0], p[1]] for p in progs])
            if not same:
                ctx.drift('TaborChannelPair bookkeeping vs QP.C19.step', {'history': hist, 'at': j},
                          {'outcome': s['outcome'], 'state': s['state']}, core.sx(t))
                drifted = True
        # the decisions taken on the way are judged as well
        dl, dc = [], []
        for before, segs, ans in d.decisions:
            if min(before[1], default=0) < 0:
                continue
            case = (tuple(before[0]), tuple(before[1]), tuple(before[2]), hist['total'],
                    tuple(i for i, _ in segs), tuple(l for _, l in segs), 'u')   # the driver's dtypes
            dc.append((case, ans))
            dl.append(place_line(case, ans))
        if dl and not violated:
            for (case, ans), r in zip(dc, core.Lean.run(dl)):
                ctx.count('%s:decisions-judged' % label)
                if ans[0] == 'ok' and 0 in ans[1]:
                    ctx.count('%s:segment-known-at-idle-slot-0' % label)
                if r[0] != 'res':
                    raise core.MachineryError('driver: %r' % (r,))
                if ans[0] == 'ok' and r[2] != 'ok':
                    ctx.violation('unsafe placement in a reached driver state: %s; case=%s -> %s' % (r[2], case, ans),
                                  {'kind': 'place', 'case': [list(c) if isinstance(c, tuple) else c for c in case],
                                   'impl': ans, 'judge': r[2]})
    return bad


def shrink_history(ctx, hist):
    def violates(h):
        d, steps, line, _ov = run_history(h)
        if not steps:
            return False
        for s, v in zip(steps, core.Lean.run(judge_lines(steps))):
            if v[0] != 'judge' or v[1] != 'ok' or s['anomalies']:
                return True
        return False
    cur = dict(hist)
    changed = True
    while changed and len(cur['ops']) > 1:
        changed = False
        for j in range(len(cur['ops'])):
            cand = dict(cur, ops=cur['ops'][:j] + cur['ops'][j + 1:])
            if violates(cand):
                cur = cand
                changed = True
                break
    return cur


# ---------------------------------------------------------------------------------------------
# observation outside the property text (reported in the evidence, never a verdict)
# ---------------------------------------------------------------------------------------------

def capacity_observation(ctx):
    """upload(force=True) frees without cleanup(); the decision counts free space behind the last *used*
    slot, the driver appends behind the last *slot*: the recorded capacities can exceed the memory."""
    hist = {'kind': 'history', 'total': 1000, 'pool': [[0.1, 384], [0.2, 384], [0.3, 384]],
            'ops': [['upload', 0, 0, [0]], ['upload', 0, 1, [1]], ['upload', 0, 1, [2]]]}
    d, steps, line, ov = run_history(hist)
    caps = steps[-1]['state'][1] if steps else []
    ctx.extra['observation_capacity_accounting'] = {
        'history': hist['ops'], 'total_capacity': hist['total'], 'recorded_capacities': caps,
        'sum': sum(caps), 'exceeds_memory': sum(caps) > hist['total'],
        'note': 'outside the property text (no program loses its data); see notes/C19.md'}


# ---------------------------------------------------------------------------------------------
# run / replay
# ---------------------------------------------------------------------------------------------

QUICK_LATTICE = dict(n_max=3, hash_vals=(1, 2, 3), cap_vals=(192, 224), new_hash_vals=(1, 2, 4),
                     new_len_vals=(192, 208, 240), m_max=2, totals=(640, 1000))
THOROUGH_LATTICE = dict(n_max=3, hash_vals=(1, 2, 3), cap_vals=(192, 224), new_hash_vals=(1, 2, 3, 4),
                        new_len_vals=(192, 208, 224, 240), m_max=2, totals=(640, 1000))


def _chunks(it, size):
    buf = []
    for x in it:
        buf.append(x)
        if len(buf) >= size:
            yield buf
            buf = []
    if buf:
        yield buf


def _lattice_cases(ctx, spec, keep_fraction, rng):
    """All cases with at most 2 slots; of the 3-slot cases a seed-chosen fraction (1.0 = all)."""
    for case in lattice(**spec):
        if len(case[0]) >= 3 and keep_fraction < 1.0 and rng.random() >= keep_fraction:
            continue
        yield case


def _escalate(ctx, drifted):
    """failing-input search after a decision-level disagreement: the complete small lattice and more random
    layouts, every implementation answer judged"""
    ctx.count('search:escalations')
    rng = ctx.fork('search')
    for chunk in _chunks(lattice(**THOROUGH_LATTICE), 40000):
        if check_place(ctx, chunk, 'search-lattice'):
            return
        if ctx.elapsed() > (150 if ctx.quick else 900):
            break
    for _ in range(4 if ctx.quick else 10):
        if check_place(ctx, [random_layout(rng, unsigned=(rng.random() < 0.3)) for _ in range(5000)], 'search-random'):
            return
    # neighbourhood of the disagreeing inputs
    near = []
    for case in drifted[:50]:
        h, r, c, t, nh, nl, dt = case
        for dtot in (-17, -16, -1, 0, 1, 16, 17):
            near.append((h, r, c, t + dtot, nh, nl, dt))
        for j in range(len(r)):
            near.append((h, r[:j] + ((0 if r[j] else 1),) + r[j + 1:], c, t, nh, nl, dt))
    if near:
        check_place(ctx, near, 'search-near')


def run(ctx: core.Ctx):
    ctx.rule = ('decision: every memory of <=3 slots (hashes from 3 values, capacities from 2, reference flag 0/1) x every '
                'list of <=2 new segments (known / unknown / duplicate hashes, lengths equal to, between, above the '
                'capacities) x 2 total capacities (quick: all <=2-slot memories and a seed-chosen tenth of the 3-slot '
                'ones); random layouts of up to 60 slots / 14 new segments with totals around the no-memory and the '
                'fragmentation boundary, in int64 and in the driver\'s uint32/uint64 dtypes; malformed shapes. '
                'history: random upload(force)/remove/free_program/cleanup/clear/arm sequences on the real '
                'TaborChannelPair over a recording fake instrument. Non-trivial = at least one slot and one new segment '
                '(decision) / more than two operations (history); distinct by canonical request line')
    ctx.assumptions = [
        'hash collisions between different segments are absent (the driver identifies segment data by hash)',
        'integers are exact: lengths, capacities and their sums stay below 2^63 (no int64/uint64 overflow in the sums)',
        'fewer than 2^32 programs refer to one slot (uint32 reference counters do not overflow upwards)',
        'the fake instrument keeps segment data across SEGM:DATA / TRAC:DEF of other segments and splits a combined '
        'write by the lengths it is told afterwards',
    ]
    _imports()
    for rec in ctx.corpus():
        replay(ctx, rec, from_corpus=True)
        ctx.corpus_replayed += 1

    drifted = []
    rng = ctx.fork('lattice')
    spec = QUICK_LATTICE if ctx.quick else THOROUGH_LATTICE
    frac = 0.1 if ctx.quick else 1.0
    total_cases = 0
    violating = []
    for chunk in _chunks(_lattice_cases(ctx, spec, frac, rng), 40000):
        total_cases += len(chunk)
        violating += check_place(ctx, chunk, 'lattice', drifted)
        if len(violating) > 5:
            break
    ctx.exhaustive_spaces.append(
        'find_place_for_segments_in_memory: all memories with <=%d slots, hashes %s, capacities %s, refs {0,1}, <=%d new '
        'segments with hashes %s and lengths %s, totals %s%s (%d cases)'
        % (2 if ctx.quick else 3, spec['hash_vals'], spec['cap_vals'], spec['m_max'], spec['new_hash_vals'],
           spec['new_len_vals'], spec['totals'], ' + a tenth of the 3-slot memories' if ctx.quick else '', total_cases))

    rr = ctx.fork('random')
    n_rand = ctx.n(6000, 150000)
    for chunk in _chunks((random_layout(rr, unsigned=(k % 4 == 3)) for k in range(n_rand)), 30000):
        violating += check_place(ctx, chunk, 'random', drifted)
    if not ctx.quick:
        r4 = ctx.fork('lattice4')
        big = dict(THOROUGH_LATTICE, n_max=4, m_max=3)
        picked = (c for c in lattice(**big) if len(c[0]) == 4 and r4.random() < 0.004)
        for chunk in _chunks(itertools.islice(picked, 250000), 40000):
            violating += check_place(ctx, chunk, 'lattice4-sample', drifted)
    rm = ctx.fork('malformed')
    violating += check_place(ctx, [malformed(rm) for _ in range(ctx.n(300, 3000))], 'malformed', drifted)

    for case in violating[:3]:
        small = shrink_place(ctx, case)
        if small != case:
            check_place(ctx, [small], 'shrunk')
    if drifted and not violating:
        _escalate(ctx, drifted)

    rh = ctx.fork('history')
    n_hist, n_ops = ctx.n(300, 6000), ctx.n(20, 30)
    bad_h = []
    for chunk in _chunks((random_history(rh, n_ops) for _ in range(n_hist)), 150):
        bad_h += check_histories(ctx, chunk, 'history')
        if len(bad_h) > 3:
            break
    for hist in bad_h[:2]:
        small = shrink_history(ctx, hist)
        if len(small['ops']) < len(hist['ops']):
            check_histories(ctx, [small], 'shrunk-history')
    capacity_observation(ctx)


def replay(ctx: core.Ctx, rec: dict, from_corpus: bool = False) -> bool:
    _imports()
    kind = rec.get('kind')
    before = len(ctx.violations)
    if kind == 'place':
        c = rec['case']
        case = (tuple(c[0]), tuple(c[1]), tuple(c[2]), int(c[3]), tuple(c[4]), tuple(c[5]), c[6] if len(c) > 6 else 'i')
        check_place(ctx, [case], 'corpus' if from_corpus else 'replay')
    elif kind == 'history':
        hist = {'kind': 'history', 'total': rec['total'], 'pool': rec['pool'], 'ops': rec['ops']}
        check_histories(ctx, [hist], 'corpus' if from_corpus else 'replay')
    else:
        raise core.MachineryError('unknown replay record kind %r' % kind)
    return len(ctx.violations) == before
