"""C12 — expressions evaluate to the value of the mathematical expression they denote.

Correspondence: random formula trees (the generator's *written formula*) are printed as qupulse
strings (and, second construction path, built as sympy objects), evaluated by the real
`ExpressionScalar / ExpressionVector` (numbers, numpy arrays, exact-rational mode, after partial
substitution, repeatedly with different argument types, after a serialisation round trip, after
arithmetic with numbers, ordering comparisons) and sent as S-expressions to the Lean model `QP.C12`,
whose `eval` is the denotational semantics that judges every value the implementation returns.

The python reference evaluator in this file (`ref_eval`) is a *generator aid*: it classifies a case
as float-exact / toleranced / fragile (argument of a discontinuous function too close to the jump for
float evaluation) and supplies the absolute tolerance.  It never decides a verdict: that is the Lean
judge's answer on the implementation's value.
"""
from __future__ import annotations

import fractions
import json
import math
import pickle
import random

import core
from core import sx, as_frac

F = fractions.Fraction
U = 2.0 ** -52

# ---------------------------------------------------------------------------------------------
# the written formula: nested tuples
# ---------------------------------------------------------------------------------------------
# ('lit', Fraction, style)  style in 'int' | 'frac' | 'dec'
# ('var', name)
# ('neg'|'abs'|'floor'|'ceil'|'not', a)      ('pow', a, n)
# ('add'|'sub'|'mul'|'div'|'mod'|'min'|'max'|'lt'|'le'|'gt'|'ge'|'eq'|'ne'|'and'|'or', a, b)
# ('ite', c, a, b)            Piecewise((a, c), (b, True))
# ('index', name, i)          name[i]
# ('bindex', a, n, i)         Broadcast(a, (n,))[i]
# ('sum', i, lo, hi, body)    Sum(body, (i, lo, hi))
# ('fn', f, a)                transcendental, harness-only

UN = ('neg', 'abs', 'floor', 'ceil', 'not')
BIN = ('add', 'sub', 'mul', 'div', 'mod', 'min', 'max', 'lt', 'le', 'gt', 'ge', 'eq', 'ne', 'and', 'or')
FNS = ('sin', 'cos', 'exp', 'sqrt', 'log', 'tan', 'atan')


def lit(x, style=None):
    x = F(x)
    if style is None:
        style = 'int' if x.denominator == 1 else 'frac'
    return ('lit', x, style)


def var(name):
    return ('var', name)


def _dec(x: F) -> str:
    """finite decimal string of a non-negative fraction whose denominator divides a power of ten"""
    k = 0
    while (x * 10 ** k).denominator != 1:
        k += 1
        if k > 40:
            raise core.MachineryError('not a finite decimal: %s' % x)
    digits = str((x * 10 ** k).numerator).rjust(k + 1, '0')
    return digits[:-k] + '.' + digits[-k:] if k else digits + '.0'


def to_str(t) -> str:
    k = t[0]
    if k == 'lit':
        x, style = t[1], t[2]
        if x.denominator == 1:
            return str(x.numerator) if x >= 0 else '(%d)' % x.numerator
        if style == 'dec':
            s = _dec(abs(x))
            return s if x > 0 else '(-%s)' % s
        return '(%d/%d)' % (x.numerator, x.denominator) if x > 0 else '(-%d/%d)' % (-x.numerator, x.denominator)
    if k == 'var':
        return t[1]
    if k == 'neg':
        return '(-%s)' % to_str(t[1])
    if k == 'abs':
        return 'Abs(%s)' % to_str(t[1])
    if k == 'floor':
        return 'floor(%s)' % to_str(t[1])
    if k == 'ceil':
        return 'ceiling(%s)' % to_str(t[1])
    if k == 'not':
        return '(~%s)' % to_str(t[1])
    if k == 'pow':
        return '(%s)**(%d)' % (to_str(t[1]), t[2])
    if k in ('add', 'sub', 'mul', 'div'):
        return '(%s %s %s)' % (to_str(t[1]), {'add': '+', 'sub': '-', 'mul': '*', 'div': '/'}[k], to_str(t[2]))
    if k == 'mod':
        return 'Mod(%s, %s)' % (to_str(t[1]), to_str(t[2]))
    if k == 'min':
        return 'Min(%s, %s)' % (to_str(t[1]), to_str(t[2]))
    if k == 'max':
        return 'Max(%s, %s)' % (to_str(t[1]), to_str(t[2]))
    if k in ('lt', 'le', 'gt', 'ge'):
        return '(%s %s %s)' % (to_str(t[1]), {'lt': '<', 'le': '<=', 'gt': '>', 'ge': '>='}[k], to_str(t[2]))
    if k == 'eq':
        return 'Eq(%s, %s)' % (to_str(t[1]), to_str(t[2]))
    if k == 'ne':
        return 'Ne(%s, %s)' % (to_str(t[1]), to_str(t[2]))
    if k == 'and':
        return '(%s & %s)' % (to_str(t[1]), to_str(t[2]))
    if k == 'or':
        return '(%s | %s)' % (to_str(t[1]), to_str(t[2]))
    if k == 'ite':
        return 'Piecewise((%s, %s), (%s, True))' % (to_str(t[2]), to_str(t[1]), to_str(t[3]))
    if k == 'index':
        return '%s[%s]' % (t[1], to_str(t[2]))
    if k == 'bindex':
        return 'Broadcast(%s, (%d,))[%s]' % (to_str(t[1]), t[2], to_str(t[3]))
    if k == 'sum':
        return 'Sum(%s, (%s, %s, %s))' % (to_str(t[4]), t[1], to_str(t[2]), to_str(t[3]))
    if k == 'fn':
        return '%s(%s)' % (t[1], to_str(t[2]))
    if k == 'vecx':
        return '[' + ', '.join(to_str(s) for s in t[1:]) + ']'
    raise core.MachineryError('to_str: %r' % (t,))


def to_sexp(t):
    k = t[0]
    if k == 'lit':
        return t[1]
    if k == 'var':
        return ['var', t[1]]
    if k in UN:
        return [k, to_sexp(t[1])]
    if k == 'pow':
        return ['pow', to_sexp(t[1]), t[2]]
    if k in BIN:
        return [k, to_sexp(t[1]), to_sexp(t[2])]
    if k == 'ite':
        return ['ite', to_sexp(t[1]), to_sexp(t[2]), to_sexp(t[3])]
    if k == 'index':
        return ['index', ['var', t[1]], to_sexp(t[2])]
    if k == 'bindex':
        return ['index', ['bcast', to_sexp(t[1]), t[2]], to_sexp(t[3])]
    if k == 'sum':
        return ['sum', t[1], to_sexp(t[2]), to_sexp(t[3]), to_sexp(t[4])]
    if k == 'vecx':
        return ['vecx'] + [to_sexp(s) for s in t[1:]]
    raise core.MachineryError('to_sexp: %r' % (t,))


def to_sympy(t):
    """second construction path: the sympy object, not the string"""
    import sympy
    from qupulse.utils.sympy import Broadcast
    k = t[0]
    if k == 'lit':
        x, style = t[1], t[2]
        if x.denominator != 1 and style == 'dec':
            return sympy.Float(_dec(x)) if x > 0 else -sympy.Float(_dec(-x))
        return sympy.Rational(x.numerator, x.denominator)
    if k == 'var':
        return sympy.Symbol(t[1])
    a = [to_sympy(s) if isinstance(s, tuple) else s for s in t[1:]]
    if k == 'neg':
        return -a[0]
    if k == 'abs':
        return sympy.Abs(a[0])
    if k == 'floor':
        return sympy.floor(a[0])
    if k == 'ceil':
        return sympy.ceiling(a[0])
    if k == 'not':
        return sympy.Not(a[0])
    if k == 'pow':
        return sympy.Pow(a[0], a[1])
    if k == 'add':
        return a[0] + a[1]
    if k == 'sub':
        return a[0] - a[1]
    if k == 'mul':
        return a[0] * a[1]
    if k == 'div':
        return a[0] / a[1]
    if k == 'mod':
        return sympy.Mod(a[0], a[1])
    if k == 'min':
        return sympy.Min(a[0], a[1])
    if k == 'max':
        return sympy.Max(a[0], a[1])
    if k in ('lt', 'le', 'gt', 'ge', 'eq', 'ne'):
        return {'lt': sympy.Lt, 'le': sympy.Le, 'gt': sympy.Gt, 'ge': sympy.Ge, 'eq': sympy.Eq, 'ne': sympy.Ne}[k](a[0], a[1])
    if k == 'and':
        return sympy.And(a[0], a[1])
    if k == 'or':
        return sympy.Or(a[0], a[1])
    if k == 'ite':
        return sympy.Piecewise((a[1], a[0]), (a[2], True))
    if k == 'index':
        return sympy.IndexedBase(t[1])[a[1]]
    if k == 'bindex':
        return Broadcast(a[0], (t[2],))[a[2]]
    if k == 'sum':
        return sympy.Sum(a[3], (sympy.Symbol(t[1]), a[1], a[2]))
    if k == 'fn':
        return getattr(sympy, t[1])(a[1])
    raise core.MachineryError('to_sympy: %r' % (t,))


def tree_vars(t, bound=()):
    """free names of the written formula (in order of first occurrence)"""
    k = t[0]
    out = []

    def add(xs):
        for x in xs:
            if x not in out:
                out.append(x)
    if k == 'lit':
        return out
    if k == 'var':
        return [] if t[1] in bound else [t[1]]
    if k == 'index':
        add([t[1]] if t[1] not in bound else [])
        add(tree_vars(t[2], bound))
        return out
    if k == 'sum':
        add(tree_vars(t[2], bound))
        add(tree_vars(t[3], bound))
        add(tree_vars(t[4], bound + (t[1],)))
        return out
    for s in t[1:]:
        if isinstance(s, tuple):
            add(tree_vars(s, bound))
    return out


def tree_has(t, kinds) -> bool:
    if t[0] in kinds:
        return True
    return any(isinstance(s, tuple) and tree_has(s, kinds) for s in t[1:])


# the property quantifies over arithmetic, powers, min/max, floor/ceiling, trig/exp functions, indexing, broadcast,
# sums.  Piecewise, relations and boolean connectives are exercised as well, but for formulas that use them the
# implementation may refuse (raise): only a *wrong value* is a violation there.
EXTENDED = ('ite', 'lt', 'le', 'gt', 'ge', 'eq', 'ne', 'and', 'or', 'not')


def is_core(t) -> bool:
    return not tree_has(t, EXTENDED)


def tree_size(t) -> int:
    return 1 + sum(tree_size(s) for s in t[1:] if isinstance(s, tuple))


def subtrees(t):
    """direct numeric-valued children usable as replacements when shrinking"""
    return [s for s in t[1:] if isinstance(s, tuple)]


def tree_to_json(t):
    if t[0] == 'lit':
        return ['lit', str(t[1]), t[2]]
    return [t[0]] + [tree_to_json(s) if isinstance(s, tuple) else s for s in t[1:]]


def tree_from_json(j):
    if j[0] == 'lit':
        return ('lit', F(j[1]), j[2])
    return tuple([j[0]] + [tree_from_json(s) if isinstance(s, list) else s for s in j[1:]])


# ---------------------------------------------------------------------------------------------
# reference evaluation with running error analysis (generator aid, see module docstring)
# ---------------------------------------------------------------------------------------------

class RefError(Exception):
    def __init__(self, cls):
        super().__init__(cls)
        self.cls = cls


class Track:
    """what float evaluation of the written formula can be trusted to"""

    def __init__(self, floats: bool):
        self.floats = floats          # are floats involved at all (False: exact rational / integer inputs)
        self.scale = 1.0
        self.fragile = False
        self.err = 0.0                # running absolute error bound of the final value(s)
        self.big = False              # an intermediate left the comfortable range
        self.dead_error = False       # the body of an empty Sum is undefined (sympy may evaluate it while parsing)
        self.reversed_sum = False     # a Sum with upper limit < lower limit - 1 was evaluated (known finding PF-C12e)


class N:
    """a number with an absolute error bound for its float evaluation; `s`: the value is exact in floats however
    sympy re-associates the formula that computes it (only + - * of dyadic numbers, division by powers of two)"""
    __slots__ = ('v', 'e', 's')

    def __init__(self, v, e=0.0, s=None):
        self.v = v
        self.e = e
        self.s = (e == 0.0 and _repr_exact(v)) if s is None else s


def _pow2(x: F) -> bool:
    n, d = abs(x.numerator), x.denominator
    return n != 0 and n & (n - 1) == 0 and d & (d - 1) == 0


def _repr_exact(x: F) -> bool:
    """is x a double with room to spare (so that re-associated evaluation is exact as well)?"""
    d = x.denominator
    return d & (d - 1) == 0 and d <= 2 ** 24 and abs(x.numerator) < 2 ** 44


def _mk(tr: Track, v: F, e: float, safe=True) -> N:
    a = abs(float(v))
    if a > tr.scale:
        tr.scale = a
    if a > 1e12 or (v != 0 and a < 1e-12):
        tr.big = True
    if tr.floats and not (e == 0.0 and _repr_exact(v)):
        e = e + U * a
    elif not tr.floats:
        e = 0.0
    return N(v, e, bool(safe) and e == 0.0 and _repr_exact(v))


def _sc_un(tr, k, x, arg=None):
    if k == 'not':
        if not isinstance(x, bool):
            raise RefError('type_error')
        return not x
    if isinstance(x, bool):
        raise RefError('type_error')
    if k == 'neg':
        return N(-x.v, x.e, x.s)
    if k == 'abs':
        return N(abs(x.v), x.e, x.s)
    if k in ('floor', 'ceil'):
        fl = math.floor(x.v)
        if abs(x.v) >= 2 ** 53:
            # every double of this size is an integer: floor / ceiling return the (rounded) argument itself
            return N(F(fl if k == 'floor' else math.ceil(x.v)), x.e, False)
        if x.e > 0 or not x.s:
            dist = min(x.v - fl, fl + 1 - x.v) if x.v != fl else 0
            if dist <= 4 * x.e + 1e-9:
                tr.fragile = True
        r = fl if k == 'floor' else math.ceil(x.v)
        return _mk(tr, F(r), 0.0)
    if k == 'pow':
        n = arg
        if n >= 0:
            v = x.v ** n
            e = abs(n) * abs(float(x.v)) ** max(n - 1, 0) * x.e * 2 if n > 0 else 0.0
            return _mk(tr, v, e, x.s or n == 0)
        if x.v == 0:
            raise RefError('zero_division')
        if abs(float(x.v)) <= 4 * x.e:
            tr.fragile = True
        v = 1 / x.v ** (-n)
        e = abs(n) * abs(float(v)) * x.e / max(abs(float(x.v)) - x.e, 1e-300) * 2
        return _mk(tr, v, e, x.s and _pow2(x.v))
    raise core.MachineryError(k)


def _sc_bin(tr, k, x, y):
    if k in ('and', 'or'):
        if not (isinstance(x, bool) and isinstance(y, bool)):
            raise RefError('type_error')
        return (x and y) if k == 'and' else (x or y)
    if isinstance(x, bool) or isinstance(y, bool):
        raise RefError('type_error')
    a, b = x.v, y.v
    fa, fb = abs(float(a)), abs(float(b))
    both = x.s and y.s
    if k == 'add':
        return _mk(tr, a + b, x.e + y.e, both)
    if k == 'sub':
        return _mk(tr, a - b, x.e + y.e, both)
    if k == 'mul':
        return _mk(tr, a * b, fa * y.e + fb * x.e + x.e * y.e, both)
    if k == 'div':
        if b == 0:
            raise RefError('zero_division')
        if fb <= 4 * y.e:
            tr.fragile = True
            return _mk(tr, a / b, 0.0, False)
        r = a / b
        return _mk(tr, r, (x.e + abs(float(r)) * y.e) / (fb - y.e), both and _pow2(b))
    if k == 'mod':
        if b == 0:
            raise RefError('zero_division')
        q = a / b
        fl = math.floor(q)
        eq_ = (x.e + abs(float(q)) * y.e) / max(fb - y.e, 1e-300) if (x.e or y.e) else 0.0
        # (sympy rewrites Mod(x, m) with a numeric m through x/m: exact only for a power of two)
        if x.e or y.e or not (both and _pow2(b)):
            dist = min(q - fl, fl + 1 - q) if q != fl else 0
            if dist <= 4 * eq_ + 1e-9:
                tr.fragile = True
        return _mk(tr, a - b * fl, x.e + abs(fl) * y.e, both)
    if k == 'min':
        return N(min(a, b), max(x.e, y.e), both)
    if k == 'max':
        return N(max(a, b), max(x.e, y.e), both)
    if k in ('lt', 'le', 'gt', 'ge', 'eq', 'ne'):
        if (x.e or y.e or not both) and abs(float(a - b)) <= 4 * (x.e + y.e) + 1e-9:
            tr.fragile = True
        if k in ('eq', 'ne') and tr.floats and a == b:
            # exact equality of two numerically equal numbers of different exactness is sympy's business: since
            # sympy 1.13 Eq(Float(-16.0), Integer(-16)) is False (structural), numpy / python say True.  Wherever floats
            # (python, numpy or sympy Floats) are involved, a tie in Eq / Ne is therefore not judged.
            tr.fragile = True
        return {'lt': a < b, 'le': a <= b, 'gt': a > b, 'ge': a >= b, 'eq': a == b, 'ne': a != b}[k]
    raise core.MachineryError(k)


def _lift(tr, f, vals):
    """numpy broadcasting: scalars against lists of equal length"""
    n = None
    for v in vals:
        if isinstance(v, list):
            if n is None:
                n = len(v)
            elif n != len(v):
                raise RefError('shape')
    if n is None:
        return f(*vals)
    return [f(*[(v[j] if isinstance(v, list) else v) for v in vals]) for j in range(n)]


def _to_int(v):
    if isinstance(v, list) or isinstance(v, bool):
        raise RefError('type_error')
    if v.v.denominator != 1:
        raise RefError('not_integer')
    return int(v.v)


def ref_eval(tr: Track, t, env):
    """env: name -> N | bool | list of N"""
    k = t[0]
    if k == 'lit':
        x = t[1]
        if tr.floats and x.denominator != 1 and t[2] == 'dec':
            return _mk(tr, x, 0.0 if _repr_exact(x) else U * abs(float(x)))
        return _mk(tr, x, 0.0)
    if k == 'var':
        if t[1] not in env:
            raise RefError('unbound')
        return env[t[1]]
    if k in UN:
        a = ref_eval(tr, t[1], env)
        return _lift(tr, lambda x: _sc_un(tr, k, x), [a])
    if k == 'pow':
        a = ref_eval(tr, t[1], env)
        return _lift(tr, lambda x: _sc_un(tr, 'pow', x, t[2]), [a])
    if k in BIN:
        a = ref_eval(tr, t[1], env)
        b = ref_eval(tr, t[2], env)
        return _lift(tr, lambda x, y: _sc_bin(tr, k, x, y), [a, b])
    if k == 'ite':
        c = ref_eval(tr, t[1], env)
        a = ref_eval(tr, t[2], env)
        b = ref_eval(tr, t[3], env)

        def sel(cc, x, y):
            if not isinstance(cc, bool):
                raise RefError('type_error')
            return x if cc else y
        return _lift(tr, sel, [c, a, b])
    if k in ('index', 'bindex'):
        if k == 'index':
            if t[1] not in env:
                raise RefError('unbound')
            base = env[t[1]]
            i = ref_eval(tr, t[2], env)
        else:
            x = ref_eval(tr, t[1], env)
            n = t[2]
            if isinstance(x, list):
                if len(x) == n:
                    base = x
                elif len(x) == 1:
                    base = x * n
                else:
                    raise RefError('shape')
            else:
                base = [x] * n
            i = ref_eval(tr, t[3], env)
        if not isinstance(base, list):
            raise RefError('type_error')
        j = _to_int(i)
        if j < 0:
            j += len(base)
        if j < 0 or j >= len(base):
            raise RefError('index_error')
        return base[j]
    if k == 'sum':
        lo = _to_int(ref_eval(tr, t[2], env))
        hi = _to_int(ref_eval(tr, t[3], env))
        if hi < lo - 1:
            tr.reversed_sum = True
        if hi < lo:
            try:
                e2 = dict(env)
                e2[t[1]] = N(F(lo), 0.0)
                ref_eval(Track(tr.floats), t[4], e2)
            except RefError:
                tr.dead_error = True
        acc = N(F(0), 0.0)
        for j in range(lo, hi + 1):
            e2 = dict(env)
            e2[t[1]] = N(F(j), 0.0)
            v = ref_eval(tr, t[4], e2)
            acc = _lift(tr, lambda x, y: _sc_bin(tr, 'add', x, y), [acc, v])
        return acc
    if k == 'vecx':
        out = []
        for s in t[1:]:
            v = ref_eval(tr, s, env)
            if isinstance(v, list):
                raise RefError('type_error')
            out.append(v)
        return out
    raise core.MachineryError('ref_eval: %r' % (t,))


def plain(v):
    """drop the error bounds"""
    if isinstance(v, list):
        return [plain(x) for x in v]
    if isinstance(v, bool):
        return v
    return v.v


def err_of(v) -> float:
    if isinstance(v, list):
        return max([err_of(x) for x in v] + [0.0])
    if isinstance(v, bool):
        return 0.0
    return v.e


# ---------------------------------------------------------------------------------------------
# scopes: every name has a kind (how the value is handed to qupulse) and an exact value
# ---------------------------------------------------------------------------------------------
# kinds: 'int' 'float' 'npint' 'npfloat' 'tt' (TimeType) | arrays 'arrf' 'arri' 'arrtt' | malformed 'fraction'

SCALAR_KINDS = ('int', 'float', 'npint', 'npfloat', 'tt')


def _imports():
    import numpy
    import sympy
    from qupulse.expressions import ExpressionScalar, ExpressionVector, Expression
    from qupulse.utils.types import TimeType
    return numpy, sympy, ExpressionScalar, ExpressionVector, Expression, TimeType


def to_arg(kind, value):
    numpy, sympy, ES, EV, Expression, TimeType = _imports()
    if kind == 'int':
        return int(value)
    if kind == 'float':
        return float(value)
    if kind == 'npint':
        return numpy.int64(int(value))
    if kind == 'npfloat':
        return numpy.float64(float(value))
    if kind == 'tt':
        return TimeType.from_fraction(value.numerator, value.denominator)
    if kind == 'fraction':
        return F(value)
    if kind == 'bool':
        return bool(value)
    if kind == 'syint':
        return sympy.Integer(int(value))
    if kind == 'syfloat':
        return sympy.Float(float(value))
    if kind == 'syrat':
        return sympy.Rational(value.numerator, value.denominator)
    if kind == 'arrf':
        return numpy.array([float(x) for x in value], dtype=float)
    if kind == 'arri':
        return numpy.array([int(x) for x in value], dtype=numpy.int64)
    if kind == 'arrtt':
        return numpy.array([TimeType.from_fraction(x.numerator, x.denominator) for x in value], dtype=object)
    raise core.MachineryError('kind ' + kind)


def scope_args(env):
    return {x: to_arg(k, v) for x, (k, v) in env.items()}


def env_sexp(env):
    out = []
    for x, (k, v) in env.items():
        out.append([x, (['vec'] + list(v)) if isinstance(v, list) else v])
    return out


def env_ref(tr, env):
    out = {}
    for x, (k, v) in env.items():
        if isinstance(v, list):
            out[x] = [N(F(e), 0.0) for e in v]
        else:
            out[x] = N(F(v), 0.0)
    return out


def env_json(env):
    return {x: [k, [str(e) for e in v] if isinstance(v, list) else str(v)] for x, (k, v) in env.items()}


def env_from_json(j):
    return {x: (k, [F(e) for e in v] if isinstance(v, list) else F(v)) for x, (k, v) in j.items()}


def env_uses_floats(env) -> bool:
    return any(k in ('float', 'npfloat', 'arrf', 'fraction', 'syfloat', 'syrat') for k, _ in env.values())


class NotCanonical(Exception):
    pass


def canon(r):
    """observable value of an evaluation result: Fraction | bool | list of those (arrays flattened)"""
    numpy, sympy, ES, EV, Expression, TimeType = _imports()
    if isinstance(r, (bool, numpy.bool_)):
        return bool(r)
    if isinstance(r, TimeType):
        return F(int(r.numerator), int(r.denominator))
    if isinstance(r, (int, numpy.integer)):
        return F(int(r))
    if isinstance(r, (float, numpy.floating)):
        if not math.isfinite(float(r)):
            raise NotCanonical('nonfinite')
        return F(float(r))
    if isinstance(r, numpy.ndarray):
        return [canon(x) for x in r.flat]
    if isinstance(r, complex):
        if r.imag == 0:
            return canon(r.real)
        raise NotCanonical('complex')
    raise NotCanonical(type(r).__name__)


def val_sexp(v):
    if isinstance(v, list):
        return ['vec'] + list(v)
    return v


def parse_val(s):
    """model answer value -> Fraction | bool | list"""
    if isinstance(s, list) and s and s[0] == 'vec':
        return [parse_val(x) for x in s[1:]]
    if s == 'true':
        return True
    if s == 'false':
        return False
    return as_frac(s)


class ImplTimeout(BaseException):
    """the implementation call did not return within the limit (non-termination is an observable outcome)"""


TIME_LIMIT = 6.0
TIMEOUTS = [0]


class TooManyTimeouts(Exception):
    """several implementation calls did not return: stop generating (the violations are already recorded)"""


def _alarm(signum, frame):
    raise ImplTimeout()


def limited(fn, seconds=None):
    """run fn() under a wall-clock limit (the code under test is pure python: SIGALRM interrupts it)"""
    import signal
    old = signal.signal(signal.SIGALRM, _alarm)
    signal.setitimer(signal.ITIMER_REAL, seconds or TIME_LIMIT)
    try:
        return fn()
    finally:
        signal.setitimer(signal.ITIMER_REAL, 0)
        signal.signal(signal.SIGALRM, old)


def outcome(fn):
    """run an implementation call -> ('ok', canonical value) | ('exc', class name, message, variable) | ('odd', what)"""
    import warnings
    try:
        with warnings.catch_warnings():
            warnings.simplefilter('ignore')
            r = limited(fn)
    except ImplTimeout:
        TIMEOUTS[0] += 1
        return ('exc', 'timeout', 'no answer within %.0f s' % TIME_LIMIT, None)
    except RecursionError:
        return ('exc', 'RecursionError', '', None)
    except Exception as e:  # noqa
        return ('exc', type(e).__name__, str(e)[:200], getattr(e, 'variable', None))
    try:
        return ('ok', canon(r))
    except NotCanonical as e:
        return ('odd', str(e))


# ---------------------------------------------------------------------------------------------
# generators
# ---------------------------------------------------------------------------------------------

class Cfg:
    """what the generator may use"""

    def __init__(self, **kw):
        self.scalars = ['a', 'b', 'c', 'd']    # numeric names
        self.ints = ['n', 'm']                 # integer-valued names (sum bounds, indices)
        self.arrays = ['v', 'w']               # arrays that are indexed
        self.elementwise = []                  # arrays used element-wise ('t')
        self.numbers = 'dyadic'                # 'dyadic' | 'rational' | 'general' | 'int'
        self.lit_styles = ('int', 'frac', 'dec')
        self.index = True
        self.sums = True
        self.ite = True
        self.mod = True
        self.bindex = True
        self.sum_index_in_index = False        # Sum(v[i], ...) cannot be written as a string (see notes)
        self.fns = False
        self.floorceil = True
        self.array_len = 4
        self.__dict__.update(kw)


def gen_lit(rng, cfg):
    k = rng.random()
    if cfg.numbers == 'int' or k < 0.45:
        return lit(rng.choice([0, 1, 1, 2, 2, 3, 4, 5, 7, -1, -2, -3]))
    if cfg.numbers == 'dyadic':
        x = F(rng.randrange(-40, 41), rng.choice([2, 4, 8, 16]))
        return lit(x, rng.choice([s for s in cfg.lit_styles if s != 'int'] or ['frac']))
    if cfg.numbers == 'rational':
        x = F(rng.randrange(-30, 31), rng.choice([2, 3, 4, 5, 6, 7, 9, 10, 12]))
        return lit(x, 'frac')
    # general: decimals with a few digits, thirds
    if rng.random() < 0.5:
        x = F(rng.randrange(-5000, 5001), 1000)
        return lit(x, 'dec' if 'dec' in cfg.lit_styles else 'frac')
    return lit(F(rng.randrange(-30, 31), rng.choice([3, 6, 7, 9, 11])), 'frac')


def gen_int_expr(rng, cfg, bound=()):
    """small integer-valued formula for indices and sum bounds"""
    k = rng.random()
    names = list(cfg.ints) + list(bound)
    if k < 0.45 or not names:
        return lit(rng.choice([0, 0, 1, 1, 2, 3, -1]))
    if k < 0.8:
        return var(rng.choice(names))
    return (rng.choice(['add', 'sub']), var(rng.choice(names)), lit(rng.choice([1, 1, 2])))


def gen_bool(rng, cfg, depth, bound=()):
    k = rng.random()
    if depth <= 0 or k < 0.7:
        op = rng.choice(['lt', 'le', 'gt', 'ge', 'lt', 'gt', 'eq', 'ne'])
        return (op, gen_num(rng, cfg, depth - 1, bound), gen_num(rng, cfg, depth - 1, bound))
    if k < 0.8:
        return ('not', gen_bool(rng, cfg, depth - 1, bound))
    return (rng.choice(['and', 'or']), gen_bool(rng, cfg, depth - 1, bound), gen_bool(rng, cfg, depth - 1, bound))


def gen_leaf(rng, cfg, bound=()):
    names = list(cfg.scalars) + list(cfg.elementwise) * 2
    k = rng.random()
    if bound and k < 0.25:
        return var(rng.choice(bound))
    if k < 0.1 and cfg.ints:
        return var(rng.choice(cfg.ints))
    if k < 0.62 and names:
        return var(rng.choice(names))
    return gen_lit(rng, cfg)


def gen_num(rng, cfg, depth, bound=()):
    if depth <= 0:
        return gen_leaf(rng, cfg, bound)
    ops = [('add', 14), ('sub', 12), ('mul', 14), ('div', 9), ('neg', 4), ('pow', 6), ('min', 4), ('max', 4),
           ('abs', 4), ('leaf', 8)]
    if cfg.floorceil:
        ops += [('floor', 5), ('ceil', 4)]
    if cfg.mod:
        ops.append(('mod', 4))
    if cfg.ite:
        ops.append(('ite', 6))
    if cfg.index and cfg.arrays:
        ops.append(('index', 4))
    if cfg.bindex:
        ops.append(('bindex', 1))
    if cfg.sums and len(bound) < 2:
        ops.append(('sum', 3))
    if cfg.fns:
        ops.append(('fn', 14))
    total = sum(w for _, w in ops)
    r = rng.uniform(0, total)
    for op, w in ops:
        r -= w
        if r <= 0:
            break
    d = depth - 1
    if op == 'leaf':
        return gen_leaf(rng, cfg, bound)
    if op == 'mod':
        # the modulus is a non-zero literal (`t % period`): for two symbolic arguments with a common factor sympy's
        # automatic simplification is wrong for negative multiples (Mod(x, -7*x) -> x), see notes/C12.md
        m = gen_lit(rng, cfg)
        while m[1] == 0:
            m = gen_lit(rng, cfg)
        return ('mod', gen_num(rng, cfg, d, bound), m)
    if op in ('add', 'sub', 'mul', 'div', 'min', 'max'):
        return (op, gen_num(rng, cfg, rng.randint(0, d), bound), gen_num(rng, cfg, d, bound)) if rng.random() < 0.5 \
            else (op, gen_num(rng, cfg, d, bound), gen_num(rng, cfg, rng.randint(0, d), bound))
    if op in ('neg', 'floor', 'ceil', 'abs'):
        return (op, gen_num(rng, cfg, d, bound))
    if op == 'pow':
        return ('pow', gen_num(rng, cfg, min(d, 1), bound), rng.choice([2, 2, 3, -1, -2, 0, 1]))
    if op == 'ite':
        return ('ite', gen_bool(rng, cfg, min(d, 2), bound), gen_num(rng, cfg, d, bound), gen_num(rng, cfg, d, bound))
    if op == 'index':
        b = bound if cfg.sum_index_in_index else ()
        return ('index', rng.choice(cfg.arrays), gen_int_expr(rng, cfg, b))
    if op == 'bindex':
        n = rng.choice([2, 3])
        return ('bindex', gen_num(rng, cfg, min(d, 1), bound), n, lit(rng.randrange(-n, n)))
    if op == 'sum':
        i = 'i' if 'i' not in bound else 'j'
        lo = gen_int_expr(rng, cfg, ())
        hi = gen_int_expr(rng, cfg, ()) if rng.random() < 0.5 else ('add', lo, lit(rng.choice([0, 1, 2, 3])))
        return ('sum', i, lo, hi, gen_num(rng, cfg, min(d, 2), bound + (i,)))
    if op == 'fn':
        return ('fn', rng.choice(FNS), gen_num(rng, cfg, min(d, 2), bound))
    raise core.MachineryError(op)


def gen_value(rng, numbers):
    if numbers == 'int':
        return F(rng.randrange(-4, 7))
    if numbers == 'dyadic':
        return F(rng.randrange(-32, 33), rng.choice([1, 2, 4, 8]))
    if numbers == 'rational':
        return F(rng.randrange(-30, 31), rng.choice([1, 2, 3, 4, 5, 6, 7, 9, 10, 12]))
    return F(rng.uniform(-5, 5)) if rng.random() < 0.6 else F(round(rng.uniform(-5, 5), 3))


def gen_env(rng, tree, cfg, kinds, extra_names=()):
    """bind every free name of the formula; `kinds`: allowed scalar kinds"""
    env = {}
    L = cfg.array_len
    for x in list(tree_vars(tree)) + [n for n in extra_names]:
        if x in env:
            continue
        if x in cfg.ints or x in ('i', 'j'):
            ik = [k for k in kinds if k in ('int', 'npint')] or ['int']
            if 'tt' in kinds and not cfg.sums and not cfg.index:
                ik = ik + ['tt']
            env[x] = (rng.choice(ik), F(rng.randrange(-1, 4)))
        elif x in cfg.arrays:
            if kinds == ('tt',) or (set(kinds) <= {'int', 'tt'} and 'tt' in kinds and rng.random() < 0.5):
                env[x] = ('arrtt', [gen_value(rng, cfg.numbers) for _ in range(L)])
            elif cfg.numbers == 'int' or not any(k in kinds for k in ('float', 'npfloat')):
                env[x] = ('arri', [F(rng.randrange(-4, 7)) for _ in range(L)])
            else:
                env[x] = ('arrf', [gen_value(rng, cfg.numbers) for _ in range(L)])
        elif x in cfg.elementwise:
            if cfg.numbers == 'int':
                env[x] = ('arri', [F(rng.randrange(-4, 7)) for _ in range(L)])
            else:
                env[x] = ('arrf', [gen_value(rng, cfg.numbers) for _ in range(L)])
        else:
            k = rng.choice(kinds)
            v = gen_value(rng, cfg.numbers)
            if k in ('int', 'npint'):
                v = F(rng.randrange(-4, 7))
            env[x] = (k, v)
    return normalise_env(env)


def normalise_env(env):
    """a float argument *is* the double nearest to the drawn value: that double is the scope's value"""
    for x, (k, v) in list(env.items()):
        if k in ('float', 'npfloat', 'syfloat'):
            env[x] = (k, F(float(v)))
        elif k == 'syint':
            env[x] = (k, F(int(v)))
        elif k == 'arrf':
            env[x] = (k, [F(float(e)) for e in v])
    return env


# ---------------------------------------------------------------------------------------------
# engine: implementation outcome + written formula + scope  ->  Lean judge  ->  verdict
# ---------------------------------------------------------------------------------------------

PF27_LISTED = [False]     # set by run(): is PF-C12e an open known finding (then its class is not judged)
PF29_LISTED = [False]


INSPECTING = ('min', 'max', 'mod', 'floor', 'ceil', 'abs', 'lt', 'le', 'gt', 'ge', 'eq', 'ne')


def closed_sum_inspected(t, symbolic=(), inspected=False, bound=()) -> bool:
    """class (b) of PF-C12e / PF-C12f: a Sum all of whose free names are numbers for sympy (none as written, or all in
    `symbolic`, the names replaced by evaluate_symbolic) below a function that needs its sign or value"""
    if t[0] == 'sum':
        free = [x for x in tree_vars(t) if x not in bound]
        if inspected and all(x in symbolic for x in free):
            return True
        return (closed_sum_inspected(t[2], symbolic, inspected, bound) or closed_sum_inspected(t[3], symbolic, inspected, bound)
                or closed_sum_inspected(t[4], symbolic, inspected, bound + (t[1],)))
    ins = inspected or t[0] in INSPECTING
    return any(isinstance(x, tuple) and closed_sum_inspected(x, symbolic, ins or (t[0] == 'ite' and i == 1), bound)
               for i, x in enumerate(t[1:], 1))


def nested_sum_in_minmax(t) -> bool:
    """class of PF-C12f: a Min/Max with an argument that contains a Sum inside the body of another Sum"""
    def nested(u, inside):
        if u[0] == 'sum':
            if inside:
                return True
            return nested(u[4], True) or nested(u[2], inside) or nested(u[3], inside)
        return any(isinstance(x, tuple) and nested(x, inside) for x in u[1:])
    if t[0] in ('min', 'max') and (nested(t[1], False) or nested(t[2], False)):
        return True
    return any(isinstance(x, tuple) and nested_sum_in_minmax(x) for x in t[1:])


class Case:
    def __init__(self, family, tree, env, runner, floats, lenient=False, what='', extra=None):
        self.family = family
        self.tree = tree            # the written formula whose value the result must be
        self.env = env
        self.runner = runner        # (tree, env) -> implementation outcome
        self.floats = floats        # float arithmetic involved (tolerance from the error analysis) or exact
        self.lenient = lenient      # malformed input: an exception is an accepted answer
        self.what = what
        self.extra = extra or {}    # replay information of the family
        self.impl = None
        self.skip = None
        self.tol = F(0)
        self.scale = 1.0
        self.ref = None
        self.line = None
        self.spec = None            # formula spec sent to Lean (default: the tree itself)
        self.lean_env = None        # scope sent to Lean (default: env)


def prepare(case: Case):
    """reference evaluation: tolerance / fragility; builds the request line"""
    tr = Track(case.floats)
    try:
        v = ref_eval(tr, case.tree, env_ref(tr, case.env))
        case.ref = ('ok', plain(v))
        err = err_of(v)
    except RefError as e:
        case.ref = ('error', e.cls)
        err = 0.0
    case.scale = tr.scale
    case.dead_error = tr.dead_error
    if PF27_LISTED[0] and (tr.reversed_sum or closed_sum_inspected(case.tree, tuple(case.extra.get('symbolic', ())))):
        case.skip = 'known-PF-C12e'
    elif case.floats and (tr.fragile or (tr.big and not case.extra.get('huge'))):
        case.skip = 'fragile' if tr.fragile else 'range'
    elif tr.scale > 1e15 and not case.extra.get('huge'):
        case.skip = 'range'
    if case.floats and err > 0:
        case.tol = F(max(1000 * err, 1e-12 * tr.scale))
    else:
        case.tol = F(0)
    envs = env_sexp(case.lean_env if case.lean_env is not None else case.env)
    spec = case.spec if case.spec is not None else to_sexp(case.tree)
    if case.impl[0] == 'ok':
        case.line = sx(['c12', 'judge', envs, spec, val_sexp(case.impl[1]), case.tol])
    else:
        case.line = sx(['c12', 'eval', envs, spec])


def _close(a, b, tol) -> bool:
    if isinstance(a, list) and isinstance(b, list):
        return len(a) == len(b) and all(_close(x, y, tol) for x, y in zip(a, b))
    if isinstance(a, list):          # a scalar stands for the constant array (as in the Lean judge)
        return all(_close(x, b, tol) for x in a)
    if isinstance(b, list):
        return all(_close(a, y, tol) for y in b)
    if isinstance(a, bool) or isinstance(b, bool):
        return a is b
    return abs(a - b) <= tol


def verdict(ctx, case: Case, ans):
    """-> None (fine) | ('violation', text) | ('drift', text)"""
    fam = case.family
    head = ans[0] if isinstance(ans, list) else ans
    if head == 'err':
        raise core.MachineryError('driver rejected %s: %r' % (case.line[:300], ans))
    # sanity of the machinery itself: python reference and Lean model are the same function
    if head in ('ok', 'violates'):
        mv = parse_val(ans[1] if head == 'ok' else ans[2])
        if case.ref[0] != 'ok' or not _close(case.ref[1], mv, 0):
            raise core.MachineryError('python reference %r and Lean model %r differ on %s' % (case.ref, mv, case.line[:400]))
    elif head in ('undefined', 'error'):
        cls = (ans[1][1] if head == 'undefined' else ans[1])
        if case.ref[0] != 'error' or case.ref[1] != cls:
            raise core.MachineryError('python reference %r and Lean model %r differ on %s' % (case.ref, ans, case.line[:400]))
    impl = case.impl
    if impl[0] == 'ok':
        if head == 'ok':
            ctx.count(fam + ':agree' + (':exact' if case.tol == 0 else ':tol'))
            return None
        if head == 'undefined':
            ctx.count(fam + ':formula-undefined:' + ans[1][1])
            # (an index error or a division by zero can disappear by sympy's simplification, `0*v[9]`: no demand)
            if ans[1][1] == 'unbound' and case.extra.get('missing_in_variables'):
                return ('drift', 'implementation returned %r where the model has error %s' % (impl[1], ans[1][1]))
            return None
        if head == 'violates':
            mv = parse_val(ans[2])
            if case.floats and case.tol == 0 and _close(mv, impl[1], F(1e-13 * case.scale)):
                # sympy re-associated an exactly representable formula: a rounding in the last place
                ctx.count(fam + ':agree:rounding-after-reassociation')
                return None
            return ('violation', 'returned %s, the written formula has the value %s (tolerance %s)'
                    % (_show(impl[1]), _show(mv), float(case.tol)))
    if impl[0] == 'odd':
        if head == 'ok' and not is_core(case.tree):
            ctx.count(fam + ':unsupported-combination:non-number:' + impl[1])
            return None
        if head == 'ok':
            return ('violation', 'returned a %s where the written formula has the value %s' % (impl[1], _show(parse_val(ans[1]))))
        ctx.count(fam + ':non-number-for-undefined:' + impl[1])
        return None
    # exception
    exc = impl[1]
    if head == 'error':
        ctx.count(fam + ':both-error:%s/%s' % (ans[1], exc))
        if exc == 'ExpressionVariableMissingException' and impl[3] is not None and impl[3] in case.env:
            return ('violation', 'reports variable %r as missing although the scope binds it' % (impl[3],))
        return None
    if case.lenient:
        ctx.count(fam + ':rejected:' + exc)
        return None
    if not is_core(case.tree):
        ctx.count(fam + ':unsupported-combination:' + exc)
        return None
    if getattr(case, 'dead_error', False):
        ctx.count(fam + ':undefined-body-of-empty-sum:' + exc)
        return None
    if PF29_LISTED[0] and exc == 'ValueError' and 'not comparable' in impl[2] and tree_has(case.tree, ('sum',)) \
            and tree_has(case.tree, ('min', 'max')):
        ctx.count(fam + ':suppressed-known-PF-C12f')
        return None
    return ('violation', 'raised %s (%s) where the written formula has the value %s'
            % (exc, impl[2][:120], _show(parse_val(ans[1]))))


def _show(v):
    if isinstance(v, list):
        return '[' + ', '.join(_show(x) for x in v[:8]) + (', …' if len(v) > 8 else '') + ']'
    return str(v)


def case_replay(case: Case) -> dict:
    d = {'family': case.family, 'tree': tree_to_json(case.tree), 'formula': _safe_str(case.tree),
         'env': env_json(case.env), 'impl': [str(x) for x in case.impl]}
    d.update(case.extra)
    return d


def _safe_str(t):
    try:
        return to_str(t)
    except Exception:  # noqa
        return repr(t)


def shrink(ctx, case: Case, rebuild):
    """greedy structural shrinking while the verdict stays a violation. `rebuild(tree, env)` -> Case"""
    best = case
    attempts = 0

    def candidates(t):
        # promote a numeric child; replace a child by a smaller one, recursively
        k = t[0]
        kids = [i for i, s in enumerate(t) if i > 0 and isinstance(s, tuple)]
        numeric_root = k not in ('lt', 'le', 'gt', 'ge', 'eq', 'ne', 'and', 'or', 'not')
        for i in kids:
            s = t[i]
            if numeric_root and s[0] not in ('lt', 'le', 'gt', 'ge', 'eq', 'ne', 'and', 'or', 'not') and k not in ('sum', 'index', 'bindex'):
                yield s
            elif k == 'sum' and i == 4:
                pass
            elif k == 'ite' and i in (2, 3):
                yield s
        for i in kids:
            for c in candidates(t[i]):
                if (c[0] in ('lt', 'le', 'gt', 'ge', 'eq', 'ne', 'and', 'or', 'not')) == (t[i][0] in ('lt', 'le', 'gt', 'ge', 'eq', 'ne', 'and', 'or', 'not')):
                    yield t[:i] + (c,) + t[i + 1:]
        for i in kids:
            if t[i][0] not in ('lit', 'var') and t[i][0] not in ('lt', 'le', 'gt', 'ge', 'eq', 'ne', 'and', 'or', 'not'):
                yield t[:i] + (lit(1),) + t[i + 1:]

    improved = True
    while improved and attempts < 60:
        improved = False
        for cand in candidates(best.tree):
            if attempts >= 60:
                break
            if tree_size(cand) >= tree_size(best.tree):
                continue
            attempts += 1
            try:
                env = {x: kv for x, kv in best.env.items() if x in tree_vars(cand)}
                c2 = rebuild(cand, env)
                if c2 is None:
                    continue
                prepare(c2)
                if c2.skip:
                    continue
                ans = core.Lean.run([c2.line])[0]
                v = verdict(core.Ctx(ctx.pid, ctx.tier, ctx.seed), c2, ans)
            except core.MachineryError:
                continue
            except Exception:  # noqa
                continue
            if v and v[0] == 'violation':
                best = c2
                best._verdict = v
                improved = True
                break
    return best


def run_cases(ctx, cases, rebuild=None):
    """prepare, ask Lean once, give verdicts; returns number of violations"""
    live = []
    for c in cases:
        prepare(c)
        if c.skip:
            ctx.count(c.family + ':skipped-' + c.skip)
            continue
        live.append(c)
    answers = core.Lean.run([c.line for c in live])
    # the known-finding class predicate exists twice (here and as QP.C12.InKnownClassClosedSum): they must agree
    cls = core.Lean.run([sx(['c12', 'known-class', list(c.extra.get('symbolic', ())), to_sexp(c.tree)]) for c in cases])
    for c, a in zip(cases, cls):
        if (a == 'true') != closed_sum_inspected(c.tree, tuple(c.extra.get('symbolic', ()))):
            raise core.MachineryError('known-finding class: harness and Lean predicate differ on %s' % _safe_str(c.tree))
    bad = 0
    for c, ans in zip(live, answers):
        nontrivial = c.impl[0] == 'ok' and tree_size(c.tree) > 1
        ctx.case(c.line, nontrivial=nontrivial)
        ctx.count(c.family + ':cases')
        v = verdict(ctx, c, ans)
        if v is None:
            continue
        ctx.disagreements += 1
        if v[0] == 'drift':
            ctx.drift(c.family, c.line[:500], str(c.impl)[:200], str(ans)[:200])
            continue
        bad += 1
        own = getattr(c, 'rebuild', None)
        if bad <= 3 and own is not False and (own or rebuild) is not None:
            small = shrink(ctx, c, own or rebuild)
            if small is not c:
                c, v = small, small._verdict
        ctx.violation('%s %s: %s %s with %s' % (c.family, c.what, _safe_str(c.tree), v[1],
                                                {x: (k, _show(val)) for x, (k, val) in c.env.items()}),
                      case_replay(c))
    return bad


# ---------------------------------------------------------------------------------------------
# python mirrors used for the reference value only (cross-checked against Lean on every case)
# ---------------------------------------------------------------------------------------------

def py_subst(t, sigma):
    """simultaneous substitution as the code does it: a summation index shadows, no renaming"""
    k = t[0]
    if k == 'lit':
        return t
    if k == 'var':
        return sigma.get(t[1], t)
    if k == 'index':
        base = sigma.get(t[1])
        if base is not None:
            raise core.MachineryError('array names are not substituted by formulas')
        return ('index', t[1], py_subst(t[2], sigma))
    if k == 'sum':
        inner = {x: s for x, s in sigma.items() if x != t[1]}
        return ('sum', t[1], py_subst(t[2], sigma), py_subst(t[3], sigma), py_subst(t[4], inner))
    return tuple([k] + [py_subst(s, sigma) if isinstance(s, tuple) else s for s in t[1:]])


PYOPS = ('add', 'radd', 'sub', 'rsub', 'mul', 'rmul', 'truediv', 'rtruediv', 'floordiv', 'rfloordiv')


def py_build(op, self_t, other_t):
    if op == 'add':
        return ('add', self_t, other_t)
    if op == 'radd':
        return ('add', other_t, self_t)
    if op == 'sub':
        return ('sub', self_t, other_t)
    if op == 'rsub':
        return ('sub', other_t, self_t)
    if op == 'mul':
        return ('mul', self_t, other_t)
    if op == 'rmul':
        return ('mul', other_t, self_t)
    if op == 'truediv':
        return ('div', self_t, other_t)
    if op == 'rtruediv':
        return ('div', other_t, self_t)
    if op == 'floordiv':
        return ('floor', ('div', self_t, other_t))
    if op == 'rfloordiv':
        return ('floor', ('div', other_t, self_t))
    raise core.MachineryError(op)


def apply_pyop(op, e, other):
    if op == 'add':
        return e + other
    if op == 'radd':
        return other + e
    if op == 'sub':
        return e - other
    if op == 'rsub':
        return other - e
    if op == 'mul':
        return e * other
    if op == 'rmul':
        return other * e
    if op == 'truediv':
        return e / other
    if op == 'rtruediv':
        return other / e
    if op == 'floordiv':
        return e // other
    if op == 'rfloordiv':
        return other // e
    raise core.MachineryError(op)


# ---------------------------------------------------------------------------------------------
# families: each `mk_*` runs the implementation on one case and returns the Case
# ---------------------------------------------------------------------------------------------

def make_expr(tree, build):
    numpy, sympy, ES, EV, Expression, TimeType = _imports()
    if build == 'sympy':
        return ES(to_sympy(tree))
    return ES(to_str(tree))


def mk_eval(tree, env, extra):
    """numeric / exact evaluation of a scalar expression; extra: mode, build, family"""
    mode = extra.get('mode', 'numeric')
    build = extra.get('build', 'string')
    args = scope_args(env)

    def run():
        e = make_expr(tree, build)
        if mode == 'exact':
            return e.evaluate_with_exact_rationals(args)
        return e.evaluate_in_scope(args)
    floats = not (mode == 'exact' and not env_uses_floats(env))
    c = Case(extra.get('family', 'eval'), tree, env, None, floats, lenient=extra.get('lenient', False),
             what='%s evaluation (%s-built)' % (mode, build), extra=dict(extra, kind='eval'))
    c.impl = outcome(run)
    return c


def mk_partial(tree, env, extra):
    """evaluate_symbolic with numbers in the recorded group order, numeric evaluation of the last group"""
    groups = extra['groups']
    build = extra.get('build', 'string')
    groups = [[x for x in g if x in env] for g in groups]

    def run():
        e = make_expr(tree, build)
        for g in groups[:-1]:
            e = e.evaluate_symbolic({x: to_arg(*env[x]) for x in g})
        last = {x: to_arg(*env[x]) for x in groups[-1]}
        if extra.get('final') == 'exact':
            return e.evaluate_with_exact_rationals(last)
        return e.evaluate_in_scope(last)
    floats = not (extra.get('final') == 'exact' and not env_uses_floats(env))
    c = Case('partial', tree, env, None, floats, what='partial substitution order %s' % (groups,),
             extra=dict(extra, kind='partial', symbolic=[x for g in groups[:-1] for x in g]))
    c.spec = ['partial', [env_sexp({x: env[x] for x in g}) for g in groups[:-1]], to_sexp(tree)]
    c.lean_env = {x: env[x] for x in groups[-1]}
    c.impl = outcome(run)
    return c


def mk_subst(tree, env, extra):
    """evaluate_symbolic with formulas (simultaneous), then numeric evaluation"""
    sigma = {x: tree_from_json(j) for x, j in extra['sigma'].items()}
    how = extra.get('how', 'str')
    numpy, sympy, ES, EV, Expression, TimeType = _imports()

    def run():
        e = make_expr(tree, 'string')
        repl = {}
        for x, s in sigma.items():
            repl[x] = to_str(s) if how == 'str' else (ES(to_str(s)) if how == 'expr' else to_sympy(s))
        e = e.evaluate_symbolic(repl)
        return e.evaluate_in_scope(scope_args(env))
    result_tree = py_subst(tree, sigma)
    c = Case('subst', result_tree, env, None, True, what='simultaneous substitution %s' % {x: to_str(s) for x, s in sigma.items()},
             extra=dict(extra, kind='subst', tree_in=tree_to_json(tree)))
    c.spec = ['subst', [[x, to_sexp(s)] for x, s in sigma.items()], to_sexp(tree)]
    c.impl = outcome(run)
    return c


def other_operand(okind, ovalue, otree):
    """the non-expression operand of an arithmetic operator"""
    numpy, sympy, ES, EV, Expression, TimeType = _imports()
    if okind == 'expr':
        return ES(to_str(otree))
    if okind == 'sympy':
        return to_sympy(otree)
    return to_arg(okind, ovalue)


def mk_arith(tree, env, extra):
    """self ⊕ other through the operator methods of ExpressionScalar; `tree` is self"""
    op = extra['op']
    okind = extra['okind']
    otree = tree_from_json(extra['other'])

    def run():
        e = make_expr(tree, 'string')
        other = other_operand(okind, otree[1] if otree[0] == 'lit' else None, otree)
        r = -e if op == 'neg' else apply_pyop(op, e, other)
        numpy, sympy, ES, EV, Expression, TimeType = _imports()
        if not isinstance(r, Expression):
            raise TypeError('operator returned %s, not an Expression' % type(r).__name__)
        if extra.get('then') == 'exact':
            return r.evaluate_with_exact_rationals(scope_args(env))
        return r.evaluate_in_scope(scope_args(env))
    if op == 'neg':
        result_tree = ('neg', tree)
        spec = to_sexp(result_tree)
    else:
        result_tree = py_build(op, tree, otree)
        spec = ['build', op, to_sexp(tree), to_sexp(otree)]
    floats = not (extra.get('then') == 'exact' and not env_uses_floats(env) and okind in ('int', 'npint', 'tt', 'expr', 'sympy'))
    c = Case('arith', result_tree, env, None, floats, what='operator %s with %s operand %s' % (op, okind, to_str(otree)),
             extra=dict(extra, kind='arith', tree_in=tree_to_json(tree)))
    c.spec = spec
    c.impl = outcome(run)
    return c


def mk_roundtrip(tree, env, extra):
    """get_serialization_data -> (json) -> Expression(...) -> evaluate; extra.via: plain|json|pickle; derive: none|subst|arith"""
    via = extra.get('via', 'json')
    derive = extra.get('derive', 'none')
    numpy, sympy, ES, EV, Expression, TimeType = _imports()
    first = [x for x in extra.get('first', []) if x in env]
    rest = {x: kv for x, kv in env.items() if x not in first}

    def run():
        e = make_expr(tree, extra.get('build', 'string'))
        if derive == 'subst':
            e = e.evaluate_symbolic({x: to_arg(*env[x]) for x in first})
        elif derive == 'arith':
            e = (e + 0) * 1 if not first else e * to_arg(*env[first[0]]) / to_arg(*env[first[0]])
        if via == 'pickle':
            e2 = pickle.loads(pickle.dumps(e))
        else:
            data = e.get_serialization_data()
            if via == 'json':
                data = json.loads(json.dumps(data))
            e2 = Expression(data)
        scope = scope_args(rest if derive == 'subst' else env)
        if then == 'exact':
            return e2.evaluate_with_exact_rationals(scope)
        if then == 'arith-exact':
            # the loaded expression in arithmetic with other exact operands
            return (e2 * int(factor) + ES(to_str(addend))).evaluate_with_exact_rationals(scope)
        return e2.evaluate_in_scope(scope)
    then = extra.get('then', 'numeric')
    result_tree = tree
    if derive == 'arith' and first:
        result_tree = ('div', ('mul', tree, var(first[0])), var(first[0]))
    if then == 'arith-exact':
        factor = F(extra['factor'])
        addend = tree_from_json(extra['addend'])
        result_tree = ('add', ('mul', result_tree, lit(factor)), addend)
    floats = not (then in ('exact', 'arith-exact') and not env_uses_floats(env))
    c = Case('roundtrip', result_tree, env, None, floats, what='serialisation round trip (%s, %s, then %s)' % (via, derive, then),
             extra=dict(extra, kind='roundtrip', symbolic=first if derive == 'subst' else []))
    c.impl = outcome(run)
    return c


def mk_vector(trees, env, extra):
    """ExpressionVector of the given entries (1-d, or 2-d when extra.rows is set)"""
    numpy, sympy, ES, EV, Expression, TimeType = _imports()
    rows = extra.get('rows')
    how = extra.get('how', 'eval')

    def run():
        strs = [to_str(t) for t in trees]
        data = strs if not rows else [strs[i * (len(strs) // rows):(i + 1) * (len(strs) // rows)] for i in range(rows)]
        v = EV(data)
        if how == 'roundtrip':
            v = Expression(json.loads(json.dumps(v.get_serialization_data())))
            if not isinstance(v, EV):
                raise TypeError('vector loaded back as %s' % type(v).__name__)
        elif how == 'subst':
            first = extra.get('first', [])
            v = v.evaluate_symbolic({x: to_arg(*env[x]) for x in first if x in env})
        elif how == 'item':
            return v[extra['item']].evaluate_in_scope(scope_args(env))
        r = v.evaluate_in_scope(scope_args(env))
        if rows and tuple(r.shape) != (rows, len(strs) // rows):
            raise TypeError('shape %r' % (r.shape,))
        return r
    if how == 'item':
        tree = trees[extra['item']]
        c = Case('vector', tree, env, None, True, what='ExpressionVector item %d' % extra['item'], extra=dict(extra, kind='vector', trees=[tree_to_json(t) for t in trees]))
        try:
            tr = Track(True)
            ref_eval(tr, tuple(['vecx'] + list(trees)), env_ref(tr, env))
        except RefError:
            c.lenient = True          # a sibling entry has no value: refusing the whole vector is an accepted answer
    else:
        c = Case('vector', tuple(['vecx'] + list(trees)), env, None, True, what='ExpressionVector %s' % how,
                 extra=dict(extra, kind='vector', trees=[tree_to_json(t) for t in trees],
                            symbolic=extra.get('first', []) if how == 'subst' else []))
    c.impl = outcome(run)
    return c


def cached_cases(tree, rounds, extra):
    """one expression object, evaluated repeatedly with different argument types and modes"""
    cases = []
    try:
        e = limited(lambda: make_expr(tree, extra.get('build', 'string')))
        err = None
    except ImplTimeout:
        e, err = None, TimeoutError('construction did not return within %.0f s' % TIME_LIMIT)
    except Exception as ex:  # noqa
        e, err = None, ex
    for idx, (mode, env) in enumerate(rounds):
        ex2 = dict(extra, kind='cached', round=idx, rounds=[[m, env_json(en)] for m, en in rounds])
        floats = not (mode == 'exact' and not env_uses_floats(env))
        c = Case('cached', tree, env, None, floats, what='evaluation %d of the same object (%s mode)' % (idx, mode), extra=ex2)
        if e is None:
            c.impl = ('exc', type(err).__name__, str(err)[:200], None)
        elif mode == 'exact':
            c.impl = outcome(lambda: e.evaluate_with_exact_rationals(scope_args(env)))
        else:
            c.impl = outcome(lambda: e.evaluate_in_scope(scope_args(env)))
        cases.append(c)
    return cases


# -- transcendental functions: python `math` is the reference (test level, not part of the Lean model) -----

class Skip(Exception):
    pass


def feval(t, env):
    """float evaluation in the written order; raises Skip outside the comfortable domain"""
    k = t[0]

    def chk(x):
        if not math.isfinite(x) or abs(x) > 1e6:
            raise Skip()
        return x
    if k == 'lit':
        return float(t[1])
    if k == 'var':
        return env[t[1]]
    if k == 'fn':
        a = feval(t[2], env)
        f = t[1]
        if f == 'sqrt' and a < 1e-3:
            raise Skip()
        if f == 'log' and a < 1e-3:
            raise Skip()
        if f == 'exp' and a > 13:
            raise Skip()
        if f == 'tan' and abs(math.cos(a)) < 1e-2:
            raise Skip()
        return chk(getattr(math, f)(a))
    if k == 'pow':
        a = feval(t[1], env)
        if t[2] < 0 and abs(a) < 1e-3:
            raise Skip()
        return chk(a ** t[2])
    a = feval(t[1], env)
    if k == 'neg':
        return -a
    if k == 'abs':
        return abs(a)
    b = feval(t[2], env)
    if k == 'add':
        return chk(a + b)
    if k == 'sub':
        return chk(a - b)
    if k == 'mul':
        return chk(a * b)
    if k == 'div':
        if abs(b) < 1e-3:
            raise Skip()
        return chk(a / b)
    if k == 'min':
        return min(a, b)
    if k == 'max':
        return max(a, b)
    raise Skip()


def fscale(t, env):
    """largest intermediate magnitude (tolerance scale)"""
    best = [1.0]

    def go(t):
        try:
            best[0] = max(best[0], abs(feval(t, env)))
        except Skip:
            pass
        for s in t[1:]:
            if isinstance(s, tuple):
                go(s)
    go(t)
    return best[0]


# ---------------------------------------------------------------------------------------------
# the check families
# ---------------------------------------------------------------------------------------------

def _depth(ctx, rng):
    return rng.randint(1, ctx.n(4, 6))


def fam_eval(ctx, n):
    rng = ctx.fork('eval')
    cases = []
    for i in range(n):
        r = rng.random()
        if r < 0.5:
            cfg = Cfg(numbers='dyadic')
            kinds = rng.choice([('int', 'float'), ('float',), ('int',), ('npfloat', 'npint'), ('int', 'float', 'npint', 'npfloat')])
            fam = 'eval-dyadic'
        elif r < 0.8:
            cfg = Cfg(numbers='general')
            kinds = rng.choice([('float',), ('float', 'int'), ('npfloat', 'float')])
            fam = 'eval-general'
        else:
            cfg = Cfg(numbers='rational', lit_styles=('int', 'frac'))
            kinds = ('tt', 'int')
            fam = 'eval-timetype'
        tree = gen_num(rng, cfg, _depth(ctx, rng))
        env = gen_env(rng, tree, cfg, kinds)
        build = 'sympy' if rng.random() < 0.25 else 'string'
        cases.append(mk_eval(tree, env, {'mode': 'numeric', 'build': build, 'family': fam}))
        ctx.count('depth:%d' % _tree_depth(tree))
    # Sum over an indexed array with the summation index: only expressible as a sympy object
    for i in range(max(n // 15, 5)):
        cfg = Cfg(numbers='dyadic', sum_index_in_index=True)
        lo = rng.randrange(0, 2)
        hi = rng.randrange(lo, 4)
        body = ('mul', ('index', 'v', var('i')), gen_num(rng, cfg, 1, ('i',)))
        tree = ('add', ('sum', 'i', lit(lo), lit(hi), body), gen_num(rng, cfg, 1))
        env = gen_env(rng, tree, cfg, ('int', 'float'))
        cases.append(mk_eval(tree, env, {'mode': 'numeric', 'build': 'sympy', 'family': 'eval-sum-index'}))
    return run_cases(ctx, cases, rebuild=lambda t, e: mk_eval(t, e, cases[0].extra))


def _tree_depth(t):
    return 1 + max([_tree_depth(s) for s in t[1:] if isinstance(s, tuple)] + [0])


def fam_array(ctx, n):
    rng = ctx.fork('array')
    cases = []
    for i in range(n):
        numbers = 'dyadic' if rng.random() < 0.7 else 'general'
        cfg = Cfg(numbers=numbers, elementwise=['t'], array_len=rng.choice([1, 2, 3, 5, 8]),
                  index=rng.random() < 0.3, sums=rng.random() < 0.5, bindex=False)
        tree = gen_num(rng, cfg, _depth(ctx, rng))
        if 't' not in tree_vars(tree):
            tree = (rng.choice(['add', 'mul', 'sub']), tree, var('t'))
        env = gen_env(rng, tree, cfg, ('float', 'int'))
        ex = {'mode': 'numeric', 'build': 'string', 'family': 'array'}
        cases.append(mk_eval(tree, env, ex))
        # the same formula sample by sample (array evaluation = map of scalar evaluation)
        if i % 4 == 0 and cases[-1].impl[0] == 'ok' and isinstance(cases[-1].impl[1], list):
            arr = env['t'][1]
            j = rng.randrange(len(arr))
            env1 = dict(env)
            env1['t'] = ('float', arr[j])
            c1 = mk_eval(tree, env1, dict(ex, family='array-sample'))
            cases.append(c1)
    return run_cases(ctx, cases, rebuild=lambda t, e: mk_eval(t, e, {'mode': 'numeric', 'build': 'string', 'family': 'array'}))


def fam_exact(ctx, n):
    rng = ctx.fork('exact')
    cases = []
    for i in range(n):
        cfg = Cfg(numbers='rational', lit_styles=('int', 'frac'), bindex=rng.random() < 0.3)
        kinds = rng.choice([('tt',), ('tt', 'int'), ('int',), ('tt', 'int', 'npint')])
        tree = gen_num(rng, cfg, _depth(ctx, rng))
        env = gen_env(rng, tree, cfg, kinds)
        ex = {'mode': 'exact', 'build': 'sympy' if rng.random() < 0.2 else 'string', 'family': 'exact'}
        cases.append(mk_eval(tree, env, ex))
    return run_cases(ctx, cases, rebuild=lambda t, e: mk_eval(t, e, {'mode': 'exact', 'build': 'string', 'family': 'exact'}))


def _random_groups(rng, names):
    names = list(names)
    rng.shuffle(names)
    k = rng.randint(1, max(1, min(4, len(names))))
    groups = [[] for _ in range(k)]
    for x in names:
        groups[rng.randrange(k)].append(x)
    groups = [g for g in groups if g] or [[]]
    if rng.random() < 0.3:
        groups.append([])          # everything substituted, evaluated in the empty scope
    return groups


def gen_affine(rng, cfg, depth):
    """a formula affine in the array `t` (sums / products with t-free factors): the fragment for which
    `recursive_substitution` substitutes arrays symbolically (numpy_compatible_add / numpy_compatible_mul)"""
    scfg = Cfg(**dict(cfg.__dict__, elementwise=[], index=False, bindex=False, sums=False))
    if depth <= 0 or rng.random() < 0.2:
        return var('t')
    k = rng.random()
    if k < 0.35:
        other = gen_affine(rng, cfg, depth - 1) if rng.random() < 0.5 else gen_num(rng, scfg, rng.randint(0, 2))
        pair = (gen_affine(rng, cfg, depth - 1), other)
        return (rng.choice(['add', 'sub']),) + (pair if rng.random() < 0.5 else pair[::-1])
    if k < 0.85:
        pair = (gen_num(rng, scfg, rng.randint(0, 2)), gen_affine(rng, cfg, depth - 1))
        return ('mul',) + (pair if rng.random() < 0.5 else pair[::-1])
    return ('neg', gen_affine(rng, cfg, depth - 1))


def fam_partial(ctx, n):
    rng = ctx.fork('partial')
    cases = []
    # arrays substituted symbolically (any position in the order): formulas affine in the array
    for i in range(n // 5):
        cfg = Cfg(numbers=rng.choice(['dyadic', 'int']), elementwise=['t'], array_len=rng.choice([1, 2, 3, 4]))
        tree = gen_affine(rng, cfg, rng.randint(1, 3))
        env = gen_env(rng, tree, cfg, rng.choice([('int', 'float'), ('float',), ('int',)]))
        groups = _random_groups(rng, env.keys())
        cases.append(mk_partial(tree, env, {'groups': groups, 'final': 'numeric'}))
        ctx.count('partial:array-substituted-symbolically')
    for i in range(n):
        r = rng.random()
        if r < 0.55:
            cfg, kinds, final = Cfg(numbers='dyadic'), rng.choice([('int', 'float'), ('float',), ('int',), ('npfloat', 'npint')]), 'numeric'
        elif r < 0.75:
            cfg, kinds, final = Cfg(numbers='general'), ('float', 'int'), 'numeric'
        else:
            # (no arrays here: exact mode is scalar-only, a symbolically substituted array of rationals is printed as floats)
            cfg, kinds, final = Cfg(numbers='rational', lit_styles=('int', 'frac'), bindex=False, index=False), ('tt', 'int'), 'exact'
        if final == 'numeric' and rng.random() < 0.3:
            cfg.elementwise = ['t']
            cfg.bindex = False
        tree = gen_num(rng, cfg, _depth(ctx, rng))
        # a free name that is also a summation index somewhere: shadowing
        if rng.random() < 0.15 and tree_has(tree, ('sum',)):
            tree = ('add', tree, var('i'))
        env = gen_env(rng, tree, cfg, kinds)
        if not env:
            continue
        groups = _random_groups(rng, env.keys())
        if 't' in env:
            # arrays of sample times are never substituted symbolically (sympy's Array has no element-wise functions):
            # they are arguments of the final numeric evaluation, as in FunctionPulseTemplate
            groups = [[x for x in g if x != 't'] for g in groups]
            groups[-1] = groups[-1] + ['t']
        cases.append(mk_partial(tree, env, {'groups': groups, 'final': final}))
        ctx.count('partial:groups:%d' % len(groups))
    return run_cases(ctx, cases, rebuild=lambda t, e: mk_partial(t, e, cases[0].extra))


def fam_subst(ctx, n):
    rng = ctx.fork('subst')
    cases = []
    for i in range(n):
        cfg = Cfg(numbers='dyadic', index=False, bindex=False)
        tree = gen_num(rng, cfg, rng.randint(1, ctx.n(3, 4)))
        names = [x for x in tree_vars(tree) if x not in cfg.ints and x not in ('i', 'j')]
        if not names:
            continue
        r = rng.random()
        sigma = {}
        if r < 0.35 and len(names) >= 2:
            x, y = rng.sample(names, 2)           # the swap
            sigma = {x: var(y), y: var(x)}
            ctx.count('subst:swap')
        elif r < 0.5 and len(names) >= 3:
            x, y, z = rng.sample(names, 3)        # a cycle
            sigma = {x: var(y), y: var(z), z: var(x)}
            ctx.count('subst:cycle')
        else:
            rcfg = Cfg(numbers='dyadic', index=False, bindex=False, sums=False, scalars=names[:4] + ['c'])
            for x in rng.sample(names, rng.randint(1, min(3, len(names)))):
                sigma[x] = gen_num(rng, rcfg, rng.randint(0, 2))
            ctx.count('subst:general')
        full = ('vecx', tree) + tuple(sigma.values())
        env = gen_env(rng, full, cfg, rng.choice([('int', 'float'), ('float',), ('int',)]))
        cases.append(mk_subst(tree, env, {'sigma': {x: tree_to_json(s) for x, s in sigma.items()},
                                          'how': rng.choice(['str', 'expr', 'sympy'])}))
    return run_cases(ctx, cases)


def fam_shared_index(ctx, n):
    """a non-atomic sub-expression in the summation index occurs inside a Sum *and* again outside it (or in a second
    Sum) while the index name is also bound in the scope: outside, the name means the scope's value, inside the
    summation index (shadowing, as in the model's `eval`).  Any transformation of the formula that shares the repeated
    sub-expression across the Sum boundary (common sub-expression elimination) changes the value."""
    rng = ctx.fork('shared-index')
    cases = []
    for k in range(n):
        cfg = Cfg(numbers=rng.choice(['dyadic', 'int']), bindex=False, sums=False, sum_index_in_index=True)
        i = 'i'
        shape = rng.random()
        if shape < 0.3:
            sub = ('pow', ('index', 'v', var(i)), 2) if rng.random() < 0.5 else ('mul', ('index', 'v', var(i)), gen_leaf(rng, cfg))
            lo, hi = lit(0), lit(rng.choice([1, 2, 3]))
        else:
            sub = rng.choice([('pow', var(i), 2), ('mul', var(i), gen_leaf(rng, cfg)), ('add', var(i), gen_lit(rng, cfg)),
                              ('mul', ('add', var(i), lit(1)), var(i)), ('sub', gen_leaf(rng, cfg), ('mul', lit(2), var(i)))])
            lo = lit(rng.choice([0, 1, -1]))
            hi = ('add', lo, lit(rng.choice([1, 2, 3]))) if rng.random() < 0.6 else var('n')
        body = sub if rng.random() < 0.4 else (rng.choice(['add', 'mul', 'sub']), sub, gen_num(rng, cfg, rng.randint(0, 1), (i,)))
        the_sum = ('sum', i, lo, hi, body)
        r = rng.random()
        if r < 0.6:
            outer = sub if rng.random() < 0.5 else (rng.choice(['add', 'mul']), sub, gen_leaf(rng, cfg))
            tree = (rng.choice(['add', 'sub', 'mul', 'div']), outer, the_sum)
            if rng.random() < 0.5:
                tree = (tree[0], tree[2], tree[1])
        elif r < 0.8:
            tree = (rng.choice(['add', 'sub', 'mul']), the_sum, ('sum', i, lit(rng.choice([0, 1])), lit(rng.choice([2, 3])), ('add', sub, gen_leaf(rng, cfg))))
        else:
            tree = ('add', ('mul', sub, sub), ('mul', the_sum, gen_leaf(rng, cfg)))
        if rng.random() < 0.3:
            tree = (rng.choice(['add', 'mul', 'max']), tree, gen_num(rng, cfg, rng.randint(0, 2)))
        env = gen_env(rng, tree, cfg, rng.choice([('int', 'float'), ('int',), ('float', 'int', 'npint')]))
        if i in env:
            env[i] = (env[i][0], F(rng.randrange(0, cfg.array_len if shape < 0.3 else 4)))
        if 'n' in env:
            env['n'] = (env['n'][0], F(rng.randrange(0, 4)))
        how = rng.random()
        if how < 0.6:
            cases.append(mk_eval(tree, env, {'mode': 'numeric', 'build': rng.choice(['string', 'string', 'sympy']), 'family': 'shared-index'}))
        elif how < 0.75:
            ok = all(kd in ('int', 'npint') for kd, v in env.values() if not isinstance(v, list)) and cfg.numbers == 'int'
            cases.append(mk_eval(tree, env, {'mode': 'exact' if ok else 'numeric', 'build': 'string', 'family': 'shared-index'}))
        elif how < 0.9:
            second = gen_leaf(rng, cfg)
            for x, kv in gen_env(rng, second, cfg, ('int', 'float')).items():
                env.setdefault(x, kv)
            c = mk_vector([tree, second], env, {'how': 'eval'})
            c.family = 'shared-index'
            cases.append(c)
        else:
            names = [x for x in env if not isinstance(env[x][1], list)]
            first = rng.sample(names, rng.randint(1, len(names))) if names else []
            rest = [x for x in env if x not in first]
            c = mk_partial(tree, env, {'groups': [first, rest], 'final': 'numeric'})
            c.family = 'shared-index'
            cases.append(c)
        ctx.count('shared-index:' + ('indexed-body' if shape < 0.3 else 'index-polynomial'))
    return run_cases(ctx, cases, rebuild=lambda t, e: mk_eval(t, e, {'mode': 'numeric', 'build': 'string', 'family': 'shared-index'}))


HUGE = [F(2) ** 63, -F(2) ** 63, F(2) ** 63 + 2048, -(F(2) ** 63) - 2048, F(2) ** 62, F(10) ** 19, -F(10) ** 19, F(float(1e300)),
        -F(float(1e300)), F(2) ** 53 + 2, F(2) ** 64, F(3 * 2 ** 62)]


def fam_huge(ctx, n):
    """floor / ceiling of numbers beyond the int64 range, for single numbers and for arrays (the array branch has to give
    up on the int64 cast): all values are exactly representable doubles, so the Lean value is exact; the
    implementation must return the value of the formula (or refuse), never a silently wrapped integer."""
    rng = ctx.fork('huge')
    cases = []
    for k in range(n):
        f1, f2 = rng.choice(['floor', 'ceil']), rng.choice(['floor', 'ceil'])
        t = var('t')
        arg = rng.choice([t, ('mul', var('a'), t), ('div', t, lit(2)), ('add', t, lit(F(1, 2), 'dec')), ('neg', t), ('abs', t),
                          ('sub', t, var('b'))])
        tree = rng.choice([(f1, arg), ('neg', (f1, arg)), ('sub', (f1, arg), (f2, t)), ('max', (f1, arg), var('b')),
                           ('add', (f1, arg), lit(1)), ('div', (f1, arg), lit(2)), ('mul', lit(F(1, 2), 'dec'), (f1, arg))])
        L = rng.choice([1, 2, 3, 5])
        shape = rng.random()
        if shape < 0.75:
            vals = [rng.choice(HUGE) if rng.random() < 0.6 else F(rng.randrange(-40, 41), rng.choice([1, 2, 4])) for _ in range(L)]
            if all(abs(v) < 2 ** 62 for v in vals):
                vals[rng.randrange(L)] = rng.choice(HUGE)
            a = F(rng.choice([1, 2, -1])) if rng.random() < 0.8 else F(1, 2)
            if rng.random() < 0.2:           # a huge factor times small sample times, as floor(a*t) with a = 1e19
                a, vals = rng.choice([F(10) ** 19, F(2) ** 63, F(float(1e300))]), [F(rng.randrange(1, 5)) for _ in range(L)]
            env = {'t': ('arrf', vals)}
        else:
            a = F(rng.choice([1, 2, -1]))
            env = {'t': (rng.choice(['float', 'npfloat']), rng.choice(HUGE))}
        if 'a' in tree_vars(tree):
            env['a'] = ('float', a)
        if 'b' in tree_vars(tree):
            env['b'] = (rng.choice(['float', 'int']), F(rng.randrange(-9, 10)))
        env = normalise_env({x: env[x] for x in tree_vars(tree)})
        # integer arithmetic on top of floor/ceiling is only generated when the floor/ceiling array itself cannot be an
        # int64 array (some element outside the range): otherwise numpy's int64 arithmetic may wrap (open finding PF-C12g)
        if tree[0] in ('neg', 'sub', 'add') and isinstance(env['t'][1], list):
            def stays_float(sub):
                tr = Track(True)
                try:
                    vals = plain(ref_eval(tr, sub, env_ref(tr, env)))
                except RefError:
                    return False
                # (judged on the rounded double: -2**63 - 6 is the double -2**63, which fits)
                return any(v >= 2 ** 63 or v < -(2 ** 63) - 1024 for v in vals)
            subs = [x for x in tree[1:] if isinstance(x, tuple) and x[0] in ('floor', 'ceil')]
            if not all(stays_float(x) for x in subs):
                tree = subs[0]
                env = {x: env[x] for x in tree_vars(tree)}
        # (a refusal is an accepted answer: numpy cannot take python ints beyond int64, e.g. in Max(ceiling(t), b))
        cases.append(mk_eval(tree, env, {'mode': 'numeric', 'build': 'string', 'family': 'huge', 'huge': True, 'lenient': True}))
        ctx.count('huge:' + ('array' if shape < 0.75 else 'scalar'))
    return run_cases(ctx, cases)      # (no shrinking: the formulas are small and shrinking could walk into the class of PF-C12g)


SYMPY_KINDS = ('syint', 'syfloat', 'syrat')


def fam_sympy_args(ctx, n):
    """scope values that are sympy numbers (Integer, Float, Rational - e.g. parameters computed with sympy): scalar,
    array (sample times containing 0, where `0 * Float` is the sympy Integer 0) and ExpressionVector evaluation in
    numeric mode.  numpy then computes with object arrays of sympy numbers which qupulse converts back; the value must
    be the formula's.  An exception is an accepted answer here (sympy.Rational results are refused by design)."""
    rng = ctx.fork('sympy-args')
    cases = []

    def sympify_kinds(env, force):
        names = [x for x, (k, v) in env.items() if not isinstance(v, list)]
        rng.shuffle(names)
        for j, x in enumerate(names):
            if j == 0 and force or rng.random() < 0.5:
                v = env[x][1]
                kd = rng.choice(['syint'] if False else (['syfloat', 'syfloat', 'syrat'] + (['syint', 'syint'] if v.denominator == 1 else [])))
                env[x] = (kd, v)
        return normalise_env(env)

    for i in range(n):
        shape = rng.choice(['scalar', 'array', 'array', 'vector'])
        cfg = Cfg(numbers='dyadic', index=False, bindex=False, sums=False, ite=rng.random() < 0.2, ints=[],
                  elementwise=['t'] if shape == 'array' else [], array_len=rng.choice([2, 3, 5]))
        ex = {'mode': 'numeric', 'build': 'string', 'family': 'sympy-args', 'lenient': True}
        if shape == 'vector':
            k = rng.randint(2, 4)
            trees = [gen_num(rng, cfg, rng.randint(0, 2)) for _ in range(k)]
            env = sympify_kinds(gen_env(rng, tuple(['vecx'] + trees), cfg, ('int', 'float')), True)
            c = mk_vector(trees, env, {'how': 'eval'})
            c.family, c.lenient = 'sympy-args', True
            cases.append(c)
            ctx.count('sympy-args:vector')
            continue
        tree = gen_num(rng, cfg, rng.randint(1, ctx.n(3, 4)))
        if shape == 'array':
            # a sympy-valued slope times the sample times, as in a ramp
            tree = (rng.choice(['add', 'sub']), ('mul', var(rng.choice(['a', 'b'])), var('t')), tree)
        env = gen_env(rng, tree, cfg, ('int', 'float'))
        if 't' in env:
            kd, vals = env['t']
            vals = list(vals)
            vals[rng.randrange(len(vals))] = F(0)
            if rng.random() < 0.5:
                vals = [F(int(v)) for v in vals]
                kd = 'arri'
            env['t'] = (kd, vals)
        env = sympify_kinds(env, True)
        cases.append(mk_eval(tree, env, ex))
        ctx.count('sympy-args:' + shape)
    return run_cases(ctx, cases, rebuild=lambda t, e: mk_eval(t, e, {'mode': 'numeric', 'build': 'string', 'family': 'sympy-args', 'lenient': True}))


EXACT_KINDS = ('int', 'npint', 'tt')


def history_cases(tree, value, kinds, rests, extra):
    """One process, one value, successively supplied as different types to `evaluate_symbolic`
    (the sympify memo behind `recursive_substitution` is process wide): for every step the name `a` is substituted by
    `value` as `kinds[k]`, then the rest is evaluated - exactly when the type is int / numpy int / TimeType, numerically
    otherwise.  A bool step substitutes into the bare name only (it just has to be seen by the process)."""
    numpy, sympy, ES, EV, Expression, TimeType = _imports()
    cases = []
    for k, (kind, rest) in enumerate(zip(kinds, rests)):
        if kind == 'bool':
            outcome(lambda: ES('a').evaluate_symbolic({'a': bool(value)}))
            continue
        env = dict(rest)
        env['a'] = (kind, F(value))
        final = 'exact' if kind in EXACT_KINDS else 'numeric'
        ex = dict(extra, groups=[['a'], [x for x in env if x != 'a']], final=final, kind='history', step=k,
                  value=str(value), kinds=list(kinds), rests=[env_json(r) for r in rests], tree_hist=tree_to_json(tree))
        c = mk_partial(tree, normalise_env(env), ex)
        c.family = 'history'
        c.extra['kind'] = 'history'
        c.what = 'value %s supplied as %s after the same value as %s in this process' % (value, kind, list(kinds[:k]))
        cases.append(c)
    return cases


def fam_history(ctx, n):
    rng = ctx.fork('history')
    cases = []
    for i in range(n):
        cfg = Cfg(numbers='rational', lit_styles=('int', 'frac'), index=False, bindex=False, sums=rng.random() < 0.2, scalars=['a', 'b', 'c'])
        value = F(rng.choice([0, 1, 1, 2, 2, 3, 4, 5, 6, -1, -2, -3, 7, 10])) if rng.random() < 0.7 else F(rng.randrange(-12, 13), rng.choice([2, 4, 8]))
        # the substituted name is divided by / multiplied with a non-dyadic constant: a float in its place shows
        k = lit(F(rng.choice([1, 2, 5, 7, -4]), rng.choice([3, 7, 9, 11])))
        core_t = (rng.choice(['div', 'mul']), var('a'), k) if rng.random() < 0.7 else ('div', k, ('add', var('a'), lit(F(1, 3))))
        tree = (rng.choice(['add', 'sub', 'mul']), core_t, gen_num(rng, cfg, rng.randint(0, ctx.n(2, 3))))
        pool = ['int', 'float', 'npint', 'npfloat', 'tt'] if value.denominator == 1 else ['float', 'npfloat', 'tt']
        if value in (0, 1):
            pool = pool + ['bool']
        kinds = [rng.choice(pool) for _ in range(rng.randint(2, 4))]
        if all(kd in ('float', 'npfloat', 'bool') for kd in kinds) or kinds[0] in EXACT_KINDS and rng.random() < 0.7:
            kinds = [rng.choice(['float', 'npfloat'] + (['bool'] if value in (0, 1) else []))] + kinds[:-1] + [rng.choice([p_ for p_ in pool if p_ in EXACT_KINDS])]
        rests = []
        for kd in kinds:
            r = gen_env(rng, tree, cfg, ('tt', 'int') if kd in EXACT_KINDS else ('float', 'int'))
            r.pop('a', None)
            rests.append(r)
        cases += history_cases(tree, value, kinds, rests, {})
        ctx.count('history:types:' + '>'.join(kinds[:2]))
    return run_cases(ctx, cases)


def fam_cached(ctx, n):
    rng = ctx.fork('cached')
    cases = []
    for i in range(n):
        cfg = Cfg(numbers='rational', lit_styles=('int', 'frac'), bindex=False, elementwise=['t'] if rng.random() < 0.5 else [],
                  index=rng.random() < 0.4, sums=rng.random() < 0.4)
        tree = gen_num(rng, cfg, rng.randint(1, ctx.n(3, 5)))
        rounds = []
        for _ in range(rng.randint(3, 6)):
            r = rng.random()
            if r < 0.3:
                c2 = Cfg(**dict(cfg.__dict__, numbers='int'))
                kinds, mode = ('int',), rng.choice(['numeric', 'exact'])
            elif r < 0.55:
                c2 = Cfg(**dict(cfg.__dict__, numbers='dyadic'))
                kinds, mode = rng.choice([('float',), ('npfloat', 'npint'), ('float', 'int')]), 'numeric'
            elif r < 0.8:
                c2 = cfg
                kinds, mode = ('tt', 'int'), rng.choice(['numeric', 'exact'])
            else:
                c2 = Cfg(**dict(cfg.__dict__, numbers='general'))
                kinds, mode = ('float',), rng.choice(['numeric', 'exact'])
            env = gen_env(rng, tree, c2, kinds)
            if mode == 'exact' or 'tt' in kinds:
                # arrays of sample times are floats; TimeType and exact mode are scalar
                for x in cfg.elementwise:
                    if x in env:
                        env[x] = (rng.choice(kinds), gen_value(rng, c2.numbers) if kinds != ('int',) else F(rng.randrange(-4, 7)))
                        if env[x][0] in ('int', 'npint'):
                            env[x] = (env[x][0], F(rng.randrange(-4, 7)))
            rounds.append((mode, normalise_env(env)))
        cases += cached_cases(tree, rounds, {})
    return run_cases(ctx, cases)


def fam_roundtrip(ctx, n):
    rng = ctx.fork('roundtrip')
    cases = []
    for i in range(n):
        numbers = rng.choice(['dyadic', 'dyadic', 'general', 'rational'])
        cfg = Cfg(numbers=numbers, lit_styles=('int', 'frac') if numbers == 'rational' else ('int', 'frac', 'dec'))
        tree = gen_num(rng, cfg, _depth(ctx, rng))
        env = gen_env(rng, tree, cfg, rng.choice([('float',), ('int', 'float'), ('int',)]))
        derive = rng.choice(['none', 'none', 'subst', 'arith'])
        names = [x for x in env if not isinstance(env[x][1], list)]
        first = rng.sample(names, rng.randint(1, len(names))) if names and derive != 'none' else []
        if derive == 'arith':
            first = first[:1]
        cases.append(mk_roundtrip(tree, env, {'via': rng.choice(['plain', 'json', 'json', 'pickle']), 'derive': derive, 'first': first,
                                              'build': 'sympy' if rng.random() < 0.2 else 'string'}))
        ctx.count('roundtrip:' + derive)
    # symbol-free expressions with a non-dyadic rational value (written so, or the result of a complete substitution of
    # integers / TimeTypes) must come back *exact*: evaluated in exact-rational mode and in arithmetic with exact operands
    for i in range(max(n // 2, 80)):
        closed = rng.random() < 0.5
        cfg = Cfg(numbers='rational', lit_styles=('int', 'frac'), index=False, bindex=False, sums=rng.random() < 0.15, ite=rng.random() < 0.15,
                  scalars=[] if closed else ['a', 'b'], ints=[] if closed else ['n'], arrays=[])
        third = lit(F(rng.choice([1, 2, 7, 22, -5, 1, 10]), rng.choice([3, 3, 7, 9, 6, 11, 13])))
        tree = third if rng.random() < 0.25 else (rng.choice(['add', 'sub', 'mul']), third, gen_num(rng, cfg, rng.randint(0, ctx.n(2, 3))))
        env = gen_env(rng, tree, cfg, ('tt', 'int'))
        then = rng.choice(['exact', 'exact', 'arith-exact'])
        ex = {'via': rng.choice(['plain', 'json', 'pickle']), 'derive': 'none' if not env else 'subst', 'first': list(env),
              'build': 'sympy' if rng.random() < 0.2 else 'string', 'then': then}
        if then == 'arith-exact':
            ex['factor'] = str(rng.choice([3, 7, 2, -3, 9]))
            ex['addend'] = tree_to_json(lit(F(rng.randrange(-9, 10), rng.choice([1, 2, 3, 5]))))
        cases.append(mk_roundtrip(tree, env, ex))
        cases[-1].rebuild = (lambda t, e, ex=ex: mk_roundtrip(t, {x: kv for x, kv in e.items()}, dict(ex, first=list(e)))) if then == 'exact' else False
        ctx.count('roundtrip:constant-rational:' + then)
    return run_cases(ctx, cases, rebuild=lambda t, e: mk_roundtrip(t, e, cases[0].extra))


def fam_arith(ctx, n):
    rng = ctx.fork('arith')
    cases = []
    for i in range(n):
        exact = rng.random() < 0.3
        cfg = Cfg(numbers='rational' if exact else 'dyadic', lit_styles=('int', 'frac') if exact else ('int', 'frac', 'dec'), bindex=False)
        tree = gen_num(rng, cfg, rng.randint(0, ctx.n(3, 4)))
        op = rng.choice(PYOPS + ('neg',))
        okind = rng.choice(['int', 'float', 'npint', 'npfloat', 'expr', 'expr', 'sympy', 'tt'])
        if exact and okind in ('float', 'npfloat'):
            okind = 'int'
        if okind in ('tt', 'sympy') and op.startswith('r'):
            okind = 'int'            # TimeType / sympy object as *left* operand: their own operator runs, not qupulse's (see notes)
        if okind in ('expr', 'sympy'):
            otree = gen_num(rng, cfg, rng.randint(0, 2))
        elif okind in ('int', 'npint'):
            otree = lit(rng.choice([0, 1, 2, 3, 5, -1, -2, 7]))
        elif okind == 'tt':
            otree = lit(F(rng.randrange(-20, 21), rng.choice([1, 2, 3, 5, 7])))
        else:
            otree = lit(F(rng.randrange(-40, 41), rng.choice([1, 2, 4, 8])), 'dec')
        env = gen_env(rng, ('vecx', tree, otree), cfg, ('tt', 'int') if exact else rng.choice([('int', 'float'), ('float',), ('int',)]))
        cases.append(mk_arith(tree, env, {'op': op, 'okind': okind, 'other': tree_to_json(otree), 'then': 'exact' if exact else 'numeric'}))
        ctx.count('arith:op:' + op)
        ctx.count('arith:operand:' + okind)
    # neutral / absorbing constants 0, 1, -1 of every number type as left and right operand of every operator: a fast path
    # for `0 + e`, `1 * e` must not leak into `0 - e`, `1 / e`, `0 // e` …  (TimeType and sympy numbers only on the right:
    # on the left their own operators run; ExpressionScalar has no `**`)
    for i in range(max(n // 2, 60)):
        cfg = Cfg(numbers='dyadic', bindex=False)
        tree = gen_num(rng, cfg, rng.randint(0, 2))
        if not tree_vars(tree) and rng.random() < 0.7:
            tree = var(rng.choice(cfg.scalars))
        op = rng.choice(PYOPS)
        okind = rng.choice(['int', 'float', 'npint', 'npfloat'] * 2 + ([] if op.startswith('r') else ['tt', 'sympy']))
        value = rng.choice([0, 0, 1, 1, -1])
        otree = lit(value, 'dec' if okind in ('float', 'npfloat') else 'int')
        env = gen_env(rng, tree, cfg, rng.choice([('int', 'float'), ('float',), ('int',)]))
        # the expression's own value must not be neutral itself (0 - a with a = 0 would hide a dropped sign)
        for x, (kd, v) in list(env.items()):
            if not isinstance(v, list) and v in (0, 1, -1):
                env[x] = (kd, v + 2)
        cases.append(mk_arith(tree, normalise_env(env), {'op': op, 'okind': okind, 'other': tree_to_json(otree), 'then': 'numeric'}))
        ctx.count('arith:neutral:%s:%s' % (op, value))
    return run_cases(ctx, cases)


def fam_vector(ctx, n):
    rng = ctx.fork('vector')
    cases = []
    for i in range(n):
        cfg = Cfg(numbers=rng.choice(['dyadic', 'general', 'int']), bindex=False)
        rows = 2 if rng.random() < 0.2 else None
        k = 4 if rows else rng.randint(1, 5)
        trees = [gen_num(rng, cfg, rng.randint(0, ctx.n(3, 4))) for _ in range(k)]
        env = gen_env(rng, tuple(['vecx'] + trees), cfg, rng.choice([('float',), ('int', 'float'), ('int',), ('npfloat', 'npint')]))
        how = rng.choice(['eval', 'eval', 'roundtrip', 'subst', 'item'])
        ex = {'how': how}
        if rows:
            ex['rows'] = rows
            if how == 'item':
                ex['how'] = how = 'eval'
        if how == 'subst':
            names = [x for x in env if not isinstance(env[x][1], list)]
            ex['first'] = rng.sample(names, rng.randint(0, len(names))) if names else []
        if how == 'item':
            ex['item'] = rng.randrange(k)
        cases.append(mk_vector(trees, env, ex))
        ctx.count('vector:' + how)
    return run_cases(ctx, cases)


def fam_malformed(ctx, n):
    rng = ctx.fork('malformed')
    numpy, sympy, ES, EV, Expression, TimeType = _imports()
    cases = []
    for i in range(n):
        cfg = Cfg(numbers='dyadic', bindex=False)
        tree = gen_num(rng, cfg, rng.randint(1, 3))
        env = gen_env(rng, tree, cfg, ('int', 'float'))
        r = rng.random()
        ex = {'mode': rng.choice(['numeric', 'exact']), 'build': 'string', 'family': 'malformed', 'lenient': True}
        if r < 0.4 and env:
            x = rng.choice(list(env))
            try:
                ex['missing_in_variables'] = x in limited(lambda: ES(to_str(tree)).variables)
            except (Exception, ImplTimeout):  # noqa
                pass
            del env[x]
            ex['malformed'] = 'missing:' + x
        elif r < 0.6 and any(k in ('int', 'float') for k, _ in env.values()):
            x = rng.choice([x for x, (k, _) in env.items() if k in ('int', 'float')])
            env[x] = ('fraction', F(rng.randrange(-20, 21), rng.choice([1, 2, 3, 7])))
            ex['malformed'] = 'fraction'
        elif r < 0.85:
            tree = ('add', tree, ('index', 'v', rng.choice([lit(9), lit(-9), var('n'), lit(F(3, 2), 'dec')])))
            env = gen_env(rng, tree, cfg, ('int', 'float'))
            if 'n' in env:
                env['n'] = ('int', F(rng.choice([4, 5, -5, 17])))
            ex['malformed'] = 'index'
        else:
            ex['malformed'] = 'extra-names'
            env['zz'] = ('float', F(1, 2))
            env['t'] = ('arrf', [F(1), F(2)])
            ex['lenient'] = False
        ctx.count('malformed:' + ex['malformed'].split(':')[0])
        cases.append(mk_eval(tree, env, ex))
    return run_cases(ctx, cases)


CMPS = {'lt': lambda a, b: a < b, 'le': lambda a, b: a <= b, 'gt': lambda a, b: a > b, 'ge': lambda a, b: a >= b}


def compare_impl(op, ltree, rtree, lkind, rkind):
    """-> True | False | None | ('exc', …) | ('odd', …)"""
    numpy, sympy, ES, EV, Expression, TimeType = _imports()

    def operand(t, kind):
        if kind == 'expr':
            return ES(to_str(t))
        return to_arg(kind, t[1])
    try:
        import warnings
        with warnings.catch_warnings():
            warnings.simplefilter('ignore')
            r = limited(lambda: CMPS[op](operand(ltree, lkind), operand(rtree, rkind)))
    except ImplTimeout:
        return ('exc', 'timeout', '')
    except Exception as e:  # noqa
        return ('exc', type(e).__name__, str(e)[:150])
    if isinstance(r, numpy.bool_):
        r = bool(r)
    if r is None or r is True or r is False:
        return r
    return ('odd', type(r).__name__)


def check_compare_one(ctx, op, ltree, rtree, lkind, rkind, envs, report=True):
    """the soundness check of one comparison; returns list of violation texts"""
    ans = compare_impl(op, ltree, rtree, lkind, rkind)
    lines = [sx(['c12', 'cmp3', op, to_sexp(ltree), to_sexp(rtree)])]
    if ans is True or ans is False:
        for env in envs:
            lines.append(sx(['c12', 'eval', env_sexp(env), [op, to_sexp(ltree), to_sexp(rtree)]]))
    res = core.Lean.run(lines)
    return compare_verdict(ctx, op, ltree, rtree, ans, res[0], list(zip(envs, res[1:])))


def hits_reversed_sum(tree, env) -> bool:
    tr = Track(False)
    try:
        ref_eval(tr, tree, env_ref(tr, env))
    except RefError:
        pass
    return tr.reversed_sum


def rough_closed_sum(t, bound=()) -> bool:
    """a Sum without free names whose summand is not a polynomial (sympy's evalf of it is an approximation)"""
    if t[0] == 'sum':
        free = [x for x in tree_vars(t) if x not in bound]
        if not free and tree_has(t[4], EXTENDED + ('floor', 'ceil', 'mod', 'abs', 'min', 'max', 'div', 'pow', 'sum')):
            return True
        return any(rough_closed_sum(x, bound + (t[1],) if i == 4 else bound) for i, x in enumerate(t[1:], 1) if isinstance(x, tuple))
    return any(isinstance(x, tuple) and rough_closed_sum(x, bound) for x in t[1:])


def compare_verdict(ctx, op, ltree, rtree, ans, model, evals):
    if PF27_LISTED[0]:
        both = ('vecx', ltree, rtree)
        if rough_closed_sum(both):
            ctx.count('compare:skipped-known-PF-C12e')
            return []
        if not tree_vars(both) and hits_reversed_sum(both, {}):
            ctx.count('compare:skipped-known-PF-C12e')
            return []
        evals = [(env, r) for env, r in evals if not hits_reversed_sum(both, env)]
    closed = not tree_vars(ltree) and not tree_vars(rtree)
    sumfree = not tree_has(ltree, ('sum',)) and not tree_has(rtree, ('sum',))
    mdec = None if model == 'none' else (model[1] == 'true')
    out = []
    text = '%s %s %s' % (to_str(ltree), {'lt': '<', 'le': '<=', 'gt': '>', 'ge': '>='}[op], to_str(rtree))
    if isinstance(ans, tuple):
        ctx.count('compare:impl-' + ans[0] + (':' + ans[1]))
        if mdec is not None and sumfree:
            out.append('comparison %s of two numbers %s instead of answering %s' % (text, 'raised ' + ans[1] if ans[0] == 'exc' else 'returned a ' + ans[1], mdec))
        return out
    ctx.count('compare:answer:%s%s' % (ans, ':closed' if closed else ''))
    if mdec is not None:
        ctx.count('compare:model-decides')
    if ans is None:
        if closed and sumfree and mdec is not None:
            out.append('comparison %s of two numbers answered unknown, it is %s' % (text, mdec))
        return out
    for env, r in evals:
        if r[0] == 'ok':
            got = parse_val(r[1])
            if got is not ans:
                out.append('comparison %s answered %s but is %s for %s' % (text, ans, got, {x: str(v) for x, (k, v) in env.items()}))
                break
    if mdec is not None and mdec is not ans and not out:
        out.append('comparison %s answered %s, it is %s' % (text, ans, mdec))
    return out


def fam_compare(ctx, n):
    rng = ctx.fork('compare')
    K = ctx.n(20, 50)
    todo = []
    for i in range(n):
        r = rng.random()
        open_cfg = Cfg(numbers='rational', lit_styles=('int', 'frac'), index=False, bindex=False, sums=rng.random() < 0.2)
        closed_cfg = Cfg(numbers='rational', lit_styles=('int', 'frac'), index=False, bindex=False, sums=rng.random() < 0.2,
                         scalars=[], ints=[], arrays=[])
        lkind = rkind = 'expr'
        if r < 0.3:
            l = gen_num(rng, closed_cfg, rng.randint(0, 3))
            rr = gen_num(rng, closed_cfg, rng.randint(0, 3))
            shape = 'closed'
        elif r < 0.45:
            l = gen_num(rng, open_cfg, rng.randint(0, 2))
            rr = rng.choice([l, ('add', l, lit(1)), ('sub', l, lit(1)), ('mul', lit(2), l), ('abs', l), ('max', l, lit(0)), ('floor', l)])
            if rng.random() < 0.5:
                l, rr = rr, l
            shape = 'related'
        elif r < 0.6:
            l = rng.choice([('abs', gen_num(rng, open_cfg, 1)), ('pow', gen_num(rng, open_cfg, 1), 2), ('max', gen_num(rng, open_cfg, 1), lit(1)),
                            ('min', gen_num(rng, open_cfg, 1), lit(-1))])
            rr = lit(rng.choice([0, 0, 1, -1, F(1, 2)]))
            if rng.random() < 0.5:
                l, rr = rr, l
            shape = 'sign'
        else:
            l = gen_num(rng, open_cfg, rng.randint(0, 3))
            rr = gen_num(rng, open_cfg, rng.randint(0, 2))
            shape = 'open'
        # one side as a plain number instead of an expression
        if rr[0] == 'lit' and rng.random() < 0.6:
            rkind = rng.choice(['int', 'npint']) if rr[1].denominator == 1 else rng.choice(['tt'] + (['float'] if _repr_exact(rr[1]) else []))
        elif l[0] == 'lit' and rng.random() < 0.6:
            lkind = 'int' if l[1].denominator == 1 else ('float' if _repr_exact(l[1]) else 'expr')
        op = rng.choice(list(CMPS))
        ctx.count('compare:shape:' + shape)
        cfg = open_cfg
        envs = [gen_env(rng, ('vecx', l, rr), cfg, ('tt',)) for _ in range(K)]
        todo.append((op, l, rr, lkind, rkind, envs))
    # constant expressions whose exact value is not a double (1/3, 1/10, big integers around 2**53 … 2**64) against the
    # nearest doubles and the neighbouring integers, both orders: a decided answer is the comparison of the exact values
    # (a float operand is its exact binary value)
    for i in range(max(n // 3, 40)):
        if rng.random() < 0.5:
            exact = F(rng.choice([1, 2, -1, -2, 7, 1, 1]), rng.choice([3, 10, 7, 9, 6, 3, 10]))
            const = lit(exact) if rng.random() < 0.7 else ('div', lit(exact.numerator), lit(exact.denominator))
        else:
            base = 2 ** rng.choice([53, 53, 54, 60, 63, 64]) * rng.choice([1, -1])
            exact = F(base + rng.choice([1, -1, 3]))
            const = lit(exact) if rng.random() < 0.7 else ('add', lit(base), lit(exact - base))
        f = float(exact)
        number = rng.choice([f, f, math.nextafter(f, math.inf), math.nextafter(f, -math.inf)])
        if exact.denominator == 1 and rng.random() < 0.4:
            number = int(exact) + rng.choice([-1, 0, 1, int(f) - int(exact)])
            nkind = rng.choice(['int', 'int', 'expr'])
        else:
            nkind = rng.choice(['float', 'float', 'float', 'npfloat'])
        ntree = lit(F(number), 'int' if isinstance(number, int) else 'frac')
        op = rng.choice(list(CMPS))
        if rng.random() < 0.5 and nkind != 'npfloat':
            todo.append((op, ntree, const, nkind, 'expr', []))
        else:
            todo.append((op, const, ntree, 'expr', nkind, []))
        ctx.count('compare:shape:near-double')
    # implementation answers, then one Lean batch
    lines, spans, answers = [], [], []
    for op, l, rr, lkind, rkind, envs in todo:
        ans = compare_impl(op, l, rr, lkind, rkind)
        answers.append(ans)
        start = len(lines)
        lines.append(sx(['c12', 'cmp3', op, to_sexp(l), to_sexp(rr)]))
        if ans is True or ans is False:
            for env in envs:
                lines.append(sx(['c12', 'eval', env_sexp(env), [op, to_sexp(l), to_sexp(rr)]]))
        spans.append((start, len(lines)))
    res = core.Lean.run(lines)
    bad = 0
    for (op, l, rr, lkind, rkind, envs), ans, (s0, s1) in zip(todo, answers, spans):
        ctx.case(lines[s0] + ' ' + lkind + ' ' + rkind, nontrivial=True)
        ctx.count('compare:cases')
        out = compare_verdict(ctx, op, l, rr, ans, res[s0], list(zip(envs, res[s0 + 1:s1])))
        for text in out[:1]:
            bad += 1
            ctx.disagreements += 1
            ctx.violation('compare: ' + text + ' [left operand given as %s, right as %s]' % (lkind, rkind), {'family': 'compare', 'kind': 'compare', 'op': op, 'left': tree_to_json(l), 'right': tree_to_json(rr),
                                               'lkind': lkind, 'rkind': rkind, 'envs': [env_json(e) for e in envs], 'impl': str(ans)})
    return bad


def transc_one(tree, env, build='string'):
    """-> None (fine / skipped) | violation text.  Test level: python math is the reference."""
    numpy, sympy, ES, EV, Expression, TimeType = _imports()
    arr = {x: v for x, (k, v) in env.items() if isinstance(v, list)}
    n = len(next(iter(arr.values()))) if arr else None
    try:
        if n is None:
            want = [feval(tree, {x: float(v) for x, (k, v) in env.items()})]
            scale = fscale(tree, {x: float(v) for x, (k, v) in env.items()})
        else:
            want, scale = [], 1.0
            for j in range(n):
                e1 = {x: (float(v[j]) if isinstance(v, list) else float(v)) for x, (k, v) in env.items()}
                want.append(feval(tree, e1))
                scale = max(scale, fscale(tree, e1))
    except Skip:
        return 'skip'
    got = outcome(lambda: make_expr(tree, build).evaluate_in_scope(scope_args(env)))
    if got[0] != 'ok':
        return 'raised/returned %s where math gives %s' % (got[1:3], want[:4])
    g = got[1] if isinstance(got[1], list) else [got[1]]
    if n is not None and not isinstance(got[1], list):
        g = g * n
    if len(g) != len(want):
        return 'returned %d values for %d samples' % (len(g), len(want))
    for a, b in zip(g, want):
        if isinstance(a, bool) or abs(float(a) - b) > 1e-12 * scale:
            return 'returned %r, math gives %r (scale %g)' % (float(a), b, scale)
    return None


def fam_transc(ctx, n):
    rng = ctx.fork('transc')
    bad = 0
    for i in range(n):
        arr = rng.random() < 0.4
        cfg = Cfg(numbers='general', fns=True, floorceil=False, mod=False, ite=False, index=False, bindex=False, sums=False,
                  ints=[], elementwise=['t'] if arr else [], array_len=rng.choice([2, 3, 5]))
        tree = ('fn', rng.choice(FNS), gen_num(rng, cfg, rng.randint(0, 2)))
        if rng.random() < 0.7:
            tree = (rng.choice(['add', 'mul', 'sub']), gen_num(rng, cfg, rng.randint(0, 2)), tree)
        env = gen_env(rng, tree, cfg, ('float',))
        r = transc_one(tree, env)
        ctx.count('transc:' + ('skipped' if r == 'skip' else 'cases'))
        if r == 'skip':
            continue
        ctx.case('transc ' + to_str(tree) + ' ' + json.dumps(env_json(env)), nontrivial=True)
        if r is not None:
            bad += 1
            ctx.disagreements += 1
            ctx.violation('transc (test level, python math as reference): %s %s with %s' % (to_str(tree), r, env_json(env)),
                          {'family': 'transc', 'kind': 'transc', 'tree': tree_to_json(tree), 'env': env_json(env)})
    return bad


def small_scope_trees(leaves, unary, binary):
    d1 = list(leaves)
    for u in unary:
        for a in leaves:
            d1.append(u + (a,) if u[0] != 'pow' else ('pow', a, u[1]))
    for b in binary:
        for x in leaves:
            for y in leaves:
                d1.append((b, x, y))
    out = list(d1)
    for b in binary:
        for x in d1:
            if x[0] in ('lit', 'var'):
                continue
            for y in leaves:
                out.append((b, x, y))
                out.append((b, y, x))
    for u in unary:
        for x in d1:
            if x[0] in ('lit', 'var'):
                continue
            out.append(u + (x,) if u[0] != 'pow' else ('pow', x, u[1]))
    return out


def fam_small_scope(ctx):
    """every formula of depth <= 2 over a small alphabet, in both evaluation modes"""
    if ctx.quick:
        leaves = [var('a'), var('b'), lit(2), lit(F(1, 2))]
        unary = [('neg',), ('floor',), ('pow', -1)]
        binary = ['sub', 'div', 'max']
    else:
        leaves = [var('a'), var('b'), lit(2), lit(F(1, 2)), lit(-3)]
        unary = [('neg',), ('floor',), ('ceil',), ('abs',), ('pow', -1), ('pow', 2)]
        binary = ['add', 'sub', 'mul', 'div', 'max', 'min']
    trees = small_scope_trees(leaves, unary, binary)
    ctx.exhaustive_spaces.append('all formulas of depth <= 2 over leaves {a, b, 2, 1/2%s}, unary %s, binary %s: %d formulas, each in numeric '
                                 'mode (a=3.5, b=-2 float/int) and exact mode (a=7/3 TimeType, b=-2 int)'
                                 % ('' if ctx.quick else ', -3', [u[0] + (str(u[1]) if len(u) > 1 else '') for u in unary], binary, len(trees)))
    cases = []
    for t in trees:
        cases.append(mk_eval(t, {x: kv for x, kv in {'a': ('float', F(7, 2)), 'b': ('int', F(-2))}.items() if x in tree_vars(t)},
                             {'mode': 'numeric', 'build': 'string', 'family': 'small-scope'}))
        cases.append(mk_eval(t, {x: kv for x, kv in {'a': ('tt', F(7, 3)), 'b': ('int', F(-2))}.items() if x in tree_vars(t)},
                             {'mode': 'exact', 'build': 'string', 'family': 'small-scope-exact'}))
    return run_cases(ctx, cases)


# ---------------------------------------------------------------------------------------------
# run / replay
# ---------------------------------------------------------------------------------------------

def rebuild_case(rec):
    """re-execute the implementation for one recorded case -> Case | None"""
    kind = rec.get('kind')
    env = env_from_json(rec['env']) if 'env' in rec else {}
    if kind == 'eval':
        return mk_eval(tree_from_json(rec['tree']), env, rec)
    if kind == 'partial':
        return mk_partial(tree_from_json(rec['tree']), env, rec)
    if kind == 'subst':
        return mk_subst(tree_from_json(rec['tree_in']), env, rec)
    if kind == 'arith':
        return mk_arith(tree_from_json(rec['tree_in']), env, rec)
    if kind == 'roundtrip':
        t = tree_from_json(rec['tree'])
        if rec.get('then') == 'arith-exact':
            t = t[1][1]          # recorded tree is tree * factor + addend
        if rec.get('derive') == 'arith' and rec.get('first'):
            t = t[1][1]          # recorded tree is (tree * x) / x
        return mk_roundtrip(t, env, rec)
    if kind == 'vector':
        return mk_vector([tree_from_json(t) for t in rec['trees']], env, rec)
    if kind == 'history':
        cs = history_cases(tree_from_json(rec['tree_hist']), F(rec['value']), rec['kinds'], [env_from_json(r) for r in rec['rests']], {})
        return [c for c in cs if c.extra['step'] == rec['step']][0]
    if kind == 'cached':
        rounds = [(m, env_from_json(e)) for m, e in rec['rounds']]
        return cached_cases(tree_from_json(rec['tree']), rounds, {})[rec['round']]
    return None


def load_known(ctx):
    PF27_LISTED[0] = any(kf.get('finding') == 'PF-C12e' for kf in ctx.findings.for_property('C12'))
    PF29_LISTED[0] = any(kf.get('finding') == 'PF-C12f' for kf in ctx.findings.for_property('C12'))


def replay(ctx: core.Ctx, rec: dict, from_corpus: bool = False) -> bool:
    core.ensure_repo_on_path()
    load_known(ctx)
    kind = rec.get('kind')
    before = len(ctx.violations)
    if kind == 'compare':
        envs = [env_from_json(e) for e in rec['envs']]
        out = check_compare_one(ctx, rec['op'], tree_from_json(rec['left']), tree_from_json(rec['right']), rec['lkind'], rec['rkind'], envs)
        ctx.case('replay-compare ' + json.dumps(rec.get('left')) + json.dumps(rec.get('right')))
        for text in out[:1]:
            ctx.violation('compare: ' + text, {k: v for k, v in rec.items() if not k.startswith('_')})
    elif kind == 'transc':
        tree, env = tree_from_json(rec['tree']), env_from_json(rec['env'])
        r = transc_one(tree, env)
        ctx.case('replay-transc ' + to_str(tree))
        if r not in (None, 'skip'):
            ctx.violation('transc (test level): %s %s' % (to_str(tree), r), {k: v for k, v in rec.items() if not k.startswith('_')})
    else:
        c = rebuild_case(rec)
        if c is None:
            raise core.MachineryError('cannot replay record of kind %r' % kind)
        run_cases(ctx, [c])
    return len(ctx.violations) == before


def known_pf27(ctx):
    """PF-C12e (open): a Sum whose upper limit is below its lower limit - 1.  Numeric evaluation runs python's empty
    range (value 0); once the limits are numbers sympy evaluates the same Sum by Karr's convention
    (Sum(f, (i, a, b)) = -Sum(f, (i, b+1, a-1))) wherever it needs its sign or value (Min/Max, comparisons), so
    substituting first and evaluating later gives another value than evaluating at once."""
    numpy, sympy, ES, EV, Expression, TimeType = _imports()
    for kf in ctx.findings.for_property('C12'):
        if kf.get('finding') != 'PF-C12e':
            continue
        w = kf['witness']
        scope = {k: (float(F(v)) if '/' in str(v) or '.' in str(v) else int(v)) for k, v in w['scope'].items()}
        at_once = outcome(lambda: ES(w['expression']).evaluate_in_scope(scope))
        first = outcome(lambda: ES(w['expression']).evaluate_symbolic(scope).evaluate_in_scope({}))
        ctx.case('known-finding PF-C12e ' + w['expression'], nontrivial=False)
        if at_once[0] == 'ok' and first[0] == 'ok' and at_once[1] != first[1]:
            ctx.known_finding('PF-C12e', '%s with %s evaluates to %s at once but to %s after substituting the same values first '
                              '(reversed summation range: lambdified empty range vs sympy\'s Karr convention)'
                              % (w['expression'], w['scope'], at_once[1], first[1]))
        return


def known_pf29(ctx):
    """PF-C12f (open): Min/Max over a nested Sum.  Once substitution leaves the nested Sum without free names sympy's
    Min/Max cannot compare it and `evaluate_symbolic` raises ValueError, although the formula evaluates at once."""
    numpy, sympy, ES, EV, Expression, TimeType = _imports()
    for kf in ctx.findings.for_property('C12'):
        if kf.get('finding') != 'PF-C12f':
            continue
        w = kf['witness']
        scope = {k: (float(F(v)) if '/' in str(v) or '.' in str(v) else int(v)) for k, v in w['scope'].items()}
        at_once = outcome(lambda: ES(w['expression']).evaluate_in_scope(scope))
        first = outcome(lambda: ES(w['expression']).evaluate_symbolic(scope).evaluate_in_scope({}))
        ctx.case('known-finding PF-C12f ' + w['expression'], nontrivial=False)
        if at_once[0] == 'ok' and first[0] == 'exc':
            ctx.known_finding('PF-C12f', '%s with %s evaluates to %s at once but evaluate_symbolic with the same values raises %s (%s)'
                              % (w['expression'], w['scope'], at_once[1], first[1], first[2][:80]))
        return


def known_c12g(ctx):
    """PF-C12g (open): the array branch of floor/ceiling returns an int64 array when every element fits; integer
    arithmetic on it then wraps around silently (numpy int64), e.g. -ceiling(t) with t = [-2.0**63]."""
    numpy, sympy, ES, EV, Expression, TimeType = _imports()
    for kf in ctx.findings.for_property('C12'):
        if kf.get('finding') != 'PF-C12g':
            continue
        w = kf['witness']
        t = numpy.array([float(F(x)) for x in w['t']])
        got = outcome(lambda: ES(w['expression']).evaluate_in_scope({'t': t}))
        ctx.case('known-finding PF-C12g ' + w['expression'], nontrivial=False)
        want = [F(x) for x in w['value']]
        if got[0] == 'ok' and got[1] != want:
            ctx.known_finding('PF-C12g', '%s with t = %s returns %s, the value is %s (int64 wrap-around after the array '
                              'branch of floor/ceiling)' % (w['expression'], w['t'], _show(got[1]), _show(want)))
        return


def run(ctx: core.Ctx):
    ctx.rule = ('random formula trees over + - * / integer powers Min Max floor ceiling Abs Mod comparisons & | ~ Piecewise '
                'indexing Broadcast Sum (depth <= 4 quick / 6 thorough), printed as qupulse strings (and built as sympy objects), '
                'with scopes of int / float / numpy scalars / TimeType / numpy arrays; families: numeric evaluation (dyadic values: '
                'exact comparison; general floats: tolerance from a running error analysis, cases whose discontinuous functions sit on '
                'a jump within that error are skipped and counted), arrays of sample times, exact-rational mode (exact comparison), '
                'random partial substitution orders, simultaneous substitution by formulas (swaps, cycles), repeated evaluation of '
                'one object with changing argument types and modes, serialisation round trips (plain/json/pickle; original and '
                'derived expressions), operators with numbers, ordering comparisons (soundness at random assignments), vectors, '
                'malformed scopes, all depth-2 formulas over a small alphabet. Non-trivial = the implementation returned a value '
                'for a formula with at least one operator; distinct by canonical request line')
    ctx.assumptions = [
        'sympy parser / simplifier / printer / lambdify and numpy ufuncs are modelled by QP.C12.eval, not verified',
        'IEEE-754: dyadic stream compared exactly, general stream within a running-error-analysis tolerance (generator aid in harness/c12.py)',
        'transcendental functions are compared with python math at 1e-12 relative in the harness only (test level, not in the Lean model)',
    ]
    load_known(ctx)
    for rec in ctx.corpus():
        replay(ctx, rec, from_corpus=True)
        ctx.corpus_replayed += 1
    known_pf27(ctx)
    known_pf29(ctx)
    known_c12g(ctx)
    import os
    import sys
    import time
    plan = [('small-scope', lambda: fam_small_scope(ctx)),
            ('eval', lambda: fam_eval(ctx, ctx.n(700, 12000))),
            ('array', lambda: fam_array(ctx, ctx.n(250, 4000))),
            ('exact', lambda: fam_exact(ctx, ctx.n(450, 8000))),
            ('partial', lambda: fam_partial(ctx, ctx.n(300, 5000))),
            ('subst', lambda: fam_subst(ctx, ctx.n(150, 2500))),
            ('history', lambda: fam_history(ctx, ctx.n(150, 2500))),
            ('sympy-args', lambda: fam_sympy_args(ctx, ctx.n(250, 4000))),
            ('shared-index', lambda: fam_shared_index(ctx, ctx.n(250, 4000))),
            ('huge', lambda: fam_huge(ctx, ctx.n(200, 3000))),
            ('cached', lambda: fam_cached(ctx, ctx.n(100, 1500))),
            ('roundtrip', lambda: fam_roundtrip(ctx, ctx.n(300, 5000))),
            ('arith', lambda: fam_arith(ctx, ctx.n(300, 5000))),
            ('compare', lambda: fam_compare(ctx, ctx.n(250, 4000))),
            ('vector', lambda: fam_vector(ctx, ctx.n(150, 2500))),
            ('transc', lambda: fam_transc(ctx, ctx.n(200, 3000))),
            ('malformed', lambda: fam_malformed(ctx, ctx.n(150, 2000)))]
    only = os.environ.get('C12_ONLY')
    timing = {}
    for name, fn in plan:
        if only and name not in only.split(','):
            continue
        t0 = time.time()
        if TIMEOUTS[0] >= 4:
            ctx.count('families-not-run-after-timeouts')
            continue
        fn()
        timing[name] = round(time.time() - t0, 1)
        if os.environ.get('VERIF_DEBUG'):
            print('  [c12] %s %.1fs' % (name, timing[name]), file=sys.stderr, flush=True)
    ctx.extra['family_wall_s'] = timing
