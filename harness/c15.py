"""C15 — updating volatile parameters equals re-instantiating with the new values.

Correspondence: real pulse templates (RepetitionPT / SequencePT / MappingPT / ForLoopPT over short
ConstantPT / TablePT / FunctionPT pulses) with nested, mapped and multiplied parameterised repetition
counts are instantiated with EVERY subset of their parameters marked volatile, sent through the
preparation pipelines {none, cleanup(), flatten_and_balance(2), TaborProgram (offline), cleanup()+TaborProgram,
TaborProgram with min_seq_len=3} and updated with sequences of <= 5 partial value updates.  After each
update the implementation's program / instrument tables are compared

  * with a FRESH create_program (+ same pipeline) at the accumulated values (implementation against itself),
  * by the Lean judge against the spec (fresh instantiation of the model, `QP.C15.handleJudge`),
  * with the Lean model's own updated program (correspondence; a difference the judge accepts is drift),

and, for Tabor, the value returned by `update_volatile_parameters` is compared with the set of table
cells that actually changed.  A pipeline keeps volatility when it emits no VolatileModificationWarning;
runs that emit it are outside the quantifier, are filtered on that warning and counted.
"""
from __future__ import annotations

import itertools
import json
import sys
import types
import warnings

import core
from core import sx

PIPELINES = ('none', 'cleanup', 'flatten2', 'tabor', 'cleanup+tabor', 'tabor3')
LEAN_PIPELINES = ('none', 'cleanup')
POOL = ('n', 'm', 'p', 'k')                     # integer parameters usable in counts
ATOM_DURATIONS = (192, 208, 224, 256, 240, 272)  # samples at 1 GS/s: >= 192 and multiples of 16


class Unsupported(Exception):
    pass


# ---------------------------------------------------------------------------------------------
# the implementation side
# ---------------------------------------------------------------------------------------------

_Q = None


def Q():
    """qupulse names (imported late, after $VERIF_REPO is on the path)"""
    global _Q
    if _Q is not None:
        return _Q
    if 'tabor_control' not in sys.modules:
        m = types.ModuleType('tabor_control')
        m.device = types.ModuleType('tabor_control.device')
        m.device.TEWXAwg = object
        sys.modules['tabor_control'] = m
        sys.modules['tabor_control.device'] = m.device
    ns = types.SimpleNamespace()
    from qupulse.pulses import (ConstantPT, TablePT, FunctionPT, RepetitionPT, SequencePT, MappingPT, ForLoopPT)
    from qupulse.program.loop import Loop, VolatileModificationWarning
    from qupulse.program.volatile import VolatileRepetitionCount
    from qupulse._program.tabor import TaborProgram
    from qupulse.utils.types import TimeType
    import sympy
    ns.ConstantPT, ns.TablePT, ns.FunctionPT = ConstantPT, TablePT, FunctionPT
    ns.RepetitionPT, ns.SequencePT, ns.MappingPT, ns.ForLoopPT = RepetitionPT, SequencePT, MappingPT, ForLoopPT
    ns.Loop, ns.VolatileModificationWarning = Loop, VolatileModificationWarning
    ns.VolatileRepetitionCount, ns.TaborProgram, ns.TimeType, ns.sympy = VolatileRepetitionCount, TaborProgram, TimeType, sympy
    _Q = ns
    return ns


def make_atom(k: int):
    q = Q()
    if k == 0:
        return q.ConstantPT(192, {'A': 0.5})
    if k == 1:
        return q.ConstantPT(208, {'A': -0.25})
    if k == 2:
        return q.TablePT({'A': [(0, 0), (96, 0.5, 'hold'), (224, 0.25, 'linear')]})
    if k == 3:
        return q.FunctionPT('0.5*sin(t/32)', 256, 'A')
    if k == 4:
        return q.TablePT({'A': [(0, 'v/8'), (240, 0, 'linear')]})      # parameter v: must not be volatile
    if k == 5:
        return q.ConstantPT(272, {'A': 0.125})
    raise ValueError(k)


def build(spec):
    """generator tree -> real pulse template"""
    q = Q()
    tag = spec[0]
    with warnings.catch_warnings():
        warnings.simplefilter('ignore')
        if tag == 'atom':
            return make_atom(spec[1])
        if tag == 'rep':
            return q.RepetitionPT(build(spec[2]), spec[1])
        if tag == 'seq':
            return q.SequencePT(*[build(c) for c in spec[1]])
        if tag == 'map':
            return q.MappingPT(build(spec[2]), parameter_mapping=dict(spec[1]), allow_partial_parameter_mapping=True)
        if tag == 'for':
            return q.ForLoopPT(build(spec[3]), spec[1], tuple(spec[2]))
    raise ValueError(tag)


def expr_sx(expr):
    """sympy's parsed form of a qupulse expression -> protocol expression"""
    sympy = Q().sympy

    def walk(e):
        if e.is_Integer:
            return int(e)
        if e.is_Symbol:
            return str(e)
        if e.is_Add:
            return ['+'] + [walk(a) for a in e.args]
        if e.is_Mul:
            return ['*'] + [walk(a) for a in e.args]
        if e.is_Pow and e.args[1].is_Integer and int(e.args[1]) >= 0:
            return ['^', walk(e.args[0]), int(e.args[1])]
        if isinstance(e, sympy.Max) and len(e.args) == 2 and any(a.is_Integer and int(a) == 0 for a in e.args):
            other = [a for a in e.args if not (a.is_Integer and int(a) == 0)]
            if len(other) == 1:
                return ['max0', walk(other[0])]
        raise Unsupported('expression %s' % e)
    return walk(sympy.sympify(expr.sympified_expression))


def pt_sx(pt):
    """real pulse template -> protocol term (walks the real object, so flattening done by qupulse is seen)"""
    q = Q()
    if isinstance(pt, q.RepetitionPT):
        return ['rep', expr_sx(pt.repetition_count), pt_sx(pt.body)]
    if isinstance(pt, q.SequencePT):
        return ['seq'] + [pt_sx(c) for c in pt.subtemplates]
    if isinstance(pt, q.MappingPT):
        return ['map', [[k, expr_sx(e)] for k, e in sorted(pt.parameter_mapping.items())], pt_sx(pt.template)]
    if isinstance(pt, q.ForLoopPT):
        r = pt.loop_range
        return ['for', pt.loop_index, expr_sx(r.start), expr_sx(r.stop), expr_sx(r.step), pt_sx(pt.body)]
    dur = int(pt.duration.evaluate_numeric())
    return ['atom', ATOM_DURATIONS.index(dur), sorted(pt.parameter_names)]


def scope_sx(sc):
    """real scope object -> protocol scope term"""
    from qupulse.parameter_scope import DictScope, MappedScope, JointScope
    from qupulse.pulses.range import RangeScope

    def as_int(v):
        if int(v) != v:
            raise Unsupported('non-integer constant %r' % (v,))
        return int(v)
    if isinstance(sc, DictScope):
        return ['dict', [[k, as_int(v)] for k, v in sorted(sc._values.items())], sorted(sc._volatile_parameters.keys())]
    if isinstance(sc, MappedScope):
        return ['mapped', scope_sx(sc._scope), [[k, expr_sx(e)] for k, e in sorted(sc._mapping.items())]]
    if isinstance(sc, RangeScope):
        return ['range', scope_sx(sc._inner), sc._index_name, as_int(sc._index_value)]
    if isinstance(sc, JointScope):
        lookup = dict(sc._lookup)
        if set(lookup) != {'parent_repetition_count', 'child_repetition_count'}:
            raise Unsupported('joint scope over %s' % sorted(lookup))
        return ['joint', scope_sx(lookup['parent_repetition_count']), scope_sx(lookup['child_repetition_count'])]
    raise Unsupported('scope %s' % type(sc).__name__)


def table_request(tp, new):
    """the volatile positions of a TaborProgram as a `tableUpdate` request of the Lean model"""
    cells = tabor_cells(tp)
    index = {c: i for i, c in enumerate(cells)}
    vpos = []
    deps = []
    for pos, rd in tp._parsed_program.volatile_parameter_positions.items():
        vpos.append([index[tabor_cell_of(tp, pos)], expr_sx(rd._expression), scope_sx(rd._scope)])
        deps.append(sorted(rd.volatile_property.dependencies.keys()))
    line = sx(['c15', 'table', [[k, int(v)] for k, v in sorted(new.items())], vpos, [cells[c][0] for c in cells]])
    return line, index, deps


def wf_id(waveform) -> int:
    return ATOM_DURATIONS.index(int(waveform.duration))


def vol_roots(prop) -> list:
    """top-level volatile parameters a volatile count depends on"""
    names = set()
    for e in prop.dependencies.values():
        names |= set(e.variables)
    return sorted(names)


def observe(loop) -> list:
    """Loop -> ['n'|'l', count, 'v'|'c', roots, wf | children...] (the shape Lean prints)"""
    rd = loop.repetition_definition
    vol = loop.volatile_repetition
    head = [str(int(rd)), 'v' if vol else 'c', vol_roots(vol) if vol else []]
    if loop.is_leaf():
        if loop.waveform is None:
            return ['n'] + head
        return ['l'] + head + [str(wf_id(loop.waveform))]
    return ['n'] + head + [observe(c) for c in loop]


def strip_roots(t):
    if t[0] == 'l':
        return t[:3] + [[]] + t[4:]
    return t[:3] + [[]] + [strip_roots(c) for c in t[4:]]


def play(t) -> list:
    """the unrolled sequence of waveform ids"""
    n = int(t[1])
    if t[0] == 'l':
        return [t[4]] * n
    body = []
    for c in t[4:]:
        body.extend(play(c))
    return body * n


def play_diff(a, b) -> str:
    """short description of two waveform sequences that differ"""
    k = 0
    while k < len(a) and k < len(b) and a[k] == b[k]:
        k += 1
    return 'lengths %d / %d, first difference at index %d: %s / %s' % (len(a), len(b), k, a[k:k + 6], b[k:k + 6])


def has_zero_vol(t) -> bool:
    if t[2] == 'v' and int(t[1]) == 0:
        return True
    return t[0] == 'n' and any(has_zero_vol(c) for c in t[4:])


def count_vol(t) -> int:
    return (1 if t[2] == 'v' else 0) + (sum(count_vol(c) for c in t[4:]) if t[0] == 'n' else 0)


def all_loops(loop):
    yield loop
    for c in loop:
        yield from all_loops(c)


def update_loop_program(program, new):
    """what a hardware backend does: `update_volatile_dependencies` on every volatile repetition definition"""
    q = Q()
    seen = set()
    for l in all_loops(program):
        rd = l.repetition_definition
        if isinstance(rd, q.VolatileRepetitionCount) and id(rd) not in seen:
            seen.add(id(rd))
            rd.update_volatile_dependencies(new)
        l._invalidate_duration()


def tabor_program(program, min_seq_len):
    q = Q()
    return q.TaborProgram(program,
                          device_properties=dict(chan_per_part=2, min_seq_len=min_seq_len, max_seq_len=64),
                          channels=('A', None), markers=(None, None), amplitudes=(8., 8.), offsets=(0., 0.),
                          voltage_transformations=(lambda x: x, lambda x: x),
                          sample_rate=q.TimeType.from_fraction(1, 1))


def tabor_observe(tp):
    """what the instrument plays: per advanced-table position (count, volatile?, [(count, volatile?, wf)...])
    with the table indirection resolved (sharing of equal tables is not observable)"""
    pp = tp._parsed_program
    vpos = pp.volatile_parameter_positions
    out = []
    for adv_idx, (rep, elem_no, _jump) in enumerate(pp.advanced_sequencer_table):
        table = pp.sequencer_tables[elem_no - 1]
        entries = []
        for seq_pos, ((r, elem_id, _j), volatile) in enumerate(table):
            entries.append((int(r), 'v' if volatile is not None else 'c', wf_id(pp.waveforms[elem_id])))
        out.append((int(rep), 'v' if adv_idx in vpos else 'c', tuple(entries)))
    return out


def tabor_play(obs):
    seq = []
    for rep, _v, entries in obs:
        one = []
        for r, _v2, wf in entries:
            one.extend([wf] * r)
        seq.extend(one * rep)
    return seq


def tabor_cells(tp):
    """raw table cells (before/after snapshots for `reports exactly the changed entries`)"""
    pp = tp._parsed_program
    cells = {}
    for i, e in enumerate(pp.advanced_sequencer_table):
        cells[('adv', i)] = tuple(int(x) for x in e)
    for ti, table in enumerate(pp.sequencer_tables):
        for si, (desc, _vol) in enumerate(table):
            cells[('seq', ti, si)] = tuple(int(x) for x in desc)
    return cells


def tabor_cell_of(tp, position):
    pp = tp._parsed_program
    if isinstance(position, int):
        return ('adv', position)
    adv_idx, seq_pos = position
    return ('seq', pp.advanced_sequencer_table[adv_idx].element_number - 1, seq_pos)


class Prepared:
    """an instantiated program after one pipeline"""

    def __init__(self, pipeline, program=None, tabor=None, outside=None, error=None):
        self.pipeline, self.program, self.tabor, self.outside, self.error = pipeline, program, tabor, outside, error


def prepare(pt, params, vol, pipeline) -> Prepared:
    """create_program + pipeline; classifies runs that drop volatility with a warning as outside"""
    q = Q()
    with warnings.catch_warnings(record=True) as w:
        warnings.simplefilter('always')
        try:
            program = pt.create_program(parameters=dict(params), volatile=set(vol))
            if program is None:
                return Prepared(pipeline, error='empty')
            tabor = None
            if pipeline in ('cleanup', 'cleanup+tabor'):
                program.cleanup()
            if pipeline == 'flatten2':
                program.flatten_and_balance(2)
            if pipeline in ('tabor', 'cleanup+tabor'):
                tabor = tabor_program(program, 1)
            if pipeline == 'tabor3':
                tabor = tabor_program(program, 3)
            # touching volatile_repetition evaluates the volatile mapping of merged counts (PF-07 site)
            for l in all_loops(program):
                l.volatile_repetition
        except Exception as exc:  # noqa
            return Prepared(pipeline, error=type(exc).__name__ + ':' + str(exc)[:120])
    if any(issubclass(x.category, q.VolatileModificationWarning) for x in w):
        return Prepared(pipeline, program, tabor, outside='volatile-modification-warning')
    return Prepared(pipeline, program, tabor)


# ---------------------------------------------------------------------------------------------
# one case = template x parameters x volatile subset x update sequence, all pipelines
# ---------------------------------------------------------------------------------------------

def accumulate(params, ups):
    cur = dict(params)
    out = []
    for u in ups:
        for k, v in u.items():
            if k in cur:
                cur[k] = v
        out.append(dict(cur))
    return out


def lean_lines(ptsx, params, vol, ups, pipeline):
    p = [[k, int(v)] for k, v in sorted(params.items())]
    u = [[[k, int(v)] for k, v in sorted(x.items())] for x in ups]
    return sx(['c15', 'run', pipeline, ptsx, p, sorted(vol), u])


def judge_line(ptsx, params, vol, ups, pipeline, obs):
    p = [[k, int(v)] for k, v in sorted(params.items())]
    u = [[[k, int(v)] for k, v in sorted(x.items())] for x in ups]
    return sx(['c15', 'judge', pipeline, ptsx, p, sorted(vol), u, [strip_roots(obs)]])


def norm_model_tree(t):
    """parsed Lean tree -> same python form as observe() (roots sorted)"""
    if t[0] == 'l':
        return ['l', t[1], t[2], sorted(t[3]), t[4]]
    return ['n', t[1], t[2], sorted(t[3])] + [norm_model_tree(c) for c in t[4:]]


def same_but_roots(a, b):
    return strip_roots(a) == strip_roots(b)


def roots_subset(impl, model):
    if not set(impl[3]) <= set(model[3]):
        return False
    if impl[0] == 'n':
        return all(roots_subset(x, y) for x, y in zip(impl[4:], model[4:]))
    return True


class Case:
    def __init__(self, spec, params, vol, ups, family):
        self.spec, self.params, self.vol, self.ups, self.family = spec, dict(params), sorted(vol), [dict(u) for u in ups], family
        self.pending = []       # violations waiting for the "inside the quantifier" flag of the Lean model
        self.inside = None

    def defer(self, what, replay):
        self.pending.append((what, replay))

    def record(self, pipeline=None, **extra):
        r = {'kind': 'case', 'spec': self.spec, 'params': self.params, 'vol': self.vol, 'updates': self.ups,
             'family': self.family}
        if pipeline:
            r['pipeline'] = pipeline
        r.update(extra)
        return r


def run_case_impl(ctx, case: Case, pipelines=PIPELINES):
    """Runs the implementation on one case through all pipelines. Returns the list of Lean request
    descriptors [(kind, line, payload)] to be resolved in one batch later."""
    q = Q()
    try:
        pt = build(case.spec)
        ptsx = pt_sx(pt)
    except Unsupported:
        ctx.count('skipped:unsupported-expression')
        return []
    canonical = sx(['case', ptsx, [[k, v] for k, v in sorted(case.params.items())], case.vol,
                    [[[k, v] for k, v in sorted(u.items())] for u in case.ups]])
    requests = []
    acc = accumulate(case.params, case.ups)
    ctx.count('family:' + case.family)
    ctx.count('volatile-subset-size:%d' % len(case.vol))
    ctx.count('updates:%d' % len(case.ups))
    nontrivial = False
    for pipeline in pipelines:
        prep = prepare(pt, case.params, case.vol, pipeline)
        key = 'pipeline:%s' % pipeline
        if prep.error is not None:
            cls = prep.error.split(':')[0]
            ctx.count(key + ':error:' + cls)
            if cls == 'ValueError' and 'too many values to unpack' in prep.error or \
                    cls == 'ValueError' and 'not enough values to unpack' in prep.error:
                # JointScope.get_volatile_parameters iterating over keys (PF-07 / PF-08)
                ctx.violation('merging two volatile repetition counts raises %s (pipeline %s)' % (prep.error, pipeline),
                              case.record(pipeline, defect='PF-07'))
            elif pipeline in LEAN_PIPELINES:
                requests.append(('error', lean_lines(ptsx, case.params, case.vol, [], pipeline),
                                 (case, pipeline, cls)))
            continue
        if prep.outside:
            ctx.count(key + ':outside:' + prep.outside)
            continue
        # --- implementation: original, after each update, fresh -------------------------------
        if prep.tabor is None:
            orig = observe(prep.program)
        else:
            orig = tabor_observe(prep.tabor)
        steps = []
        broken = None
        for j, (u, cur) in enumerate(zip(case.ups, acc)):
            try:
                with warnings.catch_warnings(record=True) as w:
                    warnings.simplefilter('always')
                    if prep.tabor is None:
                        update_loop_program(prep.program, u)
                        upd = observe(prep.program)
                        report = None
                    else:
                        before = tabor_cells(prep.tabor)
                        try:
                            tline, tindex, tdeps = table_request(prep.tabor, u)
                        except Unsupported:
                            tline = None
                        mods = prep.tabor.update_volatile_parameters(dict(u))
                        after = tabor_cells(prep.tabor)
                        upd = tabor_observe(prep.tabor)
                        changed = {c for c in after if after[c] != before[c]}
                        reported = {}
                        reported_writes = []
                        for pos, entry in mods.items():
                            reported[tabor_cell_of(prep.tabor, pos)] = tuple(int(x) for x in entry)
                            reported_writes.append((tabor_cell_of(prep.tabor, pos), int(entry[0])))
                        report = (changed, reported, after)
                        if tline is not None:
                            requests.append(('table', tline,
                                             (case, pipeline, j, [after[c][0] for c in after],
                                              sorted((tindex[c], v) for c, v in reported_writes), tdeps)))
            except Exception as exc:  # noqa
                broken = (j, type(exc).__name__ + ':' + str(exc)[:120])
                break
            fresh_prep = prepare(pt, cur, case.vol, pipeline)
            steps.append((j, u, cur, upd, report, fresh_prep))
        if broken is not None:
            ctx.violation('update %d of %s raises %s (pipeline %s)' % (broken[0], case.ups, broken[1], pipeline),
                          case.record(pipeline))
            continue
        ctx.count(key + ':kept-volatility')
        nvol = count_vol(orig) if prep.tabor is None else \
            sum((1 if v == 'v' else 0) + sum(1 for e in ent if e[1] == 'v') for _r, v, ent in orig)
        if nvol:
            ctx.count(key + ':with-volatile-nodes')
            nontrivial = True
        for j, u, cur, upd, report, fresh_prep in steps:
            where = 'pipeline %s, after update %d (%s), accumulated %s' % (pipeline, j + 1, u, cur)
            if fresh_prep.error == 'empty':
                # every count became 0: a fresh instantiation is the empty program
                ctx.count(key + ':zero-count-step')
                played = play(upd) if prep.tabor is None else tabor_play(upd)
                if played:
                    case.defer('updated program plays %s, a fresh instantiation is empty; %s' % (played[:40], where),
                               case.record(pipeline, step=j))
                continue
            if fresh_prep.error is not None or fresh_prep.outside:
                # the fresh program at the new values has a different fate in this pipeline (it must unroll a
                # volatile loop there, or the table-length repair gives up): no fresh program to compare with
                ctx.count(key + ':fresh-not-comparable')
                continue
            if prep.tabor is None:
                fresh = observe(fresh_prep.program)
                if has_zero_vol(upd) or not same_shape(upd, fresh):
                    ctx.count(key + ':zero-count-step')
                    if play(upd) != play(fresh):
                        case.defer('updated program and fresh instantiation play different waveform sequences (%s); %s'
                                   % (play_diff(play(upd), play(fresh)), where), case.record(pipeline, step=j))
                elif upd != fresh:
                    case.defer('updated program %s differs from fresh instantiation %s; %s'
                                  % (sx(upd), sx(fresh), where), case.record(pipeline, step=j))
                else:
                    ctx.count(key + ':update-eq-fresh')
                if pipeline in LEAN_PIPELINES:
                    requests.append(('judge', judge_line(ptsx, case.params, case.vol, case.ups[:j + 1], pipeline, upd),
                                     (case, pipeline, j, upd)))
            else:
                fresh = tabor_observe(fresh_prep.tabor)
                zero = any(r == 0 for r, _v, ent in upd) or any(e[0] == 0 for _r, _v, ent in upd for e in ent)
                if zero:
                    ctx.count(key + ':zero-count-step')
                    if tabor_play(upd) != tabor_play(fresh):
                        case.defer('updated and freshly compiled tables play different waveform sequences (%s); %s'
                                   % (play_diff(tabor_play(upd), tabor_play(fresh)), where),
                                   case.record(pipeline, step=j))
                elif upd != fresh:
                    case.defer('updated instrument tables %s differ from freshly compiled tables %s; %s'
                                  % (upd, fresh, where), case.record(pipeline, step=j))
                else:
                    ctx.count(key + ':update-eq-fresh')
                changed, reported, after = report
                if set(reported) != changed:
                    case.defer('update_volatile_parameters reported cells %s but the cells that changed are %s; %s'
                                  % (sorted(reported), sorted(changed), where), case.record(pipeline, step=j))
                elif any(after[c] != v for c, v in reported.items()):
                    case.defer('update_volatile_parameters reported values %s, tables hold %s; %s'
                                  % (reported, {c: after[c] for c in reported}, where), case.record(pipeline, step=j))
                else:
                    ctx.count(key + ':report-exact')
                    if changed:
                        ctx.count(key + ':report-nonempty')
                    if len(changed) < nvol:
                        ctx.count(key + ':report-proper-subset-of-volatile')
        if pipeline in LEAN_PIPELINES:
            requests.append(('run', lean_lines(ptsx, case.params, case.vol, case.ups, pipeline),
                             (case, pipeline, orig, [s[3] for s in steps])))
            requests.append(('judge', judge_line(ptsx, case.params, case.vol, [], pipeline, orig),
                             (case, pipeline, -1, orig)))
    ctx.case(canonical, nontrivial=nontrivial)
    p = [[k, int(v)] for k, v in sorted(case.params.items())]
    requests.insert(0, ('flags', sx(['c15', 'flags', ptsx, p, sorted(case.vol)]), (case,)))
    return requests


def same_shape(a, b):
    if a[0] != b[0]:
        return False
    if a[0] == 'l':
        return a[4] == b[4]
    return len(a) == len(b) and all(same_shape(x, y) for x, y in zip(a[4:], b[4:]))


def resolve_lean(ctx, requests):
    """one batched driver call; compares model with implementation and applies the judge's verdicts"""
    if not requests:
        return
    answers = core.Lean.run([r[1] for r in requests])
    for (kind, line, payload), ans in zip(requests, answers):
        if ans and ans[0] == 'err':
            raise core.MachineryError('driver rejected %s: %s' % (line[:200], ans))
        if kind == 'flags':
            case = payload[0]
            case.inside = ans[1] == 'true'
            ctx.count('quantifier:' + ('inside' if case.inside else 'outside:zero-volatile-count-at-instantiation-or-volatile-range'))
            if case.inside:
                for what, rec in case.pending:
                    ctx.violation(what, rec)
            elif case.pending:
                ctx.count('outside:differences-not-judged', len(case.pending))
    for (kind, line, payload), ans in zip(requests, answers):
        if kind == 'flags':
            continue
        if kind == 'error':
            case, pipeline, cls = payload
            want = {'AssertionError': 'assertion', 'ParameterNotProvidedException': 'parameter_missing',
                    'ExpressionVariableMissingException': 'parameter_missing', 'ValueError': 'value_error',
                    'empty': 'empty'}.get(cls, cls)
            got = ans[1] if ans[0] == 'error' else ('empty' if ans[0] == 'ok' and len(ans[1]) == 1 else 'ok')
            ctx.count('error-stream:%s' % want)
            if got != want:
                ctx.drift('create_program error class vs QP.C15.createProgram', line, cls, sx(ans)[:300])
        elif kind == 'table':
            case, pipeline, j, cells_after, reported, deps = payload
            m_cells = [int(x) for x in ans[1]]
            m_mods = sorted((int(a), int(b)) for a, b in ans[2])
            m_deps = [sorted(d) for d in ans[3]]
            if m_cells != cells_after or m_mods != reported or m_deps != deps:
                ctx.drift('TaborProgram.update_volatile_parameters vs QP.C15.tableUpdate (%s, update %d)' % (pipeline, j + 1),
                          line[:600], sx([cells_after, [list(r) for r in reported], deps])[:400], sx(ans)[:400])
            else:
                ctx.count('structural-agreement:table-update')
        elif kind == 'judge':
            case, pipeline, j, obs = payload
            if ans[0] == 'violates' and not case.inside:
                ctx.count('judge:%s:outside-quantifier' % pipeline)
                ctx.count('outside:differences-not-judged')
                continue
            ctx.count('judge:%s:%s' % (pipeline, ans[0] if ans[0] != 'violates' else 'violates-' + ans[1]))
            if ans[0] == 'violates':
                what = {'marks': 'the volatile marks of the program differ from "count depends on a volatile parameter"',
                        'counts': 'repetition counts differ from a fresh instantiation at the new values',
                        'play': 'the program plays a different waveform sequence than a fresh instantiation'}[ans[1]]
                ctx.violation('%s: pipeline %s, %s; observed %s'
                              % (what, pipeline, 'at instantiation' if j < 0 else 'after update %d' % (j + 1), sx(obs)[:600]),
                              case.record(pipeline, step=j, judge=ans[1]))
            elif ans[0] == 'spec-error':
                ctx.count('judge:spec-error')
        else:
            case, pipeline, orig, upds = payload
            if ans[0] != 'ok':
                ctx.drift('create_program vs QP.C15.createProgram (model raises)', line, sx(orig)[:300], sx(ans)[:300])
                continue
            model_orig = norm_model_tree(ans[1][1]) if len(ans[1]) > 1 else None
            model_upds = [norm_model_tree(a[1]) if len(a) > 1 else None for a in ans[2:2 + len(upds)]]
            pairs = [(orig, model_orig)] + list(zip(upds, model_upds))
            agree = True
            for idx, (impl, model) in enumerate(pairs):
                if model is None or not same_but_roots(impl, model):
                    agree = False
                    ctx.drift('%s program vs QP.C15 model (%s)' % (pipeline, 'orig' if idx == 0 else 'update %d' % idx),
                              line, sx(impl)[:400], sx(model)[:400] if model else 'none')
                    break
                if not roots_subset(impl, model):
                    agree = False
                    ctx.drift('%s dependency roots vs QP.C15 model' % pipeline, line, sx(impl)[:400], sx(model)[:400])
                    break
                if impl == model:
                    ctx.count('structural-agreement:roots-equal')
            if agree:
                ctx.count('structural-agreement:%s' % pipeline)


# ---------------------------------------------------------------------------------------------
# generators
# ---------------------------------------------------------------------------------------------

EXPRS1 = ['{a}', '2*{a}', '{a}+1', '{a}*{a}', '3*{a}-1']
EXPRS2 = ['{a}*{b}', '{a}+{b}', '2*{a}+{b}', '{a}+2*{b}+1', '{a}-{b}+3', '{a}*{b}+1']
LITERALS = ['1', '2', '3']


def gen_expr(rng, names, p_literal=0.2):
    if not names or rng.random() < p_literal:
        return rng.choice(LITERALS)
    if len(names) >= 2 and rng.random() < 0.5:
        a, b = rng.sample(names, 2)
        return rng.choice(EXPRS2).format(a=a, b=b)
    return rng.choice(EXPRS1).format(a=rng.choice(names))


def spec_params(spec) -> set:
    return set(build(spec).parameter_names)


def gen_spec(rng, depth, names):
    """random template tree; `names` are the integer parameter names usable in count expressions here"""
    if depth <= 0 or rng.random() < 0.12:
        return ('atom', rng.choice([0, 1, 2, 3, 5] + ([4] if rng.random() < 0.25 else [])))
    kind = rng.choices(['rep', 'seq', 'map', 'for'], [5, 3, 2, 2])[0]
    if kind == 'rep':
        return ('rep', gen_expr(rng, list(names)), gen_spec(rng, depth - 1, names))
    if kind == 'seq':
        return ('seq', [gen_spec(rng, depth - 1, names) for _ in range(rng.choice([2, 2, 3]))])
    if kind == 'map':
        body = gen_spec(rng, depth - 1, names)
        inner = sorted(spec_params(body) & set(POOL))
        if not inner:
            return body
        keys = rng.sample(inner, rng.randint(1, min(2, len(inner))))
        mapping = {}
        for k in keys:
            mapping[k] = gen_expr(rng, list(POOL), p_literal=0.1)
        return ('map', sorted(mapping.items()), body)
    body = gen_spec(rng, depth - 1, names)
    inner = sorted(spec_params(body) & set(POOL))
    if inner and rng.random() < 0.6:
        idx = rng.choice(inner)                      # the loop index shadows a (possibly volatile) parameter
    else:
        idx = 'i'
        nm = list(names) or ['n']
        e = rng.choice(['i+1', '{a}*i+1', 'i+{a}', '2*i+{a}', '{a}*(i+1)']).format(a=rng.choice(nm))
        body = ('rep', e, body)
    lo = rng.choice([0, 1, 1])
    rng_spec = rng.choice([(lo, lo + 2), (lo, lo + 3), (lo, lo + 4, 2), (3, lo, -1)])
    if rng.random() < 0.12:
        rng_spec = (lo, 'r')                           # parameterised range (volatile r: outside the property)
    return ('for', idx, list(rng_spec), body)


def gen_updates(rng, vol, n_max=5):
    ups = []
    for _ in range(rng.randint(1, n_max)):
        keys = rng.sample(sorted(vol), rng.randint(1, len(vol)))
        ups.append({k: rng.choice([0, 1, 1, 2, 3, 4, 5, 7]) for k in keys})
    return ups


def subsets(names):
    names = sorted(names)
    for r in range(len(names) + 1):
        for c in itertools.combinations(names, r):
            yield list(c)


def random_cases(ctx, n_templates, max_subsets, part=None):
    rng = ctx.fork('templates' if part is None else 'templates/%d' % part)
    for _ in range(n_templates):
        spec = gen_spec(rng, rng.choice([2, 3, 3, 4]), list(POOL[:3]))
        try:
            names = sorted(spec_params(spec))
        except Exception:  # noqa  (LoopIndexNotUsed etc.: not a template)
            ctx.count('skipped:not-a-template')
            continue
        if not set(names) & set(POOL):
            ctx.count('skipped:no-count-parameter')
            continue
        params = {k: rng.choice([1, 2, 2, 3, 4]) for k in names}
        if 'r' in params:
            params['r'] = rng.choice([2, 3])
        if rng.random() < 0.15:
            params[rng.choice(names)] = 0             # a count may be 0 at instantiation
        subs = list(subsets(names))
        if len(subs) > max_subsets:
            subs = [subs[0], subs[-1]] + rng.sample(subs[1:-1], max_subsets - 2)
        for vol in subs:
            ups = gen_updates(rng, vol) if vol else []
            yield Case(spec, params, vol, ups, 'random')
        if rng.random() < 0.1 and len(names) > 1:
            # malformed stream: a declared parameter is missing
            missing = dict(params)
            del missing[rng.choice(names)]
            yield Case(spec, missing, [], [], 'malformed-missing-parameter')


def exhaustive_cases(ctx, part=None, parts=1):
    """all two-level nestings over a small expression set x all volatile subsets x all single updates"""
    exprs = ctx.n(['2', 'n', 'n*m', '2*n+m'], ['2', 'n', 'm', 'n*m', '2*n+m', 'n+1'])
    vals = ctx.n([0, 1, 3], [0, 1, 2, 3])
    shapes = [lambda e1, e2: ('rep', e1, ('rep', e2, ('atom', 0))),
              lambda e1, e2: ('rep', e1, ('seq', [('rep', e2, ('atom', 0)), ('atom', 1)])),
              lambda e1, e2: ('seq', [('rep', e1, ('seq', [('atom', 0), ('atom', 1)])), ('rep', e2, ('atom', 2))])]
    n = 0
    tno = -1
    for shape in shapes:
        for e1 in exprs:
            for e2 in exprs:
                tno += 1
                if part is not None and tno % parts != part:
                    continue
                spec = shape(e1, e2)
                names = sorted(spec_params(spec))
                if not names:
                    continue
                params = {k: 2 for k in names}
                for vol in subsets(names):
                    if not vol:
                        yield Case(spec, params, vol, [], 'exhaustive')
                        n += 1
                        continue
                    for combo in itertools.product(vals, repeat=len(vol)):
                        yield Case(spec, params, vol, [dict(zip(vol, combo))], 'exhaustive')
                        n += 1
    ctx.exhaustive_spaces.append('3 two-level shapes x count expressions %s^2 x every volatile subset x every single '
                                 'update with values in %s%s' % (exprs, vals, ' (%d cases)' % n if part is None else ''))


def sequence_cases(ctx, n, part=None):
    """multi-parameter counts with partial updates (a stale scope shows on the second update)"""
    rng = ctx.fork('sequences' if part is None else 'sequences/%d' % part)
    for _ in range(n):
        e = rng.choice(['2*n+m', 'n*m', 'n+m', 'n+2*m+1'])
        shape = rng.choice([
            ('rep', e, ('atom', 0)),
            ('seq', [('rep', e, ('seq', [('atom', 0), ('atom', 1)])), ('atom', 2)]),
            ('map', [('k', e)], ('rep', 'k', ('rep', 'p', ('atom', 3)))),
            ('rep', 'p', ('map', [('k', e)], ('rep', 'k', ('atom', 1)))),
            ('for', 'i', [0, 2], ('rep', 2, ('seq', [('rep', 'n*i+m', ('atom', 0)), ('atom', 1)]))),
        ])
        names = sorted(spec_params(shape))
        params = {k: rng.choice([1, 2, 3]) for k in names}
        vol = [k for k in names if k in ('n', 'm')] + (['p'] if 'p' in names and rng.random() < 0.5 else [])
        ups = []
        for j in range(rng.randint(2, 5)):
            k = rng.choice(vol)
            ups.append({k: rng.choice([1, 2, 3, 4, 5])})
        yield Case(shape, params, vol, ups, 'partial-update-sequences')


def coincide_cases(ctx, n, part=None):
    """volatile counts that are equal at instantiation (n = 0) and differ after an update: equal-looking
    instrument tables must not be shared (PF-C15a)"""
    rng = ctx.fork('coincide' if part is None else 'coincide/%d' % part)
    for _ in range(n):
        e = rng.choice(['n*i+1', 'n*i+m', 'n*i*i+1', 'm+n*i'])
        inner = rng.choice([
            ('rep', rng.choice(['2', '3', 'm']), ('seq', [('rep', e, ('atom', 0)), ('atom', 1)])),
            ('rep', '2', ('seq', [('atom', 2), ('rep', e, ('atom', 0)), ('rep', 'm', ('atom', 1))])),
            ('seq', [('rep', e, ('atom', 3)), ('rep', 2, ('seq', [('rep', e, ('atom', 0)), ('atom', 1)]))]),
        ])
        spec = ('for', 'i', rng.choice([[0, 2], [0, 3], [1, 3]]), inner)
        names = sorted(spec_params(spec))
        params = {k: rng.choice([1, 2]) for k in names}
        params['n'] = 0
        vol = ['n'] + (['m'] if 'm' in names and rng.random() < 0.5 else [])
        ups = [{'n': rng.choice([1, 2, 3])}]
        for _j in range(rng.randint(0, 3)):
            k = rng.choice(vol)
            ups.append({k: rng.choice([0, 1, 2, 3]) if k == 'n' else rng.choice([1, 2, 3])})
        yield Case(spec, params, vol, ups, 'coincide-at-instantiation')


# ---------------------------------------------------------------------------------------------
# the run
# ---------------------------------------------------------------------------------------------

# ---------------------------------------------------------------------------------------------
# float-valued counts: 't_hold / t_unit' and friends, integral only up to float rounding
# ---------------------------------------------------------------------------------------------

FLOAT_PIPELINES = ('none', 'cleanup', 'tabor', 'cleanup+tabor')
FLOAT_SHAPES = {
    'rep': lambda e: ('rep', e, ('atom', 0)),
    'seq': lambda e: ('seq', [('atom', 1), ('rep', e, ('seq', [('atom', 0), ('atom', 2)])), ('atom', 5)]),
    'nested': lambda e: ('rep', 'n', ('rep', e, ('atom', 3))),
    'mapped': lambda e: ('seq', [('atom', 2), ('map', [('k', e)], ('rep', 'k', ('rep', 2, ('seq', [('atom', 0), ('atom', 1)]))))]),
}
FLOAT_EXPRS = ('t_hold / t_unit', 't_hold * rate', 't_hold / t_unit + 1')


def float_value(rd):
    """exact value of the float a volatile count expression evaluates to (real scope machinery, no rounding)"""
    import fractions
    return fractions.Fraction(float(rd._expression.evaluate_in_scope(rd._scope)))


def strip_flags(t):
    if isinstance(t, tuple):                       # tabor observation
        return (t[0], tuple((e[0], e[2]) for e in t[2]))
    if t[0] == 'l':
        return ['l', t[1], t[4]]
    return ['n', t[1]] + [strip_flags(c) for c in t[4:]]


def float_cases(ctx, n, part=None):
    rng = ctx.fork('floats' if part is None else 'floats/%d' % part)
    for _ in range(n):
        e = rng.choice(FLOAT_EXPRS)
        shape = rng.choice(sorted(FLOAT_SHAPES))
        spec = FLOAT_SHAPES[shape](e)
        if 'rate' in e:
            second, unit = 'rate', rng.choice([100.0, 10.0, 1000.0, 30.0])
            grid = 1.0 / unit
        else:
            second, unit = 't_unit', rng.choice([0.1, 0.2, 0.3, 0.7, 0.05, 0.6])
            grid = unit
        ks = [rng.choice([2, 4, 5, 8])] + [rng.randint(1, 40) for _j in range(rng.randint(2, 5))]
        values = [float(repr(round(k * grid, 10))) for k in ks]
        params = {'t_hold': values[0], second: unit}
        if shape == 'nested':
            params['n'] = rng.choice([1, 2, 3])
        names = sorted(params)
        vol = rng.choice([['t_hold'], ['t_hold'], ['t_hold', second], names])
        ups = []
        for v in values[1:]:
            u = {'t_hold': v}
            if 'n' in vol and rng.random() < 0.3:
                u['n'] = rng.choice([1, 2, 4])
            ups.append(u)
        yield {'kind': 'float', 'spec': spec, 'params': params, 'vol': sorted(vol), 'updates': ups,
               'family': 'float-counts'}


def float_exhaustive(ctx):
    """every multiple k*unit, k = 1..K, reached by one update from an exactly representable start"""
    kmax = ctx.n(24, 60)
    units = ctx.n([0.1, 0.3, 0.7], [0.1, 0.2, 0.3, 0.6, 0.7, 0.05, 0.9])
    n = 0
    for unit in units:
        ks = list(range(1, kmax + 1))
        for chunk in range(0, len(ks), 6):
            ups = [{'t_hold': float(repr(round(k * unit, 10)))} for k in ks[chunk:chunk + 6]]
            n += len(ups)
            yield {'kind': 'float', 'spec': FLOAT_SHAPES['seq']('t_hold / t_unit'),
                   'params': {'t_hold': 2 * unit, 't_unit': unit}, 'vol': ['t_hold'], 'updates': ups,
                   'family': 'float-exhaustive'}
    ctx.exhaustive_spaces.append("float counts 't_hold / t_unit': every t_hold = k*t_unit (decimal literal), k = 1..%d, "
                                 't_unit in %s, supplied through an update (%d updates)' % (kmax, units, n))


def run_float_case(ctx, rec, pipelines=FLOAT_PIPELINES):
    """a float-valued count must, after every update, be the integer nearest to the float value of its expression
    (Lean judge `fcount`) and equal the count of a fresh, non-volatile instantiation at the new values"""
    q = Q()
    spec = _tup(rec['spec'])
    pt = build(spec)
    params, vol, ups = dict(rec['params']), sorted(rec['vol']), [dict(u) for u in rec['updates']]
    canonical = 'float-case ' + json.dumps([rec['spec'], params, vol, ups], sort_keys=True)
    acc = accumulate(params, ups)
    ctx.count('family:' + rec.get('family', 'float-counts'))
    requests = []
    nontrivial = False

    def record(pipeline, **extra):
        r = {'kind': 'float', 'spec': rec['spec'], 'params': params, 'vol': vol, 'updates': ups,
             'family': rec.get('family', 'float-counts'), 'pipeline': pipeline}
        r.update(extra)
        return r
    for pipeline in pipelines:
        key = 'float:%s' % pipeline
        reference0 = prepare(pt, params, [], pipeline)
        prep = prepare(pt, params, vol, pipeline)
        if prep.error is not None:
            if reference0.error is None:
                ctx.violation('instantiation with volatile=%s raises %s, without the volatile marker it succeeds '
                              '(pipeline %s)' % (vol, prep.error, pipeline), record(pipeline))
            else:
                ctx.count(key + ':error:' + prep.error.split(':')[0])
            continue
        if prep.outside:
            ctx.count(key + ':outside:' + prep.outside)
            continue
        ctx.count(key + ':kept-volatility')
        for j, (u, cur) in enumerate(zip(ups, acc)):
            where = 'pipeline %s, after update %d (%s), accumulated %s' % (pipeline, j + 1, u, cur)
            try:
                with warnings.catch_warnings(record=True):
                    warnings.simplefilter('always')
                    if prep.tabor is None:
                        update_loop_program(prep.program, u)
                        upd = observe(prep.program)
                        vols = [(l.repetition_definition, int(l.repetition_definition)) for l in all_loops(prep.program)
                                if l.volatile_repetition]
                    else:
                        before = tabor_cells(prep.tabor)
                        mods = prep.tabor.update_volatile_parameters(dict(u))
                        after = tabor_cells(prep.tabor)
                        upd = tabor_observe(prep.tabor)
                        vols = [(rd, after[tabor_cell_of(prep.tabor, pos)][0])
                                for pos, rd in prep.tabor._parsed_program.volatile_parameter_positions.items()]
                        changed = {c for c in after if after[c] != before[c]}
                        reported = {tabor_cell_of(prep.tabor, pos): tuple(int(x) for x in entry)
                                    for pos, entry in mods.items()}
                        if set(reported) != changed or any(after[c] != v for c, v in reported.items()):
                            ctx.violation('update_volatile_parameters reported %s but the cells that changed are %s; %s'
                                          % (reported, {c: after[c] for c in sorted(changed)}, where),
                                          record(pipeline, step=j))
                        else:
                            ctx.count(key + ':report-exact')
            except Exception as exc:  # noqa
                ctx.violation('update %d raises %s:%s (%s)' % (j + 1, type(exc).__name__, str(exc)[:100], where),
                              record(pipeline, step=j))
                break
            if vols:
                nontrivial = True
            for rd, shown in vols:
                val = float_value(rd)
                ctx.count('float-value:' + ('exact' if val.denominator == 1 else
                                            'below-integer' if val < round(val) else 'above-integer'))
                requests.append(('fcount', sx(['c15', 'fcount', val, int(shown)]),
                                 (record(pipeline, step=j), float(val), int(shown), where)))
            fresh = prepare(pt, cur, [], pipeline)
            if fresh.error == 'empty':
                played = play(upd) if prep.tabor is None else tabor_play(upd)
                if played:
                    ctx.violation('updated program plays %d waveforms, a fresh instantiation is empty; %s'
                                  % (len(played), where), record(pipeline, step=j))
                continue
            if fresh.error is not None or fresh.outside:
                ctx.count(key + ':fresh-not-comparable')
                continue
            if prep.tabor is None:
                fresh_obs = observe(fresh.program)
                a, b = strip_flags(upd), strip_flags(fresh_obs)
                zero = has_zero_vol(upd) or not same_shape(upd, fresh_obs)
                same = (play(upd) == play(fresh_obs)) if zero else (a == b)
            else:
                fresh_obs = tabor_observe(fresh.tabor)
                a, b = [strip_flags(t) for t in upd], [strip_flags(t) for t in fresh_obs]
                zero = any(t[0] == 0 or any(e[0] == 0 for e in t[2]) for t in upd)
                same = (tabor_play(upd) == tabor_play(fresh_obs)) if zero else (a == b)
            if same:
                ctx.count(key + ':update-eq-fresh')
            else:
                ctx.violation('float-valued count: updated %s differs from a fresh (non-volatile) instantiation %s; %s'
                              % (str(a)[:300], str(b)[:300], where), record(pipeline, step=j))
    ctx.case(canonical, nontrivial=nontrivial)
    return requests


def resolve_float(ctx, requests):
    if not requests:
        return
    answers = core.Lean.run([r[1] for r in requests])
    for (kind, line, (rec, val, shown, where)), ans in zip(requests, answers):
        if ans and ans[0] == 'err':
            raise core.MachineryError('driver rejected %s: %s' % (line[:200], ans))
        ctx.count('judge:float-count:' + ans[0])
        if ans[0] == 'violates':
            ctx.violation('float-valued volatile count: the expression evaluates to %r, the count shown is %d, the '
                          'nearest integer (what a fresh instantiation uses) is %s; %s' % (val, shown, ans[1], where), rec)


def run_float_cases(ctx, recs, pipelines=FLOAT_PIPELINES):
    pending = []
    for rec in recs:
        pending.extend(run_float_case(ctx, rec, pipelines))
    resolve_float(ctx, pending)


def _tup(s):
    if isinstance(s, (list, tuple)):
        if s and s[0] == 'seq':
            return ('seq', [_tup(c) for c in s[1]])
        if s and s[0] == 'map':
            return ('map', [tuple(kv) for kv in s[1]], _tup(s[2]))
        if s and s[0] == 'for':
            return ('for', s[1], list(s[2]), _tup(s[3]))
        if s and s[0] == 'rep':
            return ('rep', s[1], _tup(s[2]))
        return tuple(s)
    return s


def run_cases(ctx, cases, pipelines=PIPELINES, batch=400):
    pending = []
    for case in cases:
        pending.extend(run_case_impl(ctx, case, pipelines))
        if len(pending) >= batch * 8:
            resolve_lean(ctx, pending)
            pending = []
    resolve_lean(ctx, pending)


class _Collect(core.Ctx):
    """run context of a worker process: collects instead of printing / writing replay files"""

    def __init__(self, pid, tier, seed):
        super().__init__(pid, tier, seed)
        self.collected = []

    def violation(self, what, replay, found_input=True):
        self.collected.append((what, replay, found_input))


FAMILIES = {}


def _worker(args):
    tier, seed, pipelines, family, part, size, extra = args
    sub = _Collect('C15', tier, seed)
    Q()
    warnings.filterwarnings('ignore')
    cases = FAMILIES[family](sub, size, part, extra)
    if family == 'floats':
        run_float_cases(sub, cases)
    else:
        run_cases(sub, cases, pipelines)
    return {'counters': sub.counters, 'evaluations': sub.evaluations, 'distinct': sub.distinct,
            'samples': sub.samples, 'violations': sub.collected, 'drifts': sub.drifts,
            'disagreements': sub.disagreements, 'spaces': sub.exhaustive_spaces}


def run_family_parallel(ctx, family, total, per_part, pipelines=PIPELINES, extra=None, workers=14):
    """the case family is generated inside the workers, part by part, from PRNG streams derived from the seed"""
    import multiprocessing
    parts = [(ctx.tier, ctx.seed, pipelines, family, k, min(per_part, total - k * per_part), extra)
             for k in range((total + per_part - 1) // per_part)]
    with multiprocessing.get_context('fork').Pool(workers) as pool:
        for res in pool.imap_unordered(_worker, parts):
            for k, v in res['counters'].items():
                ctx.count(k, v)
            ctx.evaluations += res['evaluations']
            ctx.distinct |= res['distinct']
            for smp in res['samples']:
                if len(ctx.samples) < 12:
                    ctx.samples.append(smp)
            ctx.disagreements += res['disagreements']
            ctx.drifts.extend(res['drifts'])
            for sp in res['spaces']:
                if sp not in ctx.exhaustive_spaces:
                    ctx.exhaustive_spaces.append(sp)
            for what, rec, found in res['violations']:
                ctx.violation(what, rec, found)


FAMILIES.update({
    'exhaustive': lambda ctx, size, part, extra: exhaustive_cases(ctx, part, extra),
    'sequences': lambda ctx, size, part, extra: sequence_cases(ctx, size, part),
    'coincide': lambda ctx, size, part, extra: coincide_cases(ctx, size, part),
    'random': lambda ctx, size, part, extra: random_cases(ctx, size, extra, part),
    'floats': lambda ctx, size, part, extra: float_cases(ctx, size, part),
})


def run(ctx: core.Ctx):
    ctx.rule = ('random template trees (depth <= 4) of RepetitionPT/SequencePT/MappingPT/ForLoopPT over 6 atomic pulses with '
                'count expressions over n,m,p,k (nested, mapped through MappingPT, multiplied, depending on the loop index, '
                'loop index shadowing a parameter) x EVERY subset of the declared parameters volatile (sampled above a cap '
                'in quick) x update sequences of 1..5 partial updates with values in {0,1,2,3,4,5,7} x 6 pipelines; plus an '
                'exhaustive two-level family, a partial-update-sequence family, a family whose volatile counts coincide at '
                'instantiation and diverge later, and a malformed stream (missing parameter, volatile parameter of an atomic '
                'pulse); a float stream: counts like t_hold / t_unit, t_hold * rate over float parameters whose value is '
                'integral only up to float rounding (just below, just above, exact), supplied through update sequences, every '
                'multiple k*t_unit exhaustively, compared with a fresh non-volatile instantiation and judged by floatCount. '
                'Non-trivial = the prepared program contains at least one volatile node in some pipeline; distinct by '
                'canonical (template, parameters, volatile set, updates) line')
    ctx.assumptions = [
        'templates carry no measurement declarations and no parameter constraints (merge condition = single child)',
        'for-loop ranges do not depend on volatile parameters and volatile-dependent counts are positive at '
        'instantiation (hypothesis `inside` of update_eq_fresh; such cases are generated, classified by the model and '
        'counted as outside)',
        'C15 uses the membership view isVol of get_volatile_parameters; the dict-level model is C13',
        'flatten_and_balance, prepare_program_for_advanced_sequence_mode and the layout of the Tabor tables are '
        'correspondence-only (updated against freshly compiled, on the implementation); the table update itself is '
        'modelled (tableUpdate) and compared on the real volatile positions',
        'float-valued counts: the expression value is taken from the real scope machinery (float arithmetic is not '
        'modelled); the spec floatCount = nearest integer of that exact value judges the count shown after an update',
        'PF-07, PF-C15a, PF-C15b, PF-C15c, PF-C15d repaired (fixes/*.diff): the check passes only with these applied',
    ]
    Q()
    for rec in ctx.corpus():
        replay(ctx, rec, from_corpus=True)
        ctx.corpus_replayed += 1
    if ctx.quick:
        run_cases(ctx, exhaustive_cases(ctx), pipelines=('none', 'cleanup', 'tabor'))
        run_cases(ctx, sequence_cases(ctx, 50))
        run_cases(ctx, coincide_cases(ctx, 12))
        run_cases(ctx, random_cases(ctx, 60, 6))
        run_float_cases(ctx, float_exhaustive(ctx), pipelines=('none', 'tabor'))
        run_float_cases(ctx, float_cases(ctx, 24))
    else:
        run_family_parallel(ctx, 'exhaustive', 28, 1, pipelines=('none', 'cleanup', 'flatten2', 'tabor', 'cleanup+tabor'),
                            extra=28)
        run_family_parallel(ctx, 'sequences', 1500, 50)
        run_family_parallel(ctx, 'coincide', 300, 25)
        run_family_parallel(ctx, 'random', 2800, 25, extra=16)
        run_float_cases(ctx, float_exhaustive(ctx))
        run_family_parallel(ctx, 'floats', 1500, 50)


def replay(ctx: core.Ctx, rec: dict, from_corpus: bool = False) -> bool:
    Q()
    before = len(ctx.violations)
    if rec.get('kind') == 'float':
        run_float_cases(ctx, [rec], (rec['pipeline'],) if rec.get('pipeline') else FLOAT_PIPELINES)
        return len(ctx.violations) == before

    def tup(s):
        if isinstance(s, list):
            if s and s[0] == 'seq':
                return ('seq', [tup(c) for c in s[1]])
            if s and s[0] == 'map':
                return ('map', [tuple(kv) for kv in s[1]], tup(s[2]))
            if s and s[0] == 'for':
                return ('for', s[1], list(s[2]), tup(s[3]))
            if s and s[0] == 'rep':
                return ('rep', s[1], tup(s[2]))
            return tuple(s)
        return s
    case = Case(tup(rec['spec']), rec['params'], rec['vol'], rec['updates'], rec.get('family', 'replay'))
    pipelines = (rec['pipeline'],) if rec.get('pipeline') else PIPELINES
    reqs = run_case_impl(ctx, case, pipelines)
    resolve_lean(ctx, reqs)
    return len(ctx.violations) == before
