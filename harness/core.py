"""Shared machinery of the qupulse verification checks (DESIGN.md section 2).

Everything here is property independent: S-expression transport, the Lean build / audit /
driver calls, the run context (seeded PRNG, counters, evidence), violation reporting with
replay files, known findings, and a worker-with-timeout for implementation calls that may hang.
"""
from __future__ import annotations

import fractions
import hashlib
import json
import multiprocessing
import os
import random
import re
import subprocess
import sys
import tempfile
import time
from typing import Any, Callable, Iterable, List, Optional, Sequence

HERE = os.path.dirname(os.path.abspath(__file__))
VERIF = os.path.dirname(HERE)
LEAN_DIR = os.path.join(VERIF, 'lean')
EVIDENCE_DIR = os.path.join(VERIF, 'evidence')
REPLAY_DIR = os.path.join(EVIDENCE_DIR, 'replay')
CORPUS_DIR = os.path.join(VERIF, 'corpus')
KNOWN_FINDINGS = os.path.join(VERIF, 'known_findings.jsonl')
REPO = os.environ.get('VERIF_REPO', '/repo')

ALLOWED_AXIOMS = {'propext', 'Classical.choice', 'Quot.sound'}
FORBIDDEN = re.compile(r'\bsorry\b|\badmit\b|^axiom |native_decide|bv_decide|implemented_by|'
                       r'\bunsafe |maxHeartbeats 0')


class MachineryError(Exception):
    """Something in /verif itself is broken (exit status 2, never a VIOLATION)."""


# ------------------------------------------------------------------------------------------------
# S-expressions
# ------------------------------------------------------------------------------------------------

class Atom(str):
    """A bare token. Plain python `str` values are serialised as atoms too."""


def sx(obj: Any) -> str:
    """Serialise nested python data as one S-expression line."""
    if isinstance(obj, bool):
        return 'true' if obj else 'false'
    if isinstance(obj, int):
        return str(obj)
    if isinstance(obj, fractions.Fraction):
        return '(q %d %d)' % (obj.numerator, obj.denominator)
    if isinstance(obj, str):
        if obj == '' or re.search(r'[\s()]', obj):
            raise MachineryError('atom not transportable: %r' % (obj,))
        return obj
    if isinstance(obj, (list, tuple)):
        return '(' + ' '.join(sx(o) for o in obj) + ')'
    if obj is None:
        return 'none'
    if hasattr(obj, 'numerator') and hasattr(obj, 'denominator'):
        return '(q %d %d)' % (int(obj.numerator), int(obj.denominator))
    if hasattr(obj, '__index__'):
        return str(int(obj))
    raise MachineryError('cannot serialise %r' % (obj,))


_TOKEN = re.compile(r'[()]|[^\s()]+')


def parse_sx(line: str) -> Any:
    """Parse one S-expression line into nested lists of str; `(q n d)` stays a list."""
    stack: List[list] = [[]]
    for tok in _TOKEN.findall(line):
        if tok == '(':
            stack.append([])
        elif tok == ')':
            top = stack.pop()
            stack[-1].append(top)
        else:
            stack[-1].append(tok)
    if len(stack) != 1 or len(stack[0]) != 1:
        raise MachineryError('bad s-expression from driver: %r' % line[:200])
    return stack[0][0]


def as_frac(s: Any) -> fractions.Fraction:
    if isinstance(s, list) and len(s) == 3 and s[0] == 'q':
        return fractions.Fraction(int(s[1]), int(s[2]))
    return fractions.Fraction(int(s))


def to_frac(x: Any) -> fractions.Fraction:
    """Exact rational value of an int / float / TimeType / Fraction / numpy scalar."""
    if isinstance(x, fractions.Fraction):
        return x
    if isinstance(x, bool):
        return fractions.Fraction(int(x))
    if isinstance(x, int):
        return fractions.Fraction(x)
    if isinstance(x, float):
        return fractions.Fraction(x)
    if hasattr(x, 'numerator') and hasattr(x, 'denominator'):
        return fractions.Fraction(int(x.numerator), int(x.denominator))
    return fractions.Fraction(float(x))


# ------------------------------------------------------------------------------------------------
# Lean side
# ------------------------------------------------------------------------------------------------

def _run(cmd: Sequence[str], cwd: str, timeout: float, input_path: Optional[str] = None):
    stdin = open(input_path, 'rb') if input_path else subprocess.DEVNULL
    try:
        return subprocess.run(cmd, cwd=cwd, stdin=stdin, stdout=subprocess.PIPE,
                              stderr=subprocess.PIPE, timeout=timeout)
    finally:
        if input_path:
            stdin.close()


class Lean:
    """Build, audit and drive the Lean model."""

    driver = os.path.join(LEAN_DIR, '.lake', 'build', 'bin', 'qpdriver')

    @staticmethod
    def build(pids: Iterable[str]) -> float:
        t0 = time.time()
        targets = ['QP.Props.%s' % p for p in pids] + ['qpdriver']
        r = _run(['lake', 'build'] + targets, LEAN_DIR, 3600)
        if r.returncode != 0:
            raise MachineryError('lake build failed:\n' + (r.stdout + r.stderr).decode()[-4000:])
        return time.time() - t0

    @staticmethod
    def forbidden_scan() -> List[str]:
        hits = []
        for root, _dirs, files in os.walk(os.path.join(LEAN_DIR, 'QP')):
            for f in files:
                if not f.endswith('.lean'):
                    continue
                path = os.path.join(root, f)
                in_block = 0
                for no, line in enumerate(open(path, encoding='utf8'), 1):
                    code = line
                    # strip block comments (possibly nested) and line comments
                    out = ''
                    i = 0
                    while i < len(code):
                        if code.startswith('/-', i):
                            in_block += 1
                            i += 2
                        elif code.startswith('-/', i) and in_block:
                            in_block -= 1
                            i += 2
                        elif in_block:
                            i += 1
                        elif code.startswith('--', i):
                            break
                        else:
                            out += code[i]
                            i += 1
                    if FORBIDDEN.search(out):
                        hits.append('%s:%d: %s' % (os.path.relpath(path, VERIF), no, out.strip()))
        return hits

    @staticmethod
    def audit(pid: str) -> dict:
        r = _run(['lake', 'env', 'lean', '--run', 'Audit.lean', pid], LEAN_DIR, 1800)
        theorems = []
        summary = None
        for line in r.stdout.decode().splitlines():
            line = line.strip()
            if not line.startswith('{'):
                continue
            rec = json.loads(line)
            if 'theorem' in rec:
                theorems.append(rec)
            else:
                summary = rec
        if summary is None or 'error' in (summary or {}):
            raise MachineryError('audit failed for %s: %s %s' % (pid, r.stdout.decode()[-2000:],
                                                                  r.stderr.decode()[-2000:]))
        bad = [t for t in theorems if not set(t['axioms']) <= ALLOWED_AXIOMS]
        if bad:
            raise MachineryError('theorems with axioms outside the trusted base: %r' %
                                 [(t['theorem'], t['axioms']) for t in bad])
        return {'theorems': theorems, 'count': len(theorems)}

    @staticmethod
    def leanchecker(pid: str) -> float:
        t0 = time.time()
        r = _run(['lake', 'env', 'leanchecker', 'QP.Props.%s' % pid], LEAN_DIR, 3600)
        if r.returncode != 0:
            raise MachineryError('leanchecker rejected QP.Props.%s: %s' %
                                 (pid, (r.stdout + r.stderr).decode()[-2000:]))
        return time.time() - t0

    @staticmethod
    def run(lines: Sequence[str], timeout: float = 1800) -> List[Any]:
        """Pipe request lines to the compiled driver; returns one parsed answer per line."""
        if not lines:
            return []
        if not os.path.exists(Lean.driver):
            raise MachineryError('driver not built')
        with tempfile.NamedTemporaryFile('w', suffix='.sx', delete=False) as f:
            for l in lines:
                f.write(l)
                f.write('\n')
            path = f.name
        try:
            r = _run([Lean.driver], LEAN_DIR, timeout, input_path=path)
        finally:
            os.unlink(path)
        if r.returncode != 0:
            raise MachineryError('driver failed: ' + r.stderr.decode()[-2000:])
        out = r.stdout.decode().splitlines()
        if len(out) != len(lines):
            raise MachineryError('driver answered %d lines for %d requests' % (len(out), len(lines)))
        return [parse_sx(l) for l in out]


# ------------------------------------------------------------------------------------------------
# Implementation calls that may hang
# ------------------------------------------------------------------------------------------------

def _worker(fn, args, q):
    try:
        q.put(('ok', fn(*args)))
    except BaseException as e:  # noqa
        q.put(('exc', (type(e).__name__, str(e)[:300])))


def call_with_timeout(fn: Callable, args: tuple = (), timeout: float = 5.0):
    """Run fn(*args) in a forked child. Returns ('ok', value) | ('exc', (type, msg)) | ('timeout', None)."""
    ctx = multiprocessing.get_context('fork')
    q = ctx.Queue()
    p = ctx.Process(target=_worker, args=(fn, args, q))
    p.start()
    try:
        res = q.get(timeout=timeout)
    except Exception:
        res = ('timeout', None)
    if p.is_alive():
        p.terminate()
    p.join(1)
    if p.is_alive():
        p.kill()
        p.join()
    return res


def classify_exception(e: BaseException) -> str:
    """Small error enum (DESIGN 2.3)."""
    n = type(e).__name__
    table = {
        'ParameterConstraintViolation': 'constraint_violation',
        'ParameterNotProvidedException': 'parameter_missing',
        'ParameterNotIntegerException': 'not_integer',
        'ValueError': 'value_error',
        'KeyError': 'key_error',
        'TypeError': 'type_error',
        'ZeroDivisionError': 'zero_division',
        'AssertionError': 'assertion',
        'IndexError': 'index_error',
    }
    return table.get(n, 'other:' + n)


# ------------------------------------------------------------------------------------------------
# Run context
# ------------------------------------------------------------------------------------------------

class KnownFindings:
    def __init__(self):
        self.open: List[dict] = []
        self.fixed: List[dict] = []
        if os.path.exists(KNOWN_FINDINGS):
            for line in open(KNOWN_FINDINGS):
                line = line.strip()
                if not line or line.startswith('#'):
                    continue
                rec = json.loads(line)
                (self.open if rec.get('status') == 'open' else self.fixed).append(rec)

    def for_property(self, pid: str) -> List[dict]:
        return [r for r in self.open if r['property'] == pid]


class Ctx:
    """State of one check run for one property."""

    def __init__(self, pid: str, tier: str, seed: int):
        self.pid = pid
        self.tier = tier
        self.seed = seed
        self.rng = random.Random((seed * 1000003) ^ int(hashlib.sha256(pid.encode()).hexdigest()[:8], 16))
        self.t0 = time.time()
        self.evaluations = 0
        self.distinct: set = set()
        self.samples: List[Any] = []
        self.counters: dict = {}
        self.violations: List[dict] = []
        self.known_printed: List[str] = []
        self.disagreements = 0
        self.drifts: List[dict] = []
        self.extra: dict = {}
        self.exhaustive_spaces: List[str] = []
        self.findings = KnownFindings()
        self.rule = ''
        self.assumptions: List[str] = []
        self.corpus_replayed = 0
        self.escalate = False

    def fork(self, name: str) -> random.Random:
        """Independent PRNG stream for one case family (so one family replays without the others)."""
        h = hashlib.sha256(('%s/%d/%s' % (self.pid, self.seed, name)).encode()).hexdigest()
        return random.Random(int(h[:16], 16))

    # -- budget -----------------------------------------------------------------------------
    @property
    def quick(self) -> bool:
        return self.tier == 'quick'

    def n(self, quick: int, thorough: int) -> int:
        if self.quick and self.escalate and thorough > quick and self.elapsed() < 45:
            # a modelled source file changed since the model was aligned: spend a larger quick budget
            # (factor 1.5 per family, only during the first 45 s of the run, so the check stays a quick one)
            return min(thorough, quick + quick // 2)
        return quick if self.quick else thorough

    def elapsed(self) -> float:
        return time.time() - self.t0

    # -- bookkeeping ------------------------------------------------------------------------
    def count(self, key: str, inc: int = 1):
        self.counters[key] = self.counters.get(key, 0) + inc

    def case(self, canonical: str, nontrivial: bool = True, sample: bool = False):
        """Register one evaluated case. `canonical` is its canonical input line."""
        self.evaluations += 1
        if nontrivial:
            self.distinct.add(hashlib.blake2b(canonical.encode(), digest_size=8).digest())
        if sample or len(self.samples) < 3:
            if len(self.samples) < 12:
                self.samples.append(canonical if len(canonical) < 600 else canonical[:600] + '…')

    # -- reporting --------------------------------------------------------------------------
    def known_finding(self, finding_id: str, what: str):
        line = 'KNOWN-FINDING: property=%s %s %s' % (self.pid, finding_id, what)
        if line not in self.known_printed:
            self.known_printed.append(line)
            print(line, flush=True)

    def violation(self, what: str, replay: dict, found_input: bool = True):
        """Record a violation, write its replay file and print the VIOLATION line."""
        if len(self.violations) >= 20 and found_input:
            # enough replay files for one run; keep counting
            self.violations.append({'what': what, 'replay': None, 'found_input': found_input})
            return
        os.makedirs(REPLAY_DIR, exist_ok=True)
        body = dict(replay)
        body.update({'property': self.pid, 'what': what, 'seed': self.seed, 'tier': self.tier,
                     'failing_input_found': found_input})
        h = hashlib.sha256(json.dumps(body, sort_keys=True, default=str).encode()).hexdigest()[:12]
        path = os.path.join(REPLAY_DIR, '%s-%s.json' % (self.pid, h))
        with open(path, 'w') as f:
            json.dump(body, f, indent=1, default=str)
        self.violations.append({'what': what, 'replay': path, 'found_input': found_input})
        suffix = '' if found_input else ' no-failing-input-found'
        print('VIOLATION property=%s replay=%s%s' % (self.pid, path, suffix), flush=True)
        print('  ' + what[:400], flush=True)

    def drift(self, correspondence: str, case: Any, impl: Any, model: Any):
        """Model and implementation differ on `case` but the judge found no property violation there.
        Not a violation by itself: collected, and turned into one `no-failing-input-found` report at
        the end of the run if the failing-input search did not produce a concrete violation."""
        self.disagreements += 1
        self.drifts.append({'correspondence': correspondence, 'case': case, 'impl': impl, 'model': model})

    def finish(self):
        """Called by ./check after the property module's run()."""
        if self.drifts and not any(v['found_input'] for v in self.violations):
            names = sorted({d['correspondence'] for d in self.drifts})
            self.violation('correspondence no longer checks: model QP.%s and implementation differ on %d case(s) '
                           '[%s]; the theorems in QP.Props.%s therefore no longer cover the code; the failing-input '
                           'search found no input on which the implementation violates the property'
                           % (self.pid, len(self.drifts), ', '.join(names), self.pid),
                           {'broken': names, 'theorems_no_longer_tied': 'QP.Props.%s' % self.pid,
                            'first_differences': self.drifts[:10]}, found_input=False)

    # -- corpus -----------------------------------------------------------------------------
    def corpus(self) -> List[dict]:
        d = os.path.join(CORPUS_DIR, self.pid)
        out = []
        if os.path.isdir(d):
            for f in sorted(os.listdir(d)):
                if f.endswith('.json'):
                    rec = json.load(open(os.path.join(d, f)))
                    rec['_file'] = f
                    out.append(rec)
        return out

    # -- evidence ---------------------------------------------------------------------------
    def write_evidence(self, audit: dict, build_s: float, extra_checker: str = ''):
        os.makedirs(EVIDENCE_DIR, exist_ok=True)
        theorems = audit['theorems']
        cov = {
            'obligations': len(theorems),
            'discharged': len([t for t in theorems if t['ok']]),
            'checker_cmd': 'cd lean && lake build QP.Props.%s && lake env lean --run Audit.lean %s%s'
                           % (self.pid, self.pid, extra_checker),
            'trusted_base': [
                'Lean 4.33.0 kernel',
                'axioms: ' + ', '.join(sorted({a for t in theorems for a in t['axioms']}) or ['none']),
                'hand-written Lean model QP/Model/%s.lean tied to /repo by the correspondence run below' % self.pid,
                'correspondence harness harness/%s.py (serialiser, observable extraction, diff)' % self.pid.lower(),
            ] + self.assumptions,
            'theorems': [{'name': t['theorem'], 'axioms': t['axioms'],
                          'statement': t['statement'][:500]} for t in theorems],
            'evaluations': self.evaluations,
            'distinct_nontrivial': len(self.distinct),
            'rule': self.rule,
            'samples': self.samples,
            'disagreements_checked': self.disagreements,
            'traces_validated_against_impl': self.evaluations,
            'counters': dict(sorted(self.counters.items())),
            'exhaustive': bool(self.exhaustive_spaces),
            'exhaustive_spaces': self.exhaustive_spaces,
            'corpus_replayed': self.corpus_replayed,
            'known_findings_replayed': self.known_printed,
            'build_s': round(build_s, 2),
        }
        cov.update(self.extra)
        ev = {
            'property_id': self.pid,
            'tier': self.tier,
            'seed': self.seed,
            'level': 'proof',
            'coverage': cov,
            'assumptions': self.assumptions,
            'wall_s': round(self.elapsed(), 2),
            'violations': len(self.violations),
        }
        with open(os.path.join(EVIDENCE_DIR, '%s.json' % self.pid), 'w') as f:
            json.dump(ev, f, indent=1, default=str)


# ------------------------------------------------------------------------------------------------
# Source fingerprints (DESIGN 2.10): a cheap tie to the source that only ever ESCALATES the budget
# ------------------------------------------------------------------------------------------------

FINGERPRINTS = os.path.join(HERE, 'fingerprints.json')


def _ast_fingerprint(path: str) -> str:
    import ast
    try:
        tree = ast.parse(open(path, encoding='utf8').read())
    except Exception:  # noqa
        return 'unparsable'
    for node in ast.walk(tree):                      # drop docstrings: comments/docstring edits do not count
        if isinstance(node, (ast.FunctionDef, ast.AsyncFunctionDef, ast.ClassDef, ast.Module)) and node.body:
            first = node.body[0]
            if isinstance(first, ast.Expr) and isinstance(getattr(first, 'value', None), ast.Constant) \
                    and isinstance(first.value.value, str):
                node.body = node.body[1:] or [ast.Pass()]
    return hashlib.sha256(ast.dump(tree, annotate_fields=False, include_attributes=False).encode()).hexdigest()[:16]


def anchor_files(pid: str) -> List[str]:
    import glob as _glob
    for line in open(os.path.join(VERIF, 'properties.jsonl')):
        rec = json.loads(line)
        if rec['id'] == pid:
            out = []
            for f in rec['anchors']['files']:
                out += sorted(_glob.glob(os.path.join(REPO, f))) if '*' in f else [os.path.join(REPO, f)]
            return [os.path.relpath(f, REPO) for f in out if os.path.exists(f)]
    return []


def fingerprint_changes(pid: str) -> List[str]:
    """Anchor files of the property whose normalised AST differs from the one recorded when the model was
    last aligned with the code (harness/fingerprints.json). Never a verdict: a change only makes the
    run spend a larger budget (Ctx.n) and is listed in the evidence."""
    stored = {}
    if os.path.exists(FINGERPRINTS):
        stored = json.load(open(FINGERPRINTS)).get(pid, {})
    return [f for f in anchor_files(pid) if stored.get(f) != _ast_fingerprint(os.path.join(REPO, f))]


def record_fingerprints(pids: Iterable[str]):
    data = json.load(open(FINGERPRINTS)) if os.path.exists(FINGERPRINTS) else {}
    for pid in pids:
        data[pid] = {f: _ast_fingerprint(os.path.join(REPO, f)) for f in anchor_files(pid)}
    json.dump(data, open(FINGERPRINTS, 'w'), indent=1, sort_keys=True)


def ensure_repo_on_path():
    """Import qupulse from $VERIF_REPO's working tree."""
    if sys.path[0] != REPO:
        sys.path.insert(0, REPO)
    import qupulse  # noqa
    where = os.path.dirname(os.path.dirname(os.path.abspath(qupulse.__file__)))
    if os.path.realpath(where) != os.path.realpath(REPO):
        raise MachineryError('qupulse imported from %s, not from %s' % (where, REPO))
