"""C01 — an instantiated program plays exactly the voltages the template describes.

Correspondence: the real `create_program` + `to_waveform(program).get_sampled` against the Lean program-side
model `QP.PT.createProgram` / `Loop.sample` (channel set, every sample, durations, error class).
Judge: every sample of the *implementation* against `QP.PT.denote` (channel set equal, value admissible at
every grid point, never NaN).
"""
from __future__ import annotations

import fractions
import random

import core
import ptcheck
import ptgen

F = fractions.Fraction
PID = 'C01'


def in_pf11(rec, v) -> bool:
    """violation inside the recorded class of PF-11: a wrong value on a channel that a ParallelChannelPT
    overwrites below an enclosing transformation that applies to it"""
    return v['clause'] == 'value' and v.get('channel') in rec['meta']['pf11']


def in_pfc01a(rec, v) -> bool:
    """violation inside the recorded class of PF-C01a: a wrong value on a channel with the falsy outer id 0 that the
    pulse operand of a scalar ArithmeticPT defines (the scalar operation is not applied to it)"""
    return v['clause'] == 'value' and v.get('channel') in rec['meta'].get('falsy_arith', ())


def checker(ctx) -> ptcheck.Checker:
    return ptcheck.Checker(ctx, PID, ('samples',),
                           'create_program/to_waveform/get_sampled vs QP.PT.createProgram/Loop.sample',
                           want_samples=True, want_windows=False, known_classes={'PF-11': in_pf11, 'PF-C01a': in_pfc01a},
                           unmodelled=('PF-C01a',))


# generator shapes beyond the default stream (notes/C01.md, "Seeded changes"): integer channel ids incl. 0 and renamings
# 'A' <-> 0, FunctionPTs whose expression is the time variable itself, nested scalar arithmetic in atomic composites
GEN = {'int_chan_p': 0.25, 'plain_t_p': 0.2, 'nest_wrap_p': 0.15, 't_param_p': 0.6, 'remap_idx_p': 0.35, 'self_map_p': 0.15}


def shared_grid_case(rng: random.Random):
    """ONE played waveform with several channels, built from per-channel pulse arithmetic `ramp +- pulse` whose ramp is
    a FunctionPT with the expression `t` (the lambdified expression returns the sample-time array itself) or a general
    affine `a*t + b`, combined by AtomicMultiChannelPT and put below scalar arithmetic / ParallelChannelPT /
    renamings (also to integer channel ids).  `observe` samples every channel on one shared time array."""
    g = ptgen.Gen(rng, 2, measure_p=0.1)
    env, values = g.params()
    n = rng.choice([2, 2, 3])
    ints = rng.random() < 0.3
    chans = (ptgen.INT_CHAN_POOL if ints else ptgen.CHAN_POOL)[:n]
    common = g.p2time(env)

    def ramp(ch):
        k = rng.random()
        if k < 0.6:
            expr = 't'
        elif k < 0.8:
            expr = '%s*t + %s' % (ptgen.fstr(rng.choice([F(1, 2), F(2), F(-1), F(3, 4)])), g.volt(env)[0])
        else:
            expr = '%s + t' % g.volt(env)[0]
        return {'k': 'func', 'ch': ch, 'dur': common[0], 'expr': expr, 'meas': [], 'cons': []}

    def other(ch):
        return ptgen.strip(g.atom([ch], env, common, None, allow_multi=False))

    def part(ch):
        k = rng.random()
        if k < 0.12:
            return ramp(ch)
        if k < 0.22:
            # the left operand loses its only channel: `- ramp` (a FunctorWaveform)
            gone = {'k': 'map', 'body': other('Z'), 'pm': None, 'mm': None, 'cm': [['Z', None]]}
            return {'k': 'aarith', 'lhs': gone, 'op': rng.choice(['+', '-']), 'rhs': ramp(ch), 'meas': []}
        lhs, rhs = (ramp(ch), other(ch)) if rng.random() < 0.75 else (other(ch), ramp(ch))
        if rng.random() < 0.2:
            lhs = {'k': 'map', 'body': lhs, 'pm': None, 'mm': None, 'cm': None}
        return {'k': 'aarith', 'lhs': lhs, 'op': rng.choice(['+', '-']), 'rhs': rhs, 'meas': []}

    spec = {'k': 'amulti', 'subs': [part(c) for c in chans], 'meas': g.measurements(env, common[1]), 'cons': []}
    k = rng.random()
    if k < 0.35:
        op = rng.choice(['*', '+', '-', '/'])
        sc = ptgen.fstr(rng.choice([F(1, 2), F(2), F(-1), F(4)])) if op in '*/' else g.volt(env)[0]
        scalar = sc if rng.random() < 0.6 else [[c, sc] for c in rng.sample(chans, rng.randrange(1, n + 1))]
        spec = {'k': 'arith', 'body': spec, 'op': op, 'scalar': scalar, 'pt_lhs': True if op == '/' else rng.random() < 0.5}
    elif k < 0.55:
        spec = {'k': 'par', 'body': spec, 'over': [[7 if ints else 'P', g.volt(env)[0]]]}
    elif k < 0.75:
        names = list(ptgen.CHAN_POOL if ints else ptgen.INT_CHAN_POOL)
        rng.shuffle(names)
        spec = {'k': 'map', 'body': spec, 'pm': None, 'mm': None, 'cm': [[c, o] for c, o in zip(chans, names)]}
    pt = ptgen.build(spec)
    return {'spec': spec, 'params': {k: v for k, v in values.items() if k in pt.parameter_names}, 'cm': {}, 'mm': None,
            'single': []}


def remap_index_case(rng: random.Random):
    for _ in range(20):
        try:
            return _remap_index_case(rng)
        except Exception:   # noqa -- an ill-formed draw (an atom that ended up not using the index): draw again
            continue
    raise core.MachineryError('could not draw a remapped-loop-index case')


def _remap_index_case(rng: random.Random):
    """ForLoopPT(i) -> ... MappingPT({i: f(i)}) ... -> RepetitionPT -> body that uses i, with sequence / repetition
    levels in between: the mapping shadows the loop index for everything below it, also across the builder frames a
    repetition opens."""
    g = ptgen.Gen(rng, 2, measure_p=0.15)
    env, values = g.params()
    chans = ptgen.CHAN_POOL[:rng.choice([1, 1, 2])]
    idx = 'i'
    a, b, st = rng.choice([(0, 3, 1), (0, 2, 1), (1, 4, 2), (3, 0, -1), (0, 4, 3)])
    form, f = rng.choice([('%s + 10', lambda x: x + 10), ('2*%s + 1', lambda x: 2 * x + 1), ('%s + 1', lambda x: x + 1),
                          ('3 - %s', lambda x: 3 - x), ('2*%s', lambda x: 2 * x)])
    inner_env = env.with_idx(idx, [f(x) for x in range(a, b, st)])

    def atom():
        return ptgen.strip(g.atom(chans, inner_env, None, idx, allow_multi=rng.random() < 0.3))

    def seq_around(x):
        parts = [x]
        if rng.random() < 0.5:
            parts.insert(rng.randrange(2), atom())
        return {'k': 'seq', 'subs': parts, 'meas': [], 'cons': []} if len(parts) > 1 or rng.random() < 0.3 else x

    spec = atom()
    if rng.random() < 0.4:
        spec = seq_around(spec)
    spec = {'k': 'rep', 'body': spec, 'count': rng.choice(['2', '2', '3', 'n0 + 1', '1']), 'meas': [], 'cons': []}
    if rng.random() < 0.3:
        spec = {'k': 'rep', 'body': spec, 'count': '2', 'meas': [], 'cons': []}
    if rng.random() < 0.5:
        spec = seq_around(spec)
    spec = {'k': 'map', 'body': spec, 'pm': [[idx, form % idx]], 'mm': None, 'cm': None}
    if rng.random() < 0.4:
        spec = seq_around(spec)
    if rng.random() < 0.25:
        spec = {'k': 'rep', 'body': spec, 'count': '2', 'meas': [], 'cons': []}
    spec = {'k': 'for', 'body': spec, 'idx': idx, 'range': [str(a), str(b), str(st)], 'meas': [], 'cons': []}
    pt = ptgen.build(spec)
    cm = {chans[0]: 'out'} if rng.random() < 0.3 else {}
    return {'spec': spec, 'params': {k: v for k, v in values.items() if k in pt.parameter_names}, 'cm': cm, 'mm': None,
            'single': []}


# ------------------------------------------------------------------------------------------------
# time reversal of time-dependent transformations (scalar `pt * 't'`, ParallelChannelPT value '2*t')
# ------------------------------------------------------------------------------------------------
# QP.PT models scalar operands / overwritten channel values that are constant in time.  This family is judged
# against a reference that is *derived from the denotation*: X = op(A, s(t)) for an atomic template A (denoted by
# Lean, `denote A`) and an affine s(t) = a*t + b (evaluated here, exactly), played forward and time-reversed in a
# fixed layout of slots of duration D = dur(A):  forward slot: X(tau) = op(A(tau), s(tau)), reversed slot:
# X(D - tau).

REVT_LAYOUTS = {
    'rev': (lambda x: {'k': 'rev', 'body': x}, 'R'),
    'rev-rep': (lambda x: {'k': 'rev', 'body': {'k': 'rep', 'body': x, 'count': '2', 'meas': [], 'cons': []}}, 'RR'),
    'rep-rev': (lambda x: {'k': 'rep', 'body': {'k': 'rev', 'body': x}, 'count': '2', 'meas': [], 'cons': []}, 'RR'),
    'seq-fwd-rev': (lambda x: {'k': 'seq', 'subs': [x, {'k': 'rev', 'body': x}], 'meas': [], 'cons': []}, 'FR'),
    'rev-seq-fwd-rev': (lambda x: {'k': 'rev', 'body': {'k': 'seq', 'subs': [x, {'k': 'rev', 'body': x}], 'meas': [],
                                                        'cons': []}}, 'FR'),
    'fwd': (lambda x: x, 'F'),
}


def revt_case(rng: random.Random) -> dict:
    for _ in range(20):
        try:
            return _revt_case(rng)
        except Exception:   # noqa -- an ill-formed draw
            continue
    raise core.MachineryError('could not draw a reversed-time-dependent case')


def _revt_case(rng: random.Random) -> dict:
    g = ptgen.Gen(rng, 2, measure_p=0.0)
    env, values = g.params()
    chans = ptgen.CHAN_POOL[:rng.choice([1, 2, 2])]
    common = g.p2time(env)
    inner = ptgen.strip(g.atom(chans, env, common, None, allow_multi=True))
    a = rng.choice([F(1), F(2), F(1, 2), F(-1), F(3, 4), F(-1, 2)])
    b = rng.choice([F(0), F(0), F(1, 2), F(-1), F(5, 4)])
    if rng.random() < 0.65:
        op = rng.choice(['*', '*', '+', '-'])
        on = sorted(rng.sample(chans, rng.randrange(1, len(chans) + 1))) if rng.random() < 0.4 else None
        trafo = {'kind': 'arith', 'op': op, 'pt_lhs': rng.random() < 0.5, 'on': on}
    else:
        trafo = {'kind': 'par', 'ch': rng.choice(['P', 'P', chans[-1]])}
    trafo.update(a=[a.numerator, a.denominator], b=[b.numerator, b.denominator])
    pt = ptgen.build(inner)
    return {'inner': inner, 'dur': [common[1].numerator, common[1].denominator], 'trafo': trafo,
            'layout': rng.choice(['rev', 'rev', 'rev-rep', 'rep-rev', 'seq-fwd-rev', 'rev-seq-fwd-rev', 'fwd']),
            'params': {k: v for k, v in values.items() if k in pt.parameter_names}}


def _revt_spec(d: dict) -> dict:
    a, b = F(*d['trafo']['a']), F(*d['trafo']['b'])
    s = '%s*t + %s' % (ptgen.fstr(a), ptgen.fstr(b))
    tr = d['trafo']
    if tr['kind'] == 'arith':
        scalar = s if tr['on'] is None else [[c, s] for c in tr['on']]
        x = {'k': 'arith', 'body': d['inner'], 'op': tr['op'], 'scalar': scalar, 'pt_lhs': tr['pt_lhs']}
    else:
        x = {'k': 'par', 'body': d['inner'], 'over': [[tr['ch'], s]]}
    return REVT_LAYOUTS[d['layout']][0](x)


def check_revt(ctx, descs, label='reversed-time-dependent-transformation') -> bool:
    """implementation: the real template tree, sampled; reference: op(denote(A)(tau'), a*tau' + b) with tau' = tau in a
    forward slot and D - tau in a reversed slot"""
    import numpy as np
    from qupulse.program.loop import to_waveform
    runs, lines = [], []
    for d in descs:
        D = F(*d['dur'])
        taus = [D * F(2 * k + 1, 64) for k in range(0, 32, 3)]         # never a table breakpoint
        inner_pt = ptgen.build(d['inner'])
        case = {'spec': d['inner'], 'params': d['params'], 'cm': {}, 'mm': None, 'single': []}
        inner_grid = sorted(set(taus) | {D - t for t in taus})
        lines.append(ptgen.request_line(PID, inner_pt, case, inner_grid, ['windows']))
        spec = _revt_spec(d)
        slots = REVT_LAYOUTS[d['layout']][1]
        grid = [k * D + t for k in range(len(slots)) for t in taus]
        try:
            prog = ptgen.build(spec).create_program(parameters=dict(d['params']))
            wf = to_waveform(prog)
            times = np.array([float(t) for t in grid])
            impl = {ptgen.chan_atom(ch): [F(float(x)) if not np.isnan(x) else 'nan' for x in wf.get_sampled(ch, times)]
                    for ch in wf.defined_channels}
        except Exception as exc:  # noqa
            impl = 'raises %s (%s)' % (core.classify_exception(exc), str(exc)[:100])
        runs.append((d, spec, D, taus, inner_grid, grid, slots, impl))
    ok = True
    for (d, spec, D, taus, inner_grid, grid, slots, impl), ans in zip(runs, core.Lean.run(lines)):
        reply = ptgen.parse_reply(ans)
        ctx.case('revt %s %s ' % (d['layout'], sorted(d['trafo'].items())) + ptgen.request_line(PID, ptgen.build(d['inner']),
                 {'params': d['params'], 'cm': {}, 'mm': None}, []), nontrivial=True)
        ctx.count('family:' + label)
        ctx.count('revt-layout:' + d['layout'])
        sp = reply['spec']
        if sp['status'] != 'ok':
            ctx.count('revt-inner-not-denoted')
            continue
        tr = d['trafo']
        a, b = F(*tr['a']), F(*tr['b'])
        at = {ch: dict(zip(inner_grid, [v[0] for v in vals])) for ch, vals in sp['adm'].items()}
        want = {}
        for ch in set(at) | ({tr['ch']} if tr['kind'] == 'par' else set()):
            vals = []
            for k, slot in enumerate(slots):
                for tau in taus:
                    tp = tau if slot == 'F' else D - tau
                    s = a * tp + b
                    if tr['kind'] == 'par':
                        vals.append(s if ch == tr['ch'] else at[ch][tp])
                    else:
                        x = at[ch][tp]
                        applies = tr['on'] is None or ch in tr['on']
                        if tr['op'] == '*':
                            vals.append(x * s if applies else x)
                        elif tr['op'] == '+':
                            vals.append(x + s if applies else x)
                        elif tr['pt_lhs']:
                            vals.append(x - s if applies else x)
                        else:
                            vals.append((s if applies else 0) - x)
            want[ch] = vals
        what = None
        if isinstance(impl, str):
            what = 'instantiating / sampling %s' % impl
        elif sorted(impl) != sorted(want):
            what = 'program channels %s, the template denotes %s' % (sorted(impl), sorted(want))
        else:
            for ch in sorted(want):
                bad = [(t, x, w) for t, x, w in zip(grid, impl[ch], want[ch]) if x != w]
                if bad:
                    t, x, w = bad[0]
                    k = int(t / D)
                    what = ('sample on %s at t=%s is %s, the template denotes %s (slot %d of %s is played %s: the pulse at '
                            'its local time %s)' % (ch, t, x, w, k, slots, 'time-reversed' if slots[k] == 'R' else 'forward',
                                                     (D - (t - k * D)) if slots[k] == 'R' else t - k * D))
                    break
        if what:
            ok = False
            ctx.disagreements += 1
            ctx.violation('%s [template=%s params=%s]' % (what, _short_spec(spec), d['params']), {'kind': 'revt', 'desc': d})
    return ok


def _short_spec(spec) -> str:
    k = spec['k']
    if k == 'arith':
        l, r = (_short_spec(spec['body']), spec['scalar']) if spec['pt_lhs'] else (spec['scalar'], _short_spec(spec['body']))
        return '(%s %s %s)' % (l, spec['op'], r)
    if k == 'par':
        return 'par(%s, %s)' % (_short_spec(spec['body']), dict(map(tuple, spec['over'])))
    if k in ('rev', 'rep'):
        return '%s(%s%s)' % (k, _short_spec(spec['body']), ', ' + spec['count'] if k == 'rep' else '')
    if k == 'seq':
        return 'seq(%s)' % ', '.join(_short_spec(x) for x in spec['subs'])
    return '/'.join(ptgen.spec_kinds(spec))


DECIMAL_BODIES = [('0.7', '0.3'), ('0.1', '0.05'), ('0.3', '0.1'), ('1.2', '0.5'), ('2.35', '1.1'), ('0.05', '0.02'),
                  ('0.9', '0.4'), ('0.6', '0.2'), ('0.1', '0.03'), ('0.7', '0.45')]


def decimal_boundary_case(rng: random.Random):
    """Pieces with short *decimal* durations (0.1, 0.7, 2.35: exact as rationals, not as floats) repeated / sequenced /
    iterated at the top level of the program, sampled through `to_waveform(program).get_sampled` exactly ON the piece
    boundaries t = float(k*d) (what a sample clock k/sample_rate produces) and at segment midpoints.  The pieces are
    piecewise constant tables (hold / jump) with dyadic voltages and a start value different from the end value, so
    every sample is exact and a boundary sample shows which repetition it was attributed to.  Only ONE composite level
    (a top-level RepetitionWaveform or SequenceWaveform): nested composites round their local times (open findings
    PF-C08e / PF-C06-3)."""
    volts = lambda: ptgen.fstr(F(rng.randrange(-16, 17), 8))      # noqa

    def table(d, t1, a=None, b=None, c=None):
        es = [['0', a or volts(), 'hold'], [t1, b or volts(), rng.choice(['hold', 'jump'])], [d, c or volts(), rng.choice(['hold', 'jump'])]]
        while es[0][1] == es[1][1]:
            es[1][1] = volts()
        entries = [['A', es]]
        if rng.random() < 0.3:
            entries.append(['B', [['0', volts(), 'hold'], [d, volts(), 'hold']]])
        return {'k': 'table', 'entries': entries, 'meas': [], 'cons': []}

    kind = rng.choice(['rep', 'rep', 'rep', 'seq', 'for'])
    params = {}
    if kind == 'rep':
        d, t1 = rng.choice(DECIMAL_BODIES)
        n = rng.choice([3, 4, 5, 6, 7, 9, 10, 12])
        count = str(n)
        if rng.random() < 0.4:
            count, params = 'n', {'n': n}
        spec = {'k': 'rep', 'body': table(d, t1), 'count': count, 'meas': [], 'cons': []}
        pieces = [(F(d), F(t1))] * n
    elif kind == 'seq':
        two = rng.random() < 0.3
        parts = [rng.choice(DECIMAL_BODIES) for _ in range(rng.choice([3, 4, 5, 6]))]
        subs = [table(d, t1) for d, t1 in parts]
        if two:
            for x in subs:
                if len(x['entries']) == 1:
                    x['entries'].append(['B', [['0', volts(), 'hold'], [x['entries'][0][1][-1][0], volts(), 'hold']]])
        else:
            for x in subs:
                del x['entries'][1:]
        spec = {'k': 'seq', 'subs': subs, 'meas': [], 'cons': []}
        pieces = [(F(d), F(t1)) for d, t1 in parts]
    else:
        d, t1 = rng.choice(DECIMAL_BODIES)
        n = rng.choice([3, 4, 5, 7])
        body = table(d, t1, 'i', 'i + 0.5', '0')
        del body['entries'][1:]
        spec = {'k': 'for', 'body': body, 'idx': 'i', 'range': ['0', str(n), '1'], 'meas': [], 'cons': []}
        pieces = [(F(d), F(t1))] * n
    grid, t = set(), F(0)
    for d, t1 in pieces[:16]:
        grid.update([t, t + t1 / 2, t + (t1 + d) / 2])
        t += d
    return {'spec': spec, 'params': params, 'cm': {}, 'mm': None, 'single': [], 'grid': [str(x) for x in sorted(grid)]}


def run(ctx: core.Ctx):
    ctx.rule = ('random well-formed template trees over all 13 node kinds built from the real qupulse classes '
                '(depth <= 4 quick / <= 6 thorough; parameters, loop ranges incl. empty/negative/non-dividing, injective '
                'channel mappings with dropped channels, measurements, identifiers; dyadic numbers, power-of-two segment '
                'lengths so float arithmetic is exact), all nestings of depth <= 3 over two atoms, and a single-fault '
                'malformed stream; a quarter of the random cases use the integer channel ids 0, 1, 2 with renamings between integer and '
                'string names; function templates whose expression is the time variable itself; a family of piecewise constant pieces with decimal '
                'durations repeated / sequenced at the top level and sampled exactly on the piece boundaries float(k*d); mappings below an iteration that re-define '
                'the loop index, with repetition / sequence levels below (generator option and a dedicated family); a family '
                'of time-reversed atomic pulses under time-dependent (affine in t) scalar arithmetic / parallel-channel values, '
                'judged against denote of the atomic pulse at dur - t combined with the exactly evaluated operand; a scope entry literally called t (a renamed '
                'parameter / loop index or an extra value) in trees whose only t-sensitive nodes are function templates; a family of single '
                'multi-channel waveforms built from per-channel pulse arithmetic over such ramps; all channels of a '
                'program (and of every played waveform) are sampled on ONE time array that must come back unchanged; '
                'grids = piece boundaries, boundaries +-1/16, 0, regular grids at rates 1 and 4, all in '
                '[0, duration). Non-trivial = a program is produced from a tree with more than one node; distinct by '
                'canonical request line')
    ctx.assumptions = [
        'IEEE-754 arithmetic is exact on the generated dyadic numbers (power-of-two segment lengths and divisors)',
        'sympy parses, simplifies and lambdifies the generated rational expressions according to their mathematical meaning',
        'function templates are generated affine in t; table templates never end in a zero-length segment',
        'at a discontinuity strictly inside a time reversed part either one-sided limit is accepted (notes/C01.md)',
        'the integer channel id k travels to the model as the atom #k (channel names are opaque strings in QP.PT)',
    ]
    ck = checker(ctx)
    for crec in ctx.corpus():
        replay(ctx, crec, from_corpus=True)
        ctx.corpus_replayed += 1
    depth = 4 if ctx.quick else 6
    descs = [ck.desc(family='exhaustive', seed=i, spec=s) for i, s in enumerate(ptgen.exhaustive_specs(3))]
    ctx.exhaustive_spaces.append('all nestings of depth <= 3 over two atoms (table with ramp, parametrised constant) with '
                                 'wrappers rep(2), rep(0 by parameter), iteration, mapping, scalar arithmetic, reversal, '
                                 'parallel channel and binary sequencing: %d trees' % len(descs))
    base = ctx.fork('random').getrandbits(48)
    descs += [ck.desc(family='random', seed=base + i, depth=depth, gen=GEN) for i in range(ctx.n(900, 30000))]
    base = ctx.fork('shared-grid').getrandbits(48)
    descs += [ck.desc(family='custom', make=shared_grid_case, seed=base + i, label='shared-grid')
              for i in range(ctx.n(150, 3000))]
    base = ctx.fork('remap-index').getrandbits(48)
    descs += [ck.desc(family='custom', make=remap_index_case, seed=base + i, label='remapped-loop-index')
              for i in range(ctx.n(100, 2000))]
    base = ctx.fork('decimal-boundary').getrandbits(48)
    descs += [ck.desc(family='custom', make=decimal_boundary_case, seed=base + i, label='decimal-boundaries')
              for i in range(ctx.n(120, 2500))]
    base = ctx.fork('malformed').getrandbits(48)
    descs += [ck.desc(family='malformed', seed=base + i) for i in range(ctx.n(150, 3000))]
    ck.run_batch(descs)
    rrng = ctx.fork('revt')
    check_revt(ctx, [revt_case(rrng) for _ in range(ctx.n(120, 2500))])
    ck.replay_known()


def replay(ctx: core.Ctx, rec: dict, from_corpus: bool = False) -> bool:
    if rec.get('kind') == 'revt':
        return check_revt(ctx, [rec['desc']], label='corpus' if from_corpus else 'replay')
    return checker(ctx).replay(rec, from_corpus)
