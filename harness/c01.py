"""C01 — an instantiated program plays exactly the voltages the template describes.

Correspondence: the real `create_program` + `to_waveform(program).get_sampled` against the Lean program-side
model `QP.PT.createProgram` / `Loop.sample` (channel set, every sample, durations, error class).
Judge: every sample of the *implementation* against `QP.PT.denote` (channel set equal, value admissible at
every grid point, never NaN).
"""
from __future__ import annotations

import core
import ptcheck
import ptgen

PID = 'C01'


def in_pf11(rec, v) -> bool:
    """violation inside the recorded class of PF-11: a wrong value on a channel that a ParallelChannelPT
    overwrites below an enclosing transformation that applies to it"""
    return v['clause'] == 'value' and v.get('channel') in rec['meta']['pf11']


def checker(ctx) -> ptcheck.Checker:
    return ptcheck.Checker(ctx, PID, ('samples',),
                           'create_program/to_waveform/get_sampled vs QP.PT.createProgram/Loop.sample',
                           want_samples=True, want_windows=False, known_classes={'PF-11': in_pf11})


def run(ctx: core.Ctx):
    ctx.rule = ('random well-formed template trees over all 13 node kinds built from the real qupulse classes '
                '(depth <= 4 quick / <= 6 thorough; parameters, loop ranges incl. empty/negative/non-dividing, injective '
                'channel mappings with dropped channels, measurements, identifiers; dyadic numbers, power-of-two segment '
                'lengths so float arithmetic is exact), all nestings of depth <= 3 over two atoms, and a single-fault '
                'malformed stream; grids = piece boundaries, boundaries +-1/16, 0, regular grids at rates 1 and 4, all in '
                '[0, duration). Non-trivial = a program is produced from a tree with more than one node; distinct by '
                'canonical request line')
    ctx.assumptions = [
        'IEEE-754 arithmetic is exact on the generated dyadic numbers (power-of-two segment lengths and divisors)',
        'sympy parses, simplifies and lambdifies the generated rational expressions according to their mathematical meaning',
        'function templates are generated affine in t; table templates never end in a zero-length segment',
        'at a discontinuity strictly inside a time reversed part either one-sided limit is accepted (notes/C01.md)',
    ]
    ck = checker(ctx)
    for crec in ctx.corpus():
        ck.replay(crec, from_corpus=True)
        ctx.corpus_replayed += 1
    depth = 4 if ctx.quick else 6
    descs = [ck.desc(family='exhaustive', seed=i, spec=s) for i, s in enumerate(ptgen.exhaustive_specs(3))]
    ctx.exhaustive_spaces.append('all nestings of depth <= 3 over two atoms (table with ramp, parametrised constant) with '
                                 'wrappers rep(2), rep(0 by parameter), iteration, mapping, scalar arithmetic, reversal, '
                                 'parallel channel and binary sequencing: %d trees' % len(descs))
    base = ctx.fork('random').getrandbits(48)
    descs += [ck.desc(family='random', seed=base + i, depth=depth) for i in range(ctx.n(900, 30000))]
    base = ctx.fork('malformed').getrandbits(48)
    descs += [ck.desc(family='malformed', seed=base + i) for i in range(ctx.n(150, 3000))]
    ck.run_batch(descs)
    ck.replay_known()


def replay(ctx: core.Ctx, rec: dict, from_corpus: bool = False) -> bool:
    return checker(ctx).replay(rec, from_corpus)
