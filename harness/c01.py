"""C01 — an instantiated program plays exactly the voltages the template describes.

Correspondence: the real `create_program` + `to_waveform(program).get_sampled` against the Lean program-side
model `QP.PT.createProgram` / `Loop.sample` (channel set, every sample, durations, error class).
Judge: every sample of the *implementation* against `QP.PT.denote` (channel set equal, value admissible at
every grid point, never NaN).
"""
from __future__ import annotations

import fractions
import random

import core
import ptcheck
import ptgen

F = fractions.Fraction
PID = 'C01'


def in_pf11(rec, v) -> bool:
    """violation inside the recorded class of PF-11: a wrong value on a channel that a ParallelChannelPT
    overwrites below an enclosing transformation that applies to it"""
    return v['clause'] == 'value' and v.get('channel') in rec['meta']['pf11']


def in_pfc01a(rec, v) -> bool:
    """violation inside the recorded class of PF-C01a: a wrong value on a channel with the falsy outer id 0 that the
    pulse operand of a scalar ArithmeticPT defines (the scalar operation is not applied to it)"""
    return v['clause'] == 'value' and v.get('channel') in rec['meta'].get('falsy_arith', ())


def checker(ctx) -> ptcheck.Checker:
    return ptcheck.Checker(ctx, PID, ('samples',),
                           'create_program/to_waveform/get_sampled vs QP.PT.createProgram/Loop.sample',
                           want_samples=True, want_windows=False, known_classes={'PF-11': in_pf11, 'PF-C01a': in_pfc01a},
                           unmodelled=('PF-C01a',))


# generator shapes beyond the default stream (notes/C01.md, "Seeded changes"): integer channel ids incl. 0 and renamings
# 'A' <-> 0, FunctionPTs whose expression is the time variable itself, nested scalar arithmetic in atomic composites
GEN = {'int_chan_p': 0.25, 'plain_t_p': 0.2, 'nest_wrap_p': 0.15, 't_param_p': 0.6}


def shared_grid_case(rng: random.Random):
    """ONE played waveform with several channels, built from per-channel pulse arithmetic `ramp +- pulse` whose ramp is
    a FunctionPT with the expression `t` (the lambdified expression returns the sample-time array itself) or a general
    affine `a*t + b`, combined by AtomicMultiChannelPT and put below scalar arithmetic / ParallelChannelPT /
    renamings (also to integer channel ids).  `observe` samples every channel on one shared time array."""
    g = ptgen.Gen(rng, 2, measure_p=0.1)
    env, values = g.params()
    n = rng.choice([2, 2, 3])
    ints = rng.random() < 0.3
    chans = (ptgen.INT_CHAN_POOL if ints else ptgen.CHAN_POOL)[:n]
    common = g.p2time(env)

    def ramp(ch):
        k = rng.random()
        if k < 0.6:
            expr = 't'
        elif k < 0.8:
            expr = '%s*t + %s' % (ptgen.fstr(rng.choice([F(1, 2), F(2), F(-1), F(3, 4)])), g.volt(env)[0])
        else:
            expr = '%s + t' % g.volt(env)[0]
        return {'k': 'func', 'ch': ch, 'dur': common[0], 'expr': expr, 'meas': [], 'cons': []}

    def other(ch):
        return ptgen.strip(g.atom([ch], env, common, None, allow_multi=False))

    def part(ch):
        k = rng.random()
        if k < 0.12:
            return ramp(ch)
        if k < 0.22:
            # the left operand loses its only channel: `- ramp` (a FunctorWaveform)
            gone = {'k': 'map', 'body': other('Z'), 'pm': None, 'mm': None, 'cm': [['Z', None]]}
            return {'k': 'aarith', 'lhs': gone, 'op': rng.choice(['+', '-']), 'rhs': ramp(ch), 'meas': []}
        lhs, rhs = (ramp(ch), other(ch)) if rng.random() < 0.75 else (other(ch), ramp(ch))
        if rng.random() < 0.2:
            lhs = {'k': 'map', 'body': lhs, 'pm': None, 'mm': None, 'cm': None}
        return {'k': 'aarith', 'lhs': lhs, 'op': rng.choice(['+', '-']), 'rhs': rhs, 'meas': []}

    spec = {'k': 'amulti', 'subs': [part(c) for c in chans], 'meas': g.measurements(env, common[1]), 'cons': []}
    k = rng.random()
    if k < 0.35:
        op = rng.choice(['*', '+', '-', '/'])
        sc = ptgen.fstr(rng.choice([F(1, 2), F(2), F(-1), F(4)])) if op in '*/' else g.volt(env)[0]
        scalar = sc if rng.random() < 0.6 else [[c, sc] for c in rng.sample(chans, rng.randrange(1, n + 1))]
        spec = {'k': 'arith', 'body': spec, 'op': op, 'scalar': scalar, 'pt_lhs': True if op == '/' else rng.random() < 0.5}
    elif k < 0.55:
        spec = {'k': 'par', 'body': spec, 'over': [[7 if ints else 'P', g.volt(env)[0]]]}
    elif k < 0.75:
        names = list(ptgen.CHAN_POOL if ints else ptgen.INT_CHAN_POOL)
        rng.shuffle(names)
        spec = {'k': 'map', 'body': spec, 'pm': None, 'mm': None, 'cm': [[c, o] for c, o in zip(chans, names)]}
    pt = ptgen.build(spec)
    return {'spec': spec, 'params': {k: v for k, v in values.items() if k in pt.parameter_names}, 'cm': {}, 'mm': None,
            'single': []}


def run(ctx: core.Ctx):
    ctx.rule = ('random well-formed template trees over all 13 node kinds built from the real qupulse classes '
                '(depth <= 4 quick / <= 6 thorough; parameters, loop ranges incl. empty/negative/non-dividing, injective '
                'channel mappings with dropped channels, measurements, identifiers; dyadic numbers, power-of-two segment '
                'lengths so float arithmetic is exact), all nestings of depth <= 3 over two atoms, and a single-fault '
                'malformed stream; a quarter of the random cases use the integer channel ids 0, 1, 2 with renamings between integer and '
                'string names; function templates whose expression is the time variable itself; a scope entry literally called t (a renamed '
                'parameter / loop index or an extra value) in trees whose only t-sensitive nodes are function templates; a family of single '
                'multi-channel waveforms built from per-channel pulse arithmetic over such ramps; all channels of a '
                'program (and of every played waveform) are sampled on ONE time array that must come back unchanged; '
                'grids = piece boundaries, boundaries +-1/16, 0, regular grids at rates 1 and 4, all in '
                '[0, duration). Non-trivial = a program is produced from a tree with more than one node; distinct by '
                'canonical request line')
    ctx.assumptions = [
        'IEEE-754 arithmetic is exact on the generated dyadic numbers (power-of-two segment lengths and divisors)',
        'sympy parses, simplifies and lambdifies the generated rational expressions according to their mathematical meaning',
        'function templates are generated affine in t; table templates never end in a zero-length segment',
        'at a discontinuity strictly inside a time reversed part either one-sided limit is accepted (notes/C01.md)',
        'the integer channel id k travels to the model as the atom #k (channel names are opaque strings in QP.PT)',
    ]
    ck = checker(ctx)
    for crec in ctx.corpus():
        ck.replay(crec, from_corpus=True)
        ctx.corpus_replayed += 1
    depth = 4 if ctx.quick else 6
    descs = [ck.desc(family='exhaustive', seed=i, spec=s) for i, s in enumerate(ptgen.exhaustive_specs(3))]
    ctx.exhaustive_spaces.append('all nestings of depth <= 3 over two atoms (table with ramp, parametrised constant) with '
                                 'wrappers rep(2), rep(0 by parameter), iteration, mapping, scalar arithmetic, reversal, '
                                 'parallel channel and binary sequencing: %d trees' % len(descs))
    base = ctx.fork('random').getrandbits(48)
    descs += [ck.desc(family='random', seed=base + i, depth=depth, gen=GEN) for i in range(ctx.n(900, 30000))]
    base = ctx.fork('shared-grid').getrandbits(48)
    descs += [ck.desc(family='custom', make=shared_grid_case, seed=base + i, label='shared-grid')
              for i in range(ctx.n(150, 3000))]
    base = ctx.fork('malformed').getrandbits(48)
    descs += [ck.desc(family='malformed', seed=base + i) for i in range(ctx.n(150, 3000))]
    ck.run_batch(descs)
    ck.replay_known()


def replay(ctx: core.Ctx, rec: dict, from_corpus: bool = False) -> bool:
    return checker(ctx).replay(rec, from_corpus)
