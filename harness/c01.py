"""C01 — an instantiated program plays exactly the voltages the template describes.

Correspondence: the real `create_program` + `to_waveform(program).get_sampled` against the Lean program-side
model `QP.PT.createProgram` / `Loop.sample` (channel set, every sample, durations, error class).
Judge: every sample of the *implementation* against `QP.PT.denote` (channel set equal, value admissible at
every grid point, never NaN).
"""
from __future__ import annotations

import copy
import fractions
import json
import random

import core
import ptcheck
import ptgen

F = fractions.Fraction
PID = 'C01'
ASPECTS = ('samples',)


def _descs(ctx, n_random, n_malformed, depth):
    descs = []
    base = ctx.fork('random').getrandbits(48)
    for i in range(n_random):
        descs.append({'family': 'random', 'seed': base + i, 'depth': depth, 'pid': PID, 'windows': False})
    base = ctx.fork('malformed').getrandbits(48)
    for i in range(n_malformed):
        descs.append({'family': 'malformed', 'seed': base + i, 'pid': PID, 'windows': False})
    return descs


def _exhaustive_descs(max_depth):
    out = []
    for i, spec in enumerate(ptgen.exhaustive_specs(max_depth)):
        out.append({'family': 'exhaustive', 'seed': i, 'spec': spec, 'pid': PID, 'windows': False})
    return out


def known_pf11(ctx) -> bool:
    return any(k.get('finding') == 'PF-11' for k in ctx.findings.for_property(PID))


def assess(ctx, rec, count=True):
    """diff against the model, judge against the spec; returns (diffs, violations, known)"""
    reply = rec['reply']
    impl = rec['impl']
    diffs = ptcheck.diff_model(impl, reply['model'], reply['tdur'], ASPECTS)
    viols = ptcheck.judge(rec, reply, ASPECTS)
    known = []
    if viols and known_pf11(ctx) and rec['meta']['pf11']:
        rest = []
        for v in viols:
            if v['clause'] == 'value' and v.get('channel') in rec['meta']['pf11']:
                known.append(v)
            else:
                rest.append(v)
        viols = rest
    if count:
        ctx.case(rec['line'], nontrivial=impl['status'] == 'ok' and len(rec['meta']['kinds']) > 1)
        ctx.count('family:' + rec['label'])
        ctx.count('impl:' + impl['status'] + (':' + impl['error'] if impl['status'] == 'error' else ''))
        ctx.count('spec:' + reply['spec']['status'] + (':' + reply['spec']['error'] if reply['spec']['status'] == 'error' else ''))
        for k in set(rec['meta']['kinds']):
            ctx.count('kind:' + k)
        ctx.count('depth:%d' % rec['meta']['depth'])
        if rec['case'].get('fault'):
            ctx.count('fault:' + rec['case']['fault'])
        if impl['status'] == 'ok':
            ctx.count('grid-points', len(rec['grid']) * (len(impl['chans']) if isinstance(impl['chans'], list) else 0))
            if reply['spec']['status'] == 'ok':
                amb = sum(1 for vals in reply['spec'].get('adm', {}).values() for pt_vals in vals if len(pt_vals) > 1)
                if amb:
                    ctx.count('grid-points-at-junction-inside-reversal', amb)
            if rec['meta']['drops']:
                ctx.count('with-dropped-channel')
        if impl['status'] == 'ok' and reply['spec']['status'] == 'error':
            ctx.count('spec-undefined-but-instantiated')
    return diffs, viols, known


def report(ctx, rec, diffs, viols, known):
    if known:
        ctx.known_finding('PF-11', 'ParallelChannelPT below a transformation: %s' % known[0]['what'])
        ctx.count('known:PF-11')
    if viols:
        # shrink the first few violating inputs only (each shrink costs a few seconds), report every one
        n_shrunk = ctx.extra.setdefault('shrunk', 0)
        small = rec
        if n_shrunk < 4:
            ctx.extra['shrunk'] = n_shrunk + 1
            small = shrink(ctx, rec, viols[0])
        ctx.violation('%s [%s]' % (viols[0]['what'], summary(small)),
                      ptcheck.replay_record(small, viols[0]['what'], {'clause': viols[0]['clause'], 'original': rec['case']}))
    elif diffs and not known:
        ctx.drift('create_program/get_sampled vs QP.PT.createProgram/Loop.sample', rec['case'], diffs[:3], 'see model')


def summary(rec) -> str:
    return 'kinds=%s params=%s cm=%s' % ('/'.join(rec['meta']['kinds']), rec['case']['params'], rec['case']['cm'])


# ------------------------------------------------------------------------------------------------
# failing-input search: shrink a violating case while the judge still says `violates`
# ------------------------------------------------------------------------------------------------

def _candidates(spec):
    """smaller spec trees: replace a node by one of its children, drop sequence parts, drop decorations"""
    out = []

    def rec(node, rebuild):
        for c in ptgen.children(node):
            out.append(rebuild(copy.deepcopy(c)))
        k = node['k']
        if k == 'seq' and len(node['subs']) > 1:
            for i in range(len(node['subs'])):
                n = copy.deepcopy(node)
                del n['subs'][i]
                out.append(rebuild(n))
        for key in ('meas', 'cons'):
            if node.get(key):
                n = copy.deepcopy(node)
                n[key] = []
                out.append(rebuild(n))
        if k == 'rep' and node['count'] not in ('1', '2'):
            for cnt in ('1', '2'):
                n = copy.deepcopy(node)
                n['count'] = cnt
                out.append(rebuild(n))
        if k == 'for' and node['range'] != ['0', '2', '1']:
            n = copy.deepcopy(node)
            n['range'] = ['0', '2', '1']
            out.append(rebuild(n))
        if k == 'table':
            for ci, (ch, es) in enumerate(node['entries']):
                if len(es) > 2:
                    for i in range(len(es)):
                        n = copy.deepcopy(node)
                        del n['entries'][ci][1][i]
                        out.append(rebuild(n))
        # descend
        if k in ('seq', 'amulti'):
            for i, c in enumerate(node['subs']):
                def rb(x, i=i, node=node):
                    n = copy.deepcopy(node)
                    n['subs'][i] = x
                    return rebuild(n)
                rec(c, rb)
        elif k == 'aarith':
            for key in ('lhs', 'rhs'):
                def rb(x, key=key, node=node):
                    n = copy.deepcopy(node)
                    n[key] = x
                    return rebuild(n)
                rec(node[key], rb)
        elif 'body' in node:
            def rb(x, node=node):
                n = copy.deepcopy(node)
                n['body'] = x
                return rebuild(n)
            rec(node['body'], rb)

    rec(spec, lambda x: x)
    return out


def evaluate_given(ctx, cases, label='search'):
    descs = [{'family': 'given', 'seed': i, 'case': c, 'pid': PID, 'windows': False, 'label': label}
             for i, c in enumerate(cases)]
    recs = []
    for d in descs:
        try:
            r = ptcheck.work(d)
        except Exception:  # noqa -- a candidate that cannot be constructed
            r = None
        if r is not None:
            recs.append(r)
    if not recs:
        return []
    answers = core.Lean.run([r['line'] for r in recs])
    for r, a in zip(recs, answers):
        r['reply'] = ptgen.parse_reply(a)
    return recs


def shrink(ctx, rec, viol, rounds=6):
    """delta debugging on the spec tree; a candidate is kept if the judge reports the same clause"""
    best = rec
    for _ in range(rounds):
        cands = _candidates(best['case']['spec'])[:60]
        cases = []
        for s in cands:
            c = copy.deepcopy(best['case'])
            c['spec'] = s
            cases.append(c)
        cases.append(dict(copy.deepcopy(best['case']), cm={}))
        cases.append(dict(copy.deepcopy(best['case']), mm=None))
        progressed = False
        for r in evaluate_given(ctx, cases):
            _d, vs, _k = assess(ctx, r, count=False)
            if any(v['clause'] == viol['clause'] for v in vs) and len(r['line']) < len(best['line']):
                best = r
                progressed = True
                break
        if not progressed:
            break
    return best


# ------------------------------------------------------------------------------------------------
# run / replay
# ------------------------------------------------------------------------------------------------

def run(ctx: core.Ctx):
    ctx.rule = ('random well-formed template trees over all 13 node kinds built from the real qupulse classes '
                '(depth <= 4 quick / <= 6 thorough; parameters, loop ranges incl. empty/negative/non-dividing, injective '
                'channel mappings with dropped channels, measurements, identifiers; dyadic numbers, power-of-two segment '
                'lengths so float arithmetic is exact), all nestings of depth <= 3 over two atoms, and a single-fault '
                'malformed stream; grids = piece boundaries, boundaries +-1/16, 0, regular grids at rates 1 and 4, all in '
                '[0, duration). Non-trivial = a program is produced from a tree with more than one node; distinct by '
                'canonical request line')
    ctx.assumptions = [
        'IEEE-754 arithmetic is exact on the generated dyadic numbers (power-of-two segment lengths and divisors)',
        'sympy parses, simplifies and lambdifies the generated rational expressions according to their mathematical meaning',
        'function templates are generated affine in t; table templates never end in a zero-length segment',
        'at a discontinuity strictly inside a time reversed part either one-sided limit is accepted (see notes/C01.md)',
    ]
    for crec in ctx.corpus():
        replay(ctx, crec, from_corpus=True)
        ctx.corpus_replayed += 1
    depth = 4 if ctx.quick else 6
    descs = _exhaustive_descs(3)
    ctx.exhaustive_spaces.append('all nestings of depth <= 3 over two atoms (table with ramp, parametrised constant) with '
                                 'wrappers rep(2), rep(0 by parameter), iteration, mapping, scalar arithmetic, reversal, '
                                 'parallel channel and binary sequencing: %d trees' % len(descs))
    descs += _descs(ctx, ctx.n(900, 30000), ctx.n(150, 3000), depth)
    recs = ptcheck.run_descs(ctx, descs)
    for rec in recs:
        diffs, viols, known = assess(ctx, rec)
        if diffs or viols or known:
            ctx.disagreements += 1 if (diffs or viols) else 0
            report(ctx, rec, diffs, viols, known)
    replay_known(ctx)


def replay_known(ctx):
    """the recorded witness of every open known finding is replayed on the implementation"""
    for kf in ctx.findings.for_property(PID):
        w = kf.get('witness')
        if not w:
            continue
        recs = evaluate_given(ctx, [w], label='known-finding')
        for r in recs:
            _d, viols, known = assess(ctx, r, count=False)
            if known:
                ctx.known_finding(kf['finding'], '%s: %s' % (kf.get('what', ''), known[0]['what']))
            elif viols:
                ctx.violation('known-finding witness violates outside the recorded class: %s' % viols[0]['what'],
                              ptcheck.replay_record(r, viols[0]['what']))


def replay(ctx: core.Ctx, rec: dict, from_corpus: bool = False) -> bool:
    case = rec.get('case')
    if case is None:
        return True
    grid = [F(t) for t in rec['grid']] if rec.get('grid') else None
    desc = {'family': 'given', 'seed': 0, 'case': case, 'pid': PID, 'windows': False, 'label': 'corpus' if from_corpus else 'replay'}
    if grid:
        desc['grid'] = grid
    r = ptcheck.work(desc)
    if r is None:
        return True
    r['reply'] = ptgen.parse_reply(core.Lean.run([r['line']])[0])
    diffs, viols, known = assess(ctx, r, count=from_corpus)
    if known:
        ctx.known_finding('PF-11', known[0]['what'])
    if viols:
        ctx.violation('%s [%s]' % (viols[0]['what'], summary(r)), ptcheck.replay_record(r, viols[0]['what']))
        return False
    if diffs:
        ctx.drift('replayed case: model and implementation differ', case, diffs[:3], 'see model')
    return True
