"""C03 — declared parameters suffice and declared constraints are enforced.

One *tree* = a random template tree from the shared generator `ptgen` (all 13 node kinds, real qupulse classes),
decorated with parameter constraints (`<`, `<=`, `==`, several per node, over visible parameters, loop indices,
mapped names and constraint-only parameters) on every constrainable node kind.  The values every constraint
sees are learned from the Lean enumeration `QP.C03.visible` (phase A), then the constants are placed *on* the
boundary (phase B) and five assignment streams are run through the real `create_program`:

  sat      exactly the names `pt.parameter_names` declares, all constraints satisfied
  viol     one visible constraint violated (one node responsible)          -> must raise, judge: some false
  invis    one constraint of a node that is not visited violated            -> outcome as `sat`
  extra    `sat` plus values for other names (inner names, loop indices..)  -> full C01 observables identical
  missing  `sat` minus one declared name                                    -> never a program if a visited node needs it

Correspondence: outcome class (program / empty / error class) and `pt.parameter_names` against the Lean model
`QP.PT.createProgram` / `QP.C03.parameterNames`.  Judge: `QP.C03.visibleConstraints` evaluated by Lean, on the
*implementation's* outcome.  The Lean side always sees the tree as it was composed (`build_ref`: an anonymous
MappingPT below a MappingPT gets an identifier so that the constructor cannot merge it away); the implementation
runs on the tree as the constructors make it.
"""
from __future__ import annotations

import copy
import fractions
import multiprocessing
import os
import random
from typing import Any, Dict, List, Optional, Tuple

import core
import ptgen
from core import sx

F = fractions.Fraction
PID = 'C03'
CONSTRAINABLE = ('table', 'point', 'func', 'seq', 'rep', 'for', 'map', 'amulti')
MISSING_ERRORS = ('parameter_missing', 'other:ExpressionVariableMissingException')
K0_BASE = 1000


# ------------------------------------------------------------------------------------------------
# building
# ------------------------------------------------------------------------------------------------

def build_ref(spec: dict, counter: Optional[List[int]] = None):
    """the tree as composed: like `ptgen.build`, but an anonymous mapping directly below a mapping gets an
    identifier, so `MappingPulseTemplate.__init__` keeps it as a node of its own"""
    counter = counter if counter is not None else [0]

    def mark(s: dict, parent_is_map: bool) -> dict:
        s = dict(s)
        s.pop('_pt', None)
        k = s['k']
        if k == 'map' and parent_is_map and not s.get('id'):
            counter[0] += 1
            s['id'] = 'ref%d' % counter[0]
        if k in ('seq', 'amulti'):
            s['subs'] = [mark(c, False) for c in s['subs']]
        elif k == 'aarith':
            s['lhs'] = mark(s['lhs'], False)
            s['rhs'] = mark(s['rhs'], False)
        elif 'body' in s:
            s['body'] = mark(s['body'], k == 'map')
        return s
    return ptgen.build(mark(spec, False))


VIA = {'rep': ('with_repetition', 'pow'), 'seq': ('concatenate', 'matmul'), 'map': ('with_mapping',),
       'for': ('with_iteration',), 'par': ('with_parallel_channels',), 'rev': ('with_time_reversal',)}


def _build_via(node: dict, via: str):
    """the node constructed through the fluent / convenience API of its (already built) children"""
    import functools
    import qupulse.pulses as qp
    k = node['k']
    if k == 'seq':
        subs = [ptgen.build(c) for c in node['subs']]
        if via == 'matmul' and len(subs) >= 2:
            return functools.reduce(lambda a, b: a @ b, subs)
        return qp.SequencePT.concatenate(*subs)
    body = ptgen.build(node['body'])
    if k == 'rep':
        cnt = node['count']
        return body ** cnt if via == 'pow' else body.with_repetition(cnt)
    if k == 'map':
        kw = {}
        if node.get('pm') is not None:
            kw['parameter_mapping'] = dict(node['pm'])
        if node.get('mm') is not None:
            kw['measurement_mapping'] = dict(node['mm'])
        if node.get('cm') is not None:
            kw['channel_mapping'] = {a: b for a, b in node['cm']}
        return body.with_mapping(**kw)
    if k == 'for':
        return body.with_iteration(node['idx'], tuple(node['range']))
    if k == 'par':
        return body.with_parallel_channels(dict(node['over']))
    if k == 'rev':
        return body.with_time_reversal()
    raise core.MachineryError('no helper for node kind %r' % k)


def build_impl(spec: dict):
    """the tree as the USER builds it: like `ptgen.build`, but nodes marked `via` are constructed through the helper
    constructors (`with_repetition` / `**`, `SequencePT.concatenate` / `@`, `with_mapping`, `with_iteration`,
    `with_parallel_channels`, `with_time_reversal`) called on their built children; these may merge / flatten / undo.
    The Lean side always sees the explicit nesting (`build_ref` ignores `via`)."""
    spec = ptgen.strip(copy.deepcopy(spec))

    def go(node):
        for c in ptgen.children(node):
            go(c)
        via = node.get('via')
        if via and via_is_sound(node):
            if node.get('id') or node.get('meas') or node.get('cons'):
                raise core.MachineryError('helper constructors take no identifier / measurements / constraints')
            node['_pt'] = _build_via(node, via)
    # nodes marked `cons_as` / `meas_as` hand their constraints / measurement declarations over as another kind of
    # iterable (`parameter_constraints: Iterable[ConstraintLike]`): tuple, set, one-shot generator, `map` object
    orig_kw = ptgen._kw

    def kw(node, *names):
        out = orig_kw(node, *names)
        if 'parameter_constraints' in out and node.get('cons_as'):
            out['parameter_constraints'] = as_iterable(out['parameter_constraints'], node['cons_as'])
        if 'measurements' in out and node.get('meas_as'):
            out['measurements'] = as_iterable(out['measurements'], node['meas_as'])
        return out
    ptgen._kw = kw
    try:
        go(spec)
        return ptgen.build(spec)
    finally:
        ptgen._kw = orig_kw


ITERABLE_KINDS = ('list', 'tuple', 'set', 'gen', 'map', 'iter', 'dictkeys')


def as_iterable(items: list, how: str):
    if how == 'tuple':
        return tuple(items)
    if how == 'set':
        return set(items) if all(isinstance(x, str) for x in items) else tuple(items)
    if how == 'gen':
        return (x for x in items)
    if how == 'map':
        return map(lambda x: x, items)
    if how == 'iter':
        return iter(list(items))
    if how == 'dictkeys':
        return dict.fromkeys(items).keys() if all(isinstance(x, (str, tuple)) for x in items) else list(items)
    return list(items)


def via_is_sound(node: dict) -> bool:
    """is the helper call on this node equivalent to the explicit nesting the Lean side sees (same declared names, same
    outcome for every assignment) on the unchanged code?  Not so for
    * `ParallelChannelPT(.., {c: e}).with_parallel_channels({c: e2})` on an anonymous inner template: the helper merges the
      two dictionaries, the outer value wins and `e` -- with its parameters -- disappears, while the explicit nesting still
      evaluates (and declares) `e`: the helper result legitimately needs FEWER parameters;
    * a repetition folded into a repetition with a count that may be <= 0 (the explicit nesting then never visits the
      inner node, the folded node validates its constraints).
    Such nodes are built explicitly."""
    k = node['k']
    if k == 'par':
        b = node['body']
        if b['k'] == 'par' and not b.get('id'):
            inner = {ptgen.chan_atom(c) for c, _ in b['over']}
            outer = {ptgen.chan_atom(c) for c, _ in node['over']}
            if inner & outer:
                return False
    if k == 'rep' and node['body']['k'] == 'rep' and str(node['count']) not in ('1', '2', '3'):
        return False
    return True


def apply_helpers(rng: random.Random, spec: dict, p: float, wrap_p: float) -> None:
    """mark undecorated composite nodes as built through the helper API; repeat some repetitions once more through
    `with_repetition` / `**` (the inner one mostly without identifier and measurements, so that the helper folds the two
    counts into one template -- its constraints, added by `decorate`, have to survive)"""
    for node in list(ptgen.spec_nodes(spec)):
        k = node['k']
        if k == 'rep' and rng.random() < wrap_p:
            inner = dict(node)
            if rng.random() < 0.7:
                inner.pop('id', None)
                inner['meas'] = []
            node.clear()
            node.update({'k': 'rep', 'body': inner, 'count': rng.choice(['2', '2', '3', '1']), 'meas': [], 'cons': [],
                         'via': rng.choice(VIA['rep'])})
            continue
        if k in VIA and not node.get('id') and not node.get('meas') and not node.get('cons') and not node.get('nocons') \
                and not node.get('pair') and rng.random() < p:
            if k == 'rep' and node['body']['k'] == 'rep' and node['count'] not in ('1', '2', '3'):
                # `rep.with_repetition(c)` may fold the counts into ONE node that carries the inner constraints; with c <= 0
                # the explicit nesting does not visit the inner repetition at all while the folded node is visited (and
                # validates) -- both are right for their tree, so only positive literal counts are folded here
                continue
            node['via'] = rng.choice(VIA[k])
            if not via_is_sound(node):
                del node['via']


def has_nested_map(spec: dict) -> bool:
    for n in ptgen.spec_nodes(spec):
        if n['k'] == 'map' and n['body']['k'] == 'map' and not n['body'].get('id'):
            return True
    return False


def fnum(v) -> Any:
    """a parameter value as python number: ints stay ints, dyadics become floats"""
    v = F(v)
    return int(v) if v.denominator == 1 else float(v)


# ------------------------------------------------------------------------------------------------
# generation: tree + phase-1 constraints
# ------------------------------------------------------------------------------------------------

def gen_tree(rng: random.Random, depth: int, pair_p: float = 0.3, remap_p: float = 0.35, helper_p: float = 0.3) -> dict:
    g = ptgen.Gen(rng, depth)
    for _ in range(30):
        env, values = g.params()
        n_ch = rng.choice([1, 1, 2, 2, 3])
        chans = ptgen.CHAN_POOL[:n_ch]
        d = rng.randrange(1, depth + 1) if rng.random() < 0.4 else depth
        try:
            spec = g.template(d, chans, env)
            pt = ptgen.build(spec)
        except Exception:  # noqa -- ill-formed draw
            continue
        cm: Dict[str, Optional[str]] = {}
        defined = sorted(pt.defined_channels)
        if rng.random() < 0.3:
            targets = ['X', 'Y', 'Z', 'W', 'V', 'U']
            rng.shuffle(targets)
            for c, t in zip(defined, targets):
                k = rng.random()
                if k < 0.4:
                    cm[c] = t
                elif k < 0.6 and len(defined) > 1 and sum(v is None for v in cm.values()) < len(defined) - 1:
                    cm[c] = None
        mm = None
        mnames = sorted(pt.measurement_names)
        if mnames and rng.random() < 0.25:
            mm = {}
            for n in mnames:
                k = rng.random()
                mm[n] = None if k < 0.3 else (n if k < 0.7 else rng.choice(['p', 'r']))
        spec = ptgen.strip(spec)
        values = dict(values)
        remap_indices(rng, spec, remap_p)
        apply_helpers(rng, spec, helper_p, 0.35)
        if rng.random() < pair_p:
            spec = wrap_pair(rng, spec, pt.parameter_names, values, g.fresh)
        return {'spec': spec, 'values': values, 'cm': cm, 'mm': mm, 'counter': g.counter}
    raise core.MachineryError('generator failed to draw a well-formed template')


def remap_indices(rng: random.Random, spec: dict, p: float) -> None:
    """below some iterations insert `MappingPT({idx: f(idx)})` -- a mapping that RE-DEFINES the enclosing loop's index
    name in terms of itself -- followed by a RepetitionPT / SequencePT level: everything below sees f(idx), not the raw
    loop index (the repetition passes the scope it was given on; only the iteration binds the index).  f keeps
    non-negative indices non-negative (the generator uses those as counts / range bounds)."""
    for node in list(ptgen.spec_nodes(spec)):
        if node['k'] != 'for' or rng.random() >= p:
            continue
        idx = node['idx']
        f = rng.choice(['%s + 1', '%s + 2', '2*%s + 1', '%s + 3', '%s + 1']) % idx
        body = node['body']
        lvl = rng.random()
        if lvl < 0.35:
            body = {'k': 'rep', 'body': body, 'count': rng.choice(['1', '2']), 'meas': [], 'cons': []}
        elif lvl < 0.55:
            body = {'k': 'rep', 'body': {'k': 'seq', 'subs': [body], 'meas': [], 'cons': []}, 'count': '2', 'meas': [], 'cons': []}
        elif lvl < 0.7:
            body = {'k': 'seq', 'subs': [{'k': 'rep', 'body': body, 'count': '1', 'meas': [], 'cons': []}], 'meas': [], 'cons': []}
        elif lvl < 0.8:
            body = {'k': 'seq', 'subs': [body], 'meas': [], 'cons': []}
        # else: the mapping alone (repetitions may follow deeper in the body)
        node['body'] = {'k': 'map', 'body': body, 'pm': [[idx, f]], 'mm': None, 'cm': None, 'cons': [], 'remap': True}


def wrap_pair(rng: random.Random, spec: dict, declared, values: dict, fresh) -> dict:
    """`MappingPT(MappingPT(root, inner), outer)` with an ANONYMOUS, constraint free inner mapping (the constructor
    merges it into the outer one) and an outer mapping whose targets are themselves mapped names: rename chains
    `{u1: u2, u2: u3}` in both orders, swaps / cycles, with and without offsets, over fresh names or over the root's
    own parameter names (inner mapping = identity).  The two mappings have to be composed SIMULTANEOUSLY; `values` is
    rewritten so that the root sees the values it saw before."""
    usable = sorted(n for n in declared if n in values and n != 't')
    if not usable:
        return spec
    k = min(len(usable), rng.choice([2, 2, 3]))
    ps = rng.sample(usable, k)
    same = rng.random() < 0.4
    us = list(ps) if same else [fresh('u') for _ in ps]
    w = fresh('u')
    shape = rng.choice(['chain', 'rchain', 'cycle']) if k >= 2 else 'chain'
    if shape == 'chain':
        targets = us[1:] + [w]
    elif shape == 'rchain':
        targets = [w] + us[:-1]
    else:
        targets = us[1:] + us[:1]
    old = dict(values)

    def plus(name, off):
        return name if off == 0 else ('%s + %d' % (name, off) if off > 0 else '%s - %d' % (name, -off))
    inner_pm, outer_pm = [], []
    for p, u, tgt in zip(ps, us, targets):
        ioff = 0 if same else rng.choice([0, 0, 1, -1])
        ooff = rng.choice([0, 0, 0, 1, -2])
        inner_pm.append([p, plus(u, ioff)])
        outer_pm.append([u, plus(tgt, ooff)])
        values[tgt] = old[p] - ioff - ooff
    inner = {'k': 'map', 'body': spec, 'pm': inner_pm, 'mm': None, 'cm': None, 'cons': [], 'nocons': True}
    return {'k': 'map', 'body': inner, 'pm': outer_pm, 'mm': None, 'cm': None, 'cons': [], 'pair': shape}


def _walk(node: dict, path: Tuple, names: List[str], maps: List[dict], out: List):
    """collect (path, node, visible names, enclosing map nodes) of every node"""
    out.append((path, node, list(names), list(maps)))
    k = node['k']
    if k in ('seq', 'amulti'):
        for i, c in enumerate(node['subs']):
            _walk(c, path + (('subs', i),), names, maps, out)
    elif k == 'aarith':
        _walk(node['lhs'], path + (('lhs',),), names, maps, out)
        _walk(node['rhs'], path + (('rhs',),), names, maps, out)
    elif k == 'map':
        inner = list(names) + [p for p, _ in (node.get('pm') or []) if p not in names]
        _walk(node['body'], path + (('body',),), inner, maps + [node], out)
    elif k == 'for':
        _walk(node['body'], path + (('body',),), list(names) + [node['idx']], maps, out)
    elif 'body' in node:
        _walk(node['body'], path + (('body',),), names, maps, out)


def node_at(spec: dict, path: Tuple) -> dict:
    n = spec
    for step in path:
        n = n[step[0]] if len(step) == 1 else n[step[0]][step[1]]
    return n


def decorate(rng: random.Random, tree: dict, density: float = 0.55, self_range_p: float = 0.3, iter_p: float = 0.4) -> List[dict]:
    """add phase-1 constraints `lhs <= K0` (K0 unique, huge) to the constrainable nodes of tree['spec'];
    returns the constraint records; tree['values'] gains the new top level names"""
    spec, values = tree['spec'], tree['values']
    counter = [tree.get('counter', 0) + 100]
    recs: List[dict] = []
    nodes: List = []
    _walk(spec, (), sorted(values), [], nodes)

    def fresh(prefix):
        counter[0] += 1
        return '%s%d' % (prefix, counter[0])

    def small():
        return F(rng.randrange(-16, 17), 8)

    # loop ranges that mention the loop's own index name: the range is evaluated in the OUTER scope, so the name is
    # an ordinary external parameter there (given at top level or produced by the innermost enclosing mapping)
    for path, node, names, maps in nodes:
        if node['k'] != 'for' or rng.random() >= self_range_p:
            continue
        idx = node['idx']
        if idx in values:
            continue
        if rng.random() < 0.4:
            v = rng.choice([0, 1, 2, 3])
            node['range'] = ['0', idx, '1']                      # `for i in range(i)`
        else:
            v = rng.randrange(-3, 8)
            pos = rng.randrange(3)
            node['range'] = list(node['range'])
            node['range'][pos] = '%s + %s - %d' % (node['range'][pos], idx, v) if v >= 0 else \
                                 '%s + %s + %d' % (node['range'][pos], idx, -v)
        if maps and rng.random() < 0.4:
            y = fresh('y')
            m = maps[-1]
            m['pm'] = list(m.get('pm') or [])
            m['pm'].append([idx, '%s + 1' % y])
            values[y] = v - 1
        else:
            values[idx] = v
        node['self_range'] = True

    for path, node, names, maps in nodes:
        if node['k'] not in CONSTRAINABLE:
            continue
        if node.get('nocons') and rng.random() < 0.85:
            continue                                   # stays mergeable (anonymous and constraint free)
        if node.get('via'):
            continue                                   # built by a helper constructor: these take no constraints
        node.setdefault('cons', [])
        node['cons'] = list(node['cons'] or [])
        n_new = 0
        while rng.random() < density and n_new < 3:
            n_new += 1
            usable = [n for n in names if n != 't']
            terms = []
            style = rng.random()
            if style < 0.3 or not usable:
                # a constraint-only parameter: either given at top level or produced by the innermost mapping
                z = fresh('z')
                if maps and rng.random() < 0.5:
                    y = fresh('y')
                    m = maps[-1]
                    m['pm'] = list(m.get('pm') or [])
                    form = rng.choice(['%s + 0.5', '2*%s', '%s - 1', '%s'])
                    m['pm'].append([z, form % y])
                    values[y] = fnum(small())
                else:
                    values[z] = fnum(small())
                terms.append(z)
                if usable and rng.random() < 0.4:
                    terms.append(rng.choice(usable))
            else:
                terms.append(rng.choice(usable))
                if rng.random() < 0.45:
                    b = rng.choice(usable)
                    if b != terms[0]:
                        terms.append(b)
            if node['k'] == 'for' and rng.random() < 0.3:
                # the loop's own constraints are checked outside the loop: a name equal to the index is an
                # ordinary outer parameter there
                idx = node['idx']
                if idx not in values:
                    values[idx] = rng.choice([7, -3, 0.5])
                if idx not in terms:
                    terms.append(idx)
            if len(terms) == 1:
                lhs = terms[0] if rng.random() < 0.7 else '2*%s' % terms[0]
            elif len(terms) == 2:
                lhs = rng.choice(['%s + %s', '%s - %s', '%s + 2*%s']) % (terms[0], terms[1])
            else:
                lhs = '%s + %s - %s' % tuple(terms[:3])
            k0 = K0_BASE + len(recs)
            node['cons'].append('%s <= %d' % (lhs, k0))
            recs.append({'path': [list(s) for s in path], 'pos': len(node['cons']) - 1, 'lhs': lhs, 'k0': k0,
                         'kind': node['k']})
    for _path, node, _names, _maps in nodes:
        if node.get('cons') and rng.random() < iter_p:
            node['cons_as'] = rng.choice(ITERABLE_KINDS[1:])
    tree['counter'] = counter[0]
    return recs


# ------------------------------------------------------------------------------------------------
# real code
# ------------------------------------------------------------------------------------------------

def run_impl(pt, params: dict, cm, mm) -> dict:
    kwargs: Dict[str, Any] = {'parameters': dict(params)}
    if cm:
        kwargs['channel_mapping'] = dict(cm)
    if mm is not None:
        kwargs['measurement_mapping'] = dict(mm)
    try:
        prog = pt.create_program(**kwargs)
    except Exception as exc:  # noqa
        cls = core.classify_exception(exc)
        out = {'status': 'error', 'error': cls, 'msg': str(exc)[:160]}
        if cls == 'constraint_violation':
            out['constraint'] = str(getattr(exc, 'constraint', ''))
        if cls == 'value_error' and 'may not depend on anything but' in str(exc):
            out['missing_like'] = True
        return out
    return {'status': 'empty' if prog is None else 'program'}


def outcome_str(o: dict) -> str:
    return o['status'] if o['status'] != 'error' else 'error:' + o['error']


def c01_observables(pt, params, cm, mm, grid=None, rng=None) -> Tuple[dict, list]:
    case = {'spec': {'_pt': pt}, 'params': dict(params), 'cm': cm or {}, 'mm': mm, 'single': []}
    obs = ptgen.observe(case, rng or random.Random(0), grid=grid)
    impl = dict(obs['impl'])
    impl.pop('tdur', None)
    return impl, obs['grid']


_REL_RE = None


def constraint_sx(text) -> Any:
    """a constraint *as it is written* -> S-expression data (independent of qupulse's ParameterConstraint):
    `lhs REL rhs` with REL one of <= >= == < > != ; the sides are parsed by sympy as arithmetic expressions"""
    import re
    import sympy
    global _REL_RE
    if _REL_RE is None:
        _REL_RE = re.compile(r'(<=|>=|==|!=|<|>)')
    if not isinstance(text, str):
        return ptgen.sympy_sx(getattr(text, 'sympified_expression', text))
    parts = _REL_RE.split(text)
    if len(parts) != 3:
        raise core.MachineryError('constraint not of the form lhs REL rhs: %r' % text)
    rel = {'<=': 'le', '>=': 'ge', '==': 'eq', '!=': 'ne', '<': 'lt', '>': 'gt'}[parts[1]]
    return [rel, ptgen.sympy_sx(sympy.sympify(parts[0])), ptgen.sympy_sx(sympy.sympify(parts[2]))]


_CONS_POS = {'table': 4, 'point': 5, 'func': 6, 'seq': 4, 'rep': 5, 'for': 8, 'map': 6, 'amulti': 5}


def declared_tree_sx(pt_ref, spec: dict) -> Any:
    """the serialised reference tree with every node's constraints taken from the text the template was
    constructed with (the tree shapes coincide: `build_ref` prevents merging)"""
    tree = ptgen.to_sx(pt_ref)

    def patch(sx_node, sp):
        k = sp['k']
        tag = {'aarith': 'aarith', 'amulti': 'amulti', 'for': 'for', 'map': 'map', 'par': 'par', 'rev': 'rev',
               'arith': 'arith'}.get(k, k)
        if sx_node[0] != tag:
            raise core.MachineryError('reference tree and spec disagree: %s vs %s' % (sx_node[0], k))
        if k in _CONS_POS:
            sx_node[_CONS_POS[k]] = [constraint_sx(c) for c in (sp.get('cons') or [])]
        if k in ('seq', 'amulti'):
            for a, b in zip(sx_node[2], sp['subs']):
                patch(a, b)
        elif k == 'aarith':
            patch(sx_node[2], sp['lhs'])
            patch(sx_node[4], sp['rhs'])
        elif 'body' in sp:
            patch(sx_node[2], sp['body'])
    patch(tree, spec)
    return tree


def request(pt_ref, params: dict, cm, mm, spec: Optional[dict] = None) -> str:
    tree = declared_tree_sx(pt_ref, spec) if spec is not None else ptgen.to_sx(pt_ref)
    fields = ['c03', 'run', ['pt', tree],
              ['params'] + [[k, ptgen.num_frac(v)] for k, v in params.items()],
              ['mm', 'none'] if mm is None else ['mm'] + [[k, 'none' if v is None else v] for k, v in mm.items()],
              ['cm'] + [[k, 'none' if v is None else v] for k, v in (cm or {}).items()],
              ['single'], ['grid']]
    return sx(fields)


def _field(lst, name):
    for x in lst:
        if isinstance(x, list) and x and x[0] == name:
            return x[1:]
    return None


def parse_reply(ans) -> dict:
    if ans and ans[0] == 'err':
        raise core.MachineryError('driver rejected a C03 request: %r' % (ans,))
    f = lambda name: _field(ans, name)  # noqa
    oc = f('outcome')[0]
    outcome = {'status': oc} if isinstance(oc, str) else {'status': 'error', 'error': oc[1]}
    cons = []
    for c in f('cons') or []:
        st = c[0] if isinstance(c[0], str) else 'error:' + c[0][1]
        rec = {'status': st, 'cmp': c[1]}
        if len(c) == 4:
            rec['a'] = core.as_frac(c[2]) if (isinstance(c[2], str) or c[2][0] == 'q') else None
            rec['b'] = core.as_frac(c[3]) if (isinstance(c[3], str) or c[3][0] == 'q') else None
        cons.append(rec)
    jd = f('judge')[0]
    return {'names': sorted(f('names') or []), 'pinned': sorted(f('pinned') or []),
            'wf': f('wf')[0] == 'true', 'not': f('not')[0] == 'true', 'pf14': f('pf14')[0] == 'true',
            'outcome': outcome, 'cons': cons, 'needs': list(f('needs') or []),
            'judge': jd if isinstance(jd, str) else 'error:' + jd[1]}


# ------------------------------------------------------------------------------------------------
# phases (run in worker processes)
# ------------------------------------------------------------------------------------------------

def phase_a(desc: dict) -> Optional[dict]:
    """draw a tree, decorate it, produce the probe request"""
    import warnings
    warnings.filterwarnings('ignore')
    core.ensure_repo_on_path()
    rng = random.Random(desc['seed'])
    for _ in range(8):
        tree = gen_tree(rng, desc['depth'])
        recs = decorate(rng, tree)
        try:
            ref = build_ref(tree['spec'])
            build_impl(tree['spec'])
        except Exception:  # noqa -- e.g. a mapping the constructor rejects
            continue
        tree['recs'] = recs
        tree['seed'] = desc['seed']
        tree['probe'] = request(ref, tree['values'], tree['cm'], tree['mm'], tree['spec'])
        return tree
    return None


def learn_values(tree: dict, reply: dict) -> None:
    """attach to every constraint record the lhs values of its visits (None = not evaluable there)"""
    by_k0: Dict[int, List] = {r['k0']: [] for r in tree['recs']}
    for c in reply['cons']:
        a, b = c.get('a'), c.get('b')
        k0, lhs = None, None
        if b is not None and b.denominator == 1 and int(b) in by_k0:
            k0, lhs = int(b), a
        elif a is not None and a.denominator == 1 and int(a) in by_k0:
            k0, lhs = int(a), b
        if k0 is None:
            continue
        by_k0[k0].append(lhs)
    for r in tree['recs']:
        vs = by_k0[r['k0']]
        r['visits'] = len(vs)
        r['bad'] = any(v is None for v in vs)
        r['values'] = [str(v) for v in vs if v is not None]


def finalize(rng: random.Random, tree: dict) -> dict:
    """choose relation and constant of every constraint (satisfied, on the boundary where possible) and the
    violating constant"""
    spec = copy.deepcopy(tree['spec'])
    keep = []
    for r in tree['recs']:
        node = node_at(spec, tuple(tuple(s) for s in r['path']))
        if r['bad']:
            node['cons'][r['pos']] = None
            continue
        vals = [F(v) for v in r['values']]
        rel = rng.choice(['<', '<=', '<=', '=='])
        if not vals:
            # never visited: any constant satisfies; the violating form would be false for every plausible value
            sat, vio = F(rng.randrange(-8, 9), 4), None
            rel = '<' if rel == '==' else rel
            r.update(rel=rel, sat=str(sat), vio='-999')
        else:
            hi = max(vals)
            if rel == '==' and len(set(vals)) > 1:
                rel = '<='
            if rel == '<=':
                sat = hi if rng.random() < 0.7 else hi + F(rng.randrange(1, 9), 8)
                vio = hi - F(1, 8)
            elif rel == '<':
                sat = hi + F(1, 8) if rng.random() < 0.7 else hi + F(rng.randrange(2, 9), 8)
                vio = hi
            else:
                sat = hi
                vio = hi + (F(1, 8) if rng.random() < 0.5 else F(-1, 8))
            r.update(rel=rel, sat=str(sat), vio=str(vio))
        node['cons'][r['pos']] = '%s %s %s' % (r['lhs'], r['rel'], ptgen.fstr(F(r['sat'])))
        keep.append(r)
    # drop the unusable ones (positions of the kept ones are re-read below)
    for n in ptgen.spec_nodes(spec):
        if n.get('cons'):
            n['cons'] = [c for c in n['cons'] if c is not None]
    return spec


def with_violation(spec_sat: dict, tree: dict, rec: dict) -> dict:
    """the satisfying tree with the constant of one constraint replaced by its violating value"""
    spec = copy.deepcopy(spec_sat)
    node = node_at(spec, tuple(tuple(s) for s in rec['path']))
    old = '%s %s %s' % (rec['lhs'], rec['rel'], ptgen.fstr(F(rec['sat'])))
    new = '%s %s %s' % (rec['lhs'], rec['rel'], ptgen.fstr(F(rec['vio'])))
    i = node['cons'].index(old)
    node['cons'][i] = new
    return spec


def _ref_children(pt) -> list:
    import qupulse.pulses as qp
    t = type(pt).__name__
    if t in ('SequencePulseTemplate', 'AtomicMultiChannelPulseTemplate'):
        return list(pt.subtemplates)
    if t in ('RepetitionPulseTemplate', 'ForLoopPulseTemplate'):
        return [pt.body]
    if t in ('MappingPulseTemplate', 'ParallelChannelPulseTemplate'):
        return [pt.template]
    if t == 'ArithmeticPulseTemplate':
        return [pt._pulse_template]
    if t == 'ArithmeticAtomicPulseTemplate':
        return [pt.lhs, pt.rhs]
    if t == 'TimeReversalPulseTemplate':
        return [pt._inner]
    return []


def cancelled_names(spec: dict, declared) -> List[str]:
    """names the EXPLICIT nesting (what Lean sees) declares, the implementation's tree does not, and for which the harness'
    own simultaneous composition (sympy `subs(.., simultaneous=True)`) of a chain of directly nested mappings -- an outer
    mapping above an anonymous constraint free one, which the constructor merges -- shows that they cancel:
    `{v0: v1}` above `{v1: v1 - v0}` composes to `v1 := 0`.  The merged template legitimately needs fewer parameters than
    the explicit nesting; such names are supplied to both sides.  A name that is merely LOST by the merge does not
    cancel in the harness' composition and is not excused."""
    import sympy
    import qupulse.pulses as qp
    try:
        ref = build_ref(spec)
    except Exception:  # noqa
        return []
    cand = set(ref.parameter_names) - set(declared)
    if not cand:
        return []

    def pm_of(m):
        return {sympy.Symbol(k): sympy.sympify(e.underlying_expression) for k, e in m.parameter_mapping.items()}

    def mergeable(m):
        return type(m) is qp.MappingPT and (m.identifier or '').startswith('ref') and not m.parameter_constraints

    def merged(m):
        mine = pm_of(m)
        if mergeable(m.template):
            inner = merged(m.template)
            return {p: sympy.sympify(e).subs(mine, simultaneous=True) for p, e in inner.items()}
        return mine

    def free(d):
        out: set = set()
        for e in d.values():
            out |= {str(x) for x in getattr(e, 'free_symbols', set())}
        return out
    explained: set = set()

    def walk(node):
        if type(node) is qp.MappingPT and mergeable(node.template):
            explained.update(free(pm_of(node)) - free(merged(node)))
        for c in _ref_children(node):
            walk(c)
    walk(ref)
    return sorted(cand & explained)


def make_streams(desc: dict) -> List[dict]:
    """phase B: the cases of all streams of one tree (spec + params); runs in a worker"""
    tree = desc['tree']
    rng = random.Random(tree['seed'] ^ 0x9e3779b9)
    spec_sat = finalize(rng, tree)
    pt = build_impl(spec_sat)
    declared = sorted(pt.parameter_names)
    values = tree['values']
    cases: List[dict] = []
    base = {'cm': tree['cm'], 'mm': tree['mm'], 'seed': tree['seed']}
    unknown = [n for n in declared if n not in values]
    for n in unknown:                       # a declared name the generator has no value for (should not happen)
        values[n] = 1
    sat_params = {n: values[n] for n in declared}
    cancelled = cancelled_names(spec_sat, declared) if has_nested_map(spec_sat) else []
    if cancelled:
        # the explicit nesting needs them, the merged template does not: both sides get a value
        sat_params.update({n: values.get(n, 1) for n in cancelled})
        base['cancelled'] = cancelled
    cases.append(dict(base, stream='sat', spec=spec_sat, params=sat_params, observe=True))
    usable = [r for r in tree['recs'] if not r['bad']]
    visible = [r for r in usable if r['visits'] > 0]
    invisible = [r for r in usable if r['visits'] == 0]
    for r in rng.sample(visible, min(len(visible), desc.get('n_viol', 2))):
        cases.append(dict(base, stream='viol', spec=with_violation(spec_sat, tree, r), params=sat_params,
                          target={'lhs': r['lhs'], 'rel': r['rel'], 'vio': r['vio'], 'kind': r['kind']}))
    for r in rng.sample(invisible, min(len(invisible), 1)):
        sv = with_violation(spec_sat, tree, r)
        p2 = dict(sat_params)
        try:
            for n in build_impl(sv).parameter_names:
                p2.setdefault(n, values.get(n, 1))
        except Exception:  # noqa
            continue
        cases.append(dict(base, stream='invis', spec=sv, params=p2,
                          target={'lhs': r['lhs'], 'rel': r['rel'], 'vio': r['vio'], 'kind': r['kind']}))
    # extra names: inner names of mappings, loop indices, channel / measurement names, fresh names
    inner = set()
    for n in ptgen.spec_nodes(spec_sat):
        if n['k'] == 'for':
            inner.add(n['idx'])
        if n['k'] == 'map':
            inner.update(p for p, _ in (n.get('pm') or []))
    pool = sorted((inner | {'x1', 'x2', 'A', 'm', 'T', 'tt'} | set(values)) - set(declared) - set(cancelled) - {'t'})
    extra = {n: fnum(F(rng.randrange(-40, 41), 8)) for n in rng.sample(pool, min(len(pool), rng.choice([1, 2, 3, 5])))}
    cases.append(dict(base, stream='extra', spec=spec_sat, params=dict(sat_params, **extra), base_params=sat_params,
                      extra=sorted(extra), observe=True))
    if rng.random() < desc.get('t_prob', 0.25):
        cases.append(dict(base, stream='extra-t', spec=spec_sat, params=dict(sat_params, t=fnum(F(rng.randrange(1, 9), 4))),
                          base_params=sat_params, extra=['t'], observe=True))
    for n in rng.sample(declared, min(len(declared), desc.get('n_missing', 2))):
        cases.append(dict(base, stream='missing', spec=spec_sat, params={k: v for k, v in sat_params.items() if k != n},
                          removed=n))
    return cases


def evaluate_case(case: dict) -> Optional[dict]:
    """real code + request line of one case; runs in a worker"""
    import warnings
    warnings.filterwarnings('ignore')
    core.ensure_repo_on_path()
    try:
        pt = build_impl(case['spec'])
        ref = build_ref(case['spec'])
    except Exception as exc:  # noqa -- not constructible: not an instantiation case
        return None
    if case.get('param_pool') is not None:
        # "exactly the declared names": the values are drawn from the pool for whatever the implementation declares
        case = dict(case, params={n: case['param_pool'][n] for n in sorted(pt.parameter_names) if n in case['param_pool']})
        if case.get('extra_pool') is not None:
            # ... plus values for names the implementation does NOT declare
            extra = {n: v for n, v in case['extra_pool'].items() if n not in pt.parameter_names}
            case = dict(case, base_params=dict(case['params']), params=dict(case['params'], **extra), extra=sorted(extra))
    rec: Dict[str, Any] = {'case': {k: v for k, v in case.items() if k not in ('observe',)},
                           'stream': case.get('stream', 'given')}
    rec['impl'] = run_impl(pt, case['params'], case['cm'], case['mm'])
    rec['declared'] = sorted(pt.parameter_names)
    rec['kinds'] = ptgen.spec_kinds(case['spec'])
    rec['nested_map'] = has_nested_map(case['spec'])
    if case.get('base_params') is not None:
        rec['impl_base'] = run_impl(pt, case['base_params'], case['cm'], case['mm'])
        if rec['impl_base']['status'] == 'program' and rec['impl']['status'] == 'program':
            try:
                o1, grid = c01_observables(pt, case['base_params'], case['cm'], case['mm'],
                                           rng=random.Random(case.get('seed', 0)))
                o2, _ = c01_observables(pt, case['params'], case['cm'], case['mm'], grid=grid)
                rec['obs_equal'] = (o1 == o2)
                if o1 != o2:
                    rec['obs_diff'] = _first_diff(o1, o2)
                rec['grid_points'] = len(grid)
            except Exception as exc:  # noqa
                rec['obs_equal'] = False
                rec['obs_diff'] = 'observation raised %s' % type(exc).__name__
    rec['line'] = request(ref, case['params'], case['cm'], case['mm'], case['spec'])
    return rec


def _first_diff(a: dict, b: dict) -> str:
    for k in sorted(set(a) | set(b)):
        if a.get(k) != b.get(k):
            return '%s: %s vs %s' % (k, str(a.get(k))[:120], str(b.get(k))[:120])
    return ''


def _pool_map(ctx, fn, items, chunk=4):
    workers = int(os.environ.get('VERIF_WORKERS', '0')) or (6 if ctx.quick else 14)
    workers = max(1, min(workers, len(items) // 4 or 1))
    if workers > 1:
        with multiprocessing.get_context('fork').Pool(workers) as pool:
            return pool.map(fn, items, chunksize=chunk)
    return [fn(i) for i in items]


# ------------------------------------------------------------------------------------------------
# judge
# ------------------------------------------------------------------------------------------------

def in_pf14_class(rec: dict) -> bool:
    """known-finding class PF-14: the assignment binds the reserved name `t` and the tree contains a scalar
    arithmetic template, or uses `t` as time outside a function template's formula (Lean: QP.C03.inPF14)"""
    return 't' in rec['case']['params'] and bool(rec['reply']['pf14'])


def judge(rec: dict) -> Tuple[List[dict], List[str]]:
    """(property violations of the implementation's outcome, model/implementation differences)"""
    impl, reply, case = rec['impl'], rec['reply'], rec['case']
    viols: List[dict] = []
    diffs: List[str] = []
    cons = reply['cons']
    n_false = sum(1 for c in cons if c['status'] == 'false')
    n_true = sum(1 for c in cons if c['status'] == 'true')
    needs_missing = [s for s in reply['needs'] if s in MISSING_ERRORS] + \
                    [c['status'][6:] for c in cons if c['status'].startswith('error:') and c['status'][6:] in MISSING_ERRORS]
    returned = impl['status'] in ('program', 'empty')
    # -- constraints ---------------------------------------------------------------------------------
    if returned and n_false:
        viols.append({'clause': 'unenforced-constraint',
                      'what': 'instantiation returns %s although %d of the %d constraints of visited nodes evaluate false '
                              'in the scope their node sees' % ('a program' if impl['status'] == 'program' else 'normally',
                                                                n_false, len(cons))})
    if returned and needs_missing:
        viols.append({'clause': 'missing-yields-program',
                      'what': 'instantiation returns normally although a visited node needs a parameter that is missing'})
    if impl['status'] == 'error' and impl['error'] == 'constraint_violation' and n_false == 0:
        viols.append({'clause': 'rejects-satisfying',
                      'what': 'ParameterConstraintViolation (%s) although no constraint of any visited node evaluates false '
                              '(%d evaluate true, %d cannot be evaluated)' % (impl.get('constraint', ''), n_true,
                                                                               len(cons) - n_true)})
    # -- declared names suffice ------------------------------------------------------------------------
    exactly_declared = set(case['params']) >= set(rec['declared'])
    if exactly_declared and impl['status'] == 'error' and \
            (impl['error'] in MISSING_ERRORS or impl.get('missing_like')):
        viols.append({'clause': 'declared-insufficient',
                      'what': 'values for every name in parameter_names %s are given, yet instantiation fails with %s: %s'
                              % (rec['declared'], impl['error'], impl.get('msg', ''))})
    # -- extra names never matter ---------------------------------------------------------------------
    if 'impl_base' in rec:
        b = rec['impl_base']
        if outcome_str(b) != outcome_str(impl):
            viols.append({'clause': 'extra-names-matter',
                          'what': 'values for the undeclared names %s change the outcome from %s to %s'
                                  % (case.get('extra'), outcome_str(b), outcome_str(impl))})
        elif rec.get('obs_equal') is False:
            viols.append({'clause': 'extra-names-matter',
                          'what': 'values for the undeclared names %s change the program: %s'
                                  % (case.get('extra'), rec.get('obs_diff'))})
    # -- correspondence ---------------------------------------------------------------------------------
    if outcome_str(impl) != outcome_str(reply['outcome']):
        if rec['stream'] == 'missing' and impl['status'] == 'error' and \
                (impl['error'] in MISSING_ERRORS or impl.get('missing_like')):
            # An incomplete assignment on which the implementation asks for more than the model reads:
            # `RangeScope.keys()` is `as_dict().keys()`, so below an iteration every constraint check and every
            # table instantiation evaluates *all* parameters of the enclosing mapped scopes.  The property only
            # demands an error when a needed parameter is missing (judged above); it does not forbid one
            # otherwise.  Counted, not a disagreement about the property.
            rec['needs_more'] = True
        else:
            diffs.append('outcome: impl %s, model %s' % (outcome_str(impl), outcome_str(reply['outcome'])))
    if rec['declared'] != reply['names'] and not rec['nested_map']:
        diffs.append('parameter_names: impl %s, model %s' % (rec['declared'], reply['names']))
    if not reply['wf']:
        diffs.append('the built tree violates QP.C03.WF (a mapping does not map every parameter of its body)')
    return viols, diffs


def summary(rec: dict) -> str:
    c = rec['case']
    return 'stream=%s kinds=%s params=%s' % (rec['stream'], '/'.join(rec['kinds'][:12]) + ('/…' if len(rec['kinds']) > 12 else ''), c['params'])


def replay_record(rec: dict, extra: Optional[dict] = None) -> dict:
    d = {'kind': 'c03-case', 'case': rec['case'], 'stream': rec['stream']}
    if extra:
        d.update(extra)
    return d


def assess(ctx: core.Ctx, rec: dict, count=True) -> Tuple[List[dict], List[str], List[dict]]:
    viols, diffs = judge(rec)
    known: List[dict] = []
    if in_pf14_class(rec) and any(k.get('finding') == 'PF-14' for k in ctx.findings.for_property(PID)):
        rest = []
        for v in viols:
            (known if v['clause'] == 'extra-names-matter' else rest).append(v)
        viols = rest
        diffs = []          # the model does not describe assignments that bind `t` for these trees
    if count:
        impl, reply = rec['impl'], rec['reply']
        ctx.case(rec['line'], nontrivial=len(reply['cons']) > 0 and len(rec['kinds']) > 1)
        ctx.count('stream:' + rec['stream'])
        ctx.count('impl:' + outcome_str(impl))
        ctx.count('%s->%s' % (rec['stream'], outcome_str(impl)))
        ctx.count('visible-constraints', len(reply['cons']))
        ctx.count('visible-constraints-false', sum(1 for c in reply['cons'] if c['status'] == 'false'))
        for k in set(rec['kinds']):
            ctx.count('kind:' + k)
        if rec['stream'] == 'viol' and impl['status'] == 'error' and impl['error'] == 'constraint_violation':
            t = rec['case'].get('target', {})
            if t and t['lhs'].replace(' ', '') in impl.get('constraint', '').replace(' ', ''):
                ctx.count('viol:responsible-constraint-named')
        if rec['stream'] == 'viol':
            ctx.count('viol-target-kind:' + rec['case'].get('target', {}).get('kind', '?'))
        if rec.get('obs_equal'):
            ctx.count('extra:grid-points-compared', rec.get('grid_points', 0))
        if rec['nested_map']:
            ctx.count('with-mapping-below-mapping')
        if any(n.get('self_range') for n in ptgen.spec_nodes(rec['case']['spec'])) or \
                rec['case'].get('label', '').startswith('self-range'):
            ctx.count('with-loop-range-naming-its-own-index')
        if any(n.get('cons_as') in ('gen', 'map', 'iter') for n in ptgen.spec_nodes(rec['case']['spec'])):
            ctx.count('with-constraints-given-as-one-shot-iterable')
        if rec['case'].get('cancelled'):
            ctx.count('with-names-that-cancel-in-a-merged-mapping')
        if any(n.get('via') for n in ptgen.spec_nodes(rec['case']['spec'])):
            ctx.count('with-node-built-by-a-helper-constructor')
        if any(n.get('remap') for n in ptgen.spec_nodes(rec['case']['spec'])) or \
                rec['case'].get('label', '').startswith('index-remap'):
            ctx.count('with-mapping-that-redefines-the-loop-index')
        if any(n.get('pair') for n in ptgen.spec_nodes(rec['case']['spec'])) or \
                rec['case'].get('label', '').startswith('nested-map'):
            ctx.count('with-composed-anonymous-mapping-pair')
        if rec.get('needs_more'):
            ctx.count('missing:implementation-needs-more-than-model')
    return viols, diffs, known


def report(ctx: core.Ctx, rec: dict, viols, diffs, known):
    if known:
        ctx.known_finding('PF-14', 'a value for the reserved name t changes the result: %s' % known[0]['what'])
        ctx.count('known:PF-14')
    if viols:
        small = rec
        n = ctx.extra.setdefault('shrunk', 0)
        if n < 4:
            ctx.extra['shrunk'] = n + 1
            small = shrink(ctx, rec, viols[0])
        vs, _, _ = assess(ctx, small, count=False)
        v = next((x for x in vs if x['clause'] == viols[0]['clause']), viols[0])
        ctx.violation('%s [%s]' % (v['what'], summary(small)), replay_record(small, {'clause': v['clause'],
                                                                                    'original': rec['case']}))
    elif diffs and not known:
        ctx.drift('create_program / parameter_names vs QP.PT.createProgram / QP.C03.parameterNames', rec['case'],
                  diffs[:3], 'see model')


# ------------------------------------------------------------------------------------------------
# failing-input search
# ------------------------------------------------------------------------------------------------

def evaluate_given(cases: List[dict]) -> List[dict]:
    recs = []
    for c in cases:
        try:
            r = evaluate_case(c)
        except core.MachineryError:
            raise
        except Exception:  # noqa
            r = None
        if r is not None:
            recs.append(r)
    if recs:
        for r, a in zip(recs, core.Lean.run([r['line'] for r in recs])):
            r['reply'] = parse_reply(a)
    return recs


def _spec_candidates(spec: dict) -> List[dict]:
    """smaller spec trees: a node replaced by one of its children, sequence parts dropped, measurements dropped,
    counts and ranges simplified"""
    out: List[dict] = []

    def rec(node, rebuild):
        for c in ptgen.children(node):
            out.append(rebuild(copy.deepcopy(c)))
        k = node['k']
        if k in ('seq', 'amulti') and len(node['subs']) > 1:
            for i in range(len(node['subs'])):
                n = copy.deepcopy(node)
                del n['subs'][i]
                out.append(rebuild(n))
        if node.get('meas'):
            n = copy.deepcopy(node)
            n['meas'] = []
            out.append(rebuild(n))
        if k == 'rep' and node['count'] not in ('1', '2'):
            for cnt in ('1', '2'):
                n = copy.deepcopy(node)
                n['count'] = cnt
                out.append(rebuild(n))
        if k == 'for' and node['range'] != ['0', '2', '1']:
            n = copy.deepcopy(node)
            n['range'] = ['0', '2', '1']
            out.append(rebuild(n))
        if k in ('seq', 'amulti'):
            for i, c in enumerate(node['subs']):
                def rb(x, i=i, node=node):
                    n = copy.deepcopy(node)
                    n['subs'][i] = x
                    return rebuild(n)
                rec(c, rb)
        elif k == 'aarith':
            for key in ('lhs', 'rhs'):
                def rb(x, key=key, node=node):
                    n = copy.deepcopy(node)
                    n[key] = x
                    return rebuild(n)
                rec(node[key], rb)
        elif 'body' in node:
            def rb(x, node=node):
                n = copy.deepcopy(node)
                n['body'] = x
                return rebuild(n)
            rec(node['body'], rb)

    rec(spec, lambda x: x)
    return out


def _shrink_candidates(case: dict) -> List[dict]:
    out = []
    for s in _spec_candidates(case['spec'])[:80]:
        c = copy.deepcopy(case)
        c['spec'] = s
        out.append(c)
    # drop single constraints
    nodes = []
    _walk(case['spec'], (), [], [], nodes)
    for path, node, _n, _m in nodes:
        for i in range(len(node.get('cons') or [])):
            c = copy.deepcopy(case)
            del node_at(c['spec'], path)['cons'][i]
            out.append(c)
    if case.get('cm'):
        out.append(dict(copy.deepcopy(case), cm={}))
    if case.get('mm') is not None:
        out.append(dict(copy.deepcopy(case), mm=None))
    return out


def _restrict_params(case: dict) -> dict:
    """after shrinking the tree: keep the stream's intent (exactly declared / extra / missing) on the new tree"""
    try:
        pt = build_impl(case['spec'])
    except Exception:  # noqa
        return case
    declared = set(pt.parameter_names)
    c = dict(case)
    extra = set(case.get('extra') or [])
    keep = declared | set(case.get('cancelled') or [])
    c['params'] = {k: v for k, v in case['params'].items() if k in keep or k in extra}
    if case.get('base_params') is not None:
        c['base_params'] = {k: v for k, v in case['base_params'].items() if k in keep}
    return c


def shrink(ctx: core.Ctx, rec: dict, viol: dict, rounds=8) -> dict:
    best = rec
    for _ in range(rounds):
        cands = [_restrict_params(c) for c in _shrink_candidates(best['case'])]
        progressed = False
        for r in evaluate_given(cands):
            vs, _d, _k = assess(ctx, r, count=False)
            if any(v['clause'] == viol['clause'] for v in vs) and len(r['line']) < len(best['line']):
                best = r
                progressed = True
                break
        if not progressed:
            break
    return best


# ------------------------------------------------------------------------------------------------
# exhaustive small scope
# ------------------------------------------------------------------------------------------------

def _atom(ch='A', val='a'):
    return {'k': 'func', 'ch': ch, 'dur': '1', 'expr': val, 'meas': [], 'cons': []}


def _node(kind: str, cons: List[str]) -> dict:
    if kind == 'table':
        return {'k': 'table', 'entries': [['A', [['0', 'a', 'hold'], ['1', 'a', 'hold']]]], 'meas': [], 'cons': cons}
    if kind == 'point':
        return {'k': 'point', 'chans': ['A'], 'entries': [['0', 'a', 'hold'], ['1', 'a', 'hold']], 'meas': [], 'cons': cons}
    if kind == 'func':
        return dict(_atom(), cons=cons)
    if kind == 'seq':
        return {'k': 'seq', 'subs': [_atom()], 'meas': [], 'cons': cons}
    if kind == 'rep':
        return {'k': 'rep', 'body': _atom(), 'count': '1', 'meas': [], 'cons': cons}
    if kind == 'for':
        return {'k': 'for', 'body': _atom(val='a + j'), 'idx': 'j', 'range': ['0', '1', '1'], 'meas': [], 'cons': cons}
    if kind == 'map':
        return {'k': 'map', 'body': _atom(), 'pm': [['a', 'a']], 'mm': None, 'cm': None, 'cons': cons}
    if kind == 'amulti':
        return {'k': 'amulti', 'subs': [_atom('A'), _atom('B')], 'meas': [], 'cons': cons}
    raise core.MachineryError(kind)


def exhaustive_cases() -> List[dict]:
    """every constrainable node kind x context (plain / below a renaming mapping / below an iteration / below a
    zero and a double repetition / inside an atomic template) x relation x constant (below, on, above the
    boundary); the outcome is decided by the judge"""
    out = []
    eighth = F(1, 8)
    for kind in CONSTRAINABLE:
        for ctxname in ('plain', 'map', 'for', 'rep0', 'rep2', 'atomic'):
            if ctxname == 'atomic' and kind not in ('table', 'point', 'func', 'amulti', 'map'):
                continue
            for rel in ('<', '<=', '=='):
                for off in (-eighth, F(0), eighth):
                    params: Dict[str, Any] = {'a': 0.25}
                    if ctxname == 'plain' or ctxname in ('rep0', 'rep2', 'atomic'):
                        lhs, val = 'x', F(1, 2)
                        params['x'] = 0.5
                    elif ctxname == 'map':
                        lhs, val = 'x', F(1, 2)
                        params['y'] = -0.5
                    else:
                        lhs, val = 'x + i', F(3, 2)
                        params['x'] = 0.5
                    con = '%s %s %s' % (lhs, rel, ptgen.fstr(val + off))
                    node = _node(kind, [con])
                    if ctxname == 'map':
                        spec = {'k': 'map', 'body': node, 'pm': [['x', 'y + 1']], 'mm': None, 'cm': None, 'cons': []}
                        if kind == 'map':
                            spec['id'] = None
                    elif ctxname == 'for':
                        spec = {'k': 'for', 'body': {'k': 'seq', 'subs': [node, _atom(val='a + i')], 'meas': [], 'cons': []},
                                'idx': 'i', 'range': ['0', '2', '1'], 'meas': [], 'cons': []}
                    elif ctxname == 'rep0':
                        spec = {'k': 'rep', 'body': node, 'count': '0', 'meas': [], 'cons': []}
                    elif ctxname == 'rep2':
                        spec = {'k': 'rep', 'body': node, 'count': 'n', 'meas': [], 'cons': []}
                        params['n'] = 2
                    elif ctxname == 'atomic':
                        spec = {'k': 'amulti', 'subs': [{'k': 'map', 'body': node, 'pm': None, 'mm': None, 'cm': None},
                                                        _atom('G')], 'meas': [], 'cons': []}
                    else:
                        spec = node
                    out.append({'spec': spec, 'params': params, 'cm': {}, 'mm': None, 'stream': 'exhaustive',
                                'label': '%s/%s/%s/%s' % (kind, ctxname, rel, off)})
    out.extend(self_range_cases())
    out.extend(nested_map_cases())
    out.extend(index_remap_cases())
    out.extend(helper_cases())
    out.extend(iterable_cases())
    return out


def self_range_cases() -> List[dict]:
    """iterations whose range (start / stop / step) names the loop's own index — `for n in range(n)`: the range is
    evaluated outside the loop, so the name is an external parameter — alone, below sequence / repetition /
    mapping parents, with the name mapped by an enclosing mapping; instantiated with exactly the declared names"""
    out = []
    pool = {'a': 0.25, 'n': 2, 'm': 3, 'k': 2, 'c': 1}
    ranges = {'stop': ['0', 'n', '1'], 'start': ['n', 'm', '1'], 'step': ['0', 'm', 'n'], 'expr': ['0', '2*n - 1', '1'],
              'all': ['n - 2', 'n + 1', 'n - 1']}
    for rname, r in ranges.items():
        loop = {'k': 'for', 'body': _atom(val='a + n'), 'idx': 'n', 'range': list(r), 'meas': [], 'cons': []}
        parents = {
            'plain': loop,
            'seq': {'k': 'seq', 'subs': [loop, _atom()], 'meas': [], 'cons': []},
            'rep': {'k': 'rep', 'body': loop, 'count': 'c', 'meas': [], 'cons': []},
            'map-other': {'k': 'map', 'body': loop, 'pm': [['a', 'a']], 'mm': None, 'cm': None, 'cons': []},
            'map-index': {'k': 'map', 'body': loop, 'pm': [['n', 'k']], 'mm': None, 'cm': None, 'cons': []},
            'for': {'k': 'for', 'body': {'k': 'seq', 'subs': [loop, _atom(val='a + j')], 'meas': [], 'cons': []},
                    'idx': 'j', 'range': ['0', '2', '1'], 'meas': [], 'cons': []},
            'cons': dict(loop, cons=['n <= 2']),
        }
        for pname, spec in parents.items():
            out.append({'spec': copy.deepcopy(spec), 'params': {}, 'param_pool': pool, 'cm': {}, 'mm': None,
                        'stream': 'exhaustive', 'label': 'self-range/%s/%s' % (rname, pname)})
    return out


NESTED_BODIES = ('table', 'func', 'seq', 'named-map')
NESTED_INNER = {'rename': [['v', 'x1'], ['d', 'x2']], 'sum': [['v', 'x1 + x2'], ['d', 'x2']], 'identity': None}
NESTED_OUTER = {'chain': [['x1', 'x2'], ['x2', 'c']], 'rchain': [['x2', 'x1'], ['x1', 'c']],
                'swap': [['x1', 'x2'], ['x2', 'x1']], 'expr': [['x1', 'x2 + c'], ['x2', 'c']],
                'plain': [['x1', 'x1'], ['x2', 'x2']]}


def _eval_simple(expr: str, env: Dict[str, F]) -> F:
    return F(eval(expr, {'__builtins__': {}}, dict(env)))      # noqa: S307 -- own literals: names, +, numbers


def iterable_cases() -> List[dict]:
    """every constrainable node kind with its constraints handed over as list / tuple / set / generator expression / `map`
    object / iterator / dict keys view (`Iterable[ConstraintLike]`; the last four can be consumed only once or are no
    sequences), two constraints per node (one over a constraint-only parameter), satisfied on / violated at the boundary;
    once with exactly the declared names, once with all names"""
    out = []
    eighth = F(1, 8)
    pool = {'a': 0.25, 'x': 0.5, 'y': -0.5}
    for kind in CONSTRAINABLE:
        for how in ITERABLE_KINDS:
            for rel, off in (('<=', F(0)), ('<', F(0))):
                cons = ['a <= 0.25', 'x %s %s' % (rel, ptgen.fstr(F(1, 2) + off))]
                node = _node(kind, cons)
                node['cons_as'] = how
                if kind == 'map':
                    node['id'] = 'named'
                label = 'iterable/%s/%s/%s/%s' % (kind, how, rel, off)
                out.append({'spec': node, 'params': {}, 'param_pool': pool, 'cm': {}, 'mm': None, 'stream': 'exhaustive',
                            'label': label + '/declared'})
                out.append({'spec': copy.deepcopy(node), 'params': {'a': 0.25, 'x': 0.5}, 'cm': {}, 'mm': None,
                            'stream': 'exhaustive', 'label': label + '/all'})
    return out


def helper_cases() -> List[dict]:
    """constrained nodes handed to the helper constructors (the Lean side sees the explicit nesting): a RepetitionPT with
    constraints -- plain (the helper folds the counts into one template), with identifier, with measurements -- repeated
    through `with_repetition(2)`, `** 2`, `with_repetition('k')`, twice in a row; constrained sequence / mapping / iteration /
    table below `@`, `concatenate`, `with_mapping`, `with_iteration`, `with_parallel_channels` (twice), `with_time_reversal`
    (twice).  Constraint over a constraint-only parameter `x` or over the count `n`, satisfied on / violated at the boundary;
    once with exactly the names the implementation declares, once with all names given."""
    out = []
    eighth = F(1, 8)
    pool = {'a': 0.25, 'n': 2, 'k': 2, 'x': 0.5, 'j': 5}
    pairs = [('<=', F(0)), ('<=', -eighth), ('<', F(0)), ('<', eighth)]

    def atom():
        return {'k': 'func', 'ch': 'A', 'dur': '1', 'expr': 'a', 'meas': [], 'cons': []}

    def via(node, how):
        return dict(node, via=how, meas=[], cons=[]) if node['k'] not in ('par', 'rev', 'map') else dict(node, via=how)
    shapes: List[Tuple[str, Any]] = []
    for flavour in ('plain', 'id', 'meas'):
        def inner(con, flavour=flavour):
            r = {'k': 'rep', 'body': atom(), 'count': 'n', 'meas': [], 'cons': [con]}
            if flavour == 'id':
                r['id'] = 'named'
            if flavour == 'meas':
                r['meas'] = [['M', '0', '1']]
            return r
        for cname, chain in (('wr2', [('with_repetition', '2')]), ('pow2', [('pow', '2')]), ('wrk', [('with_repetition', 'k')]),
                             ('wrk-wr3', [('with_repetition', 'k'), ('with_repetition', '3')]),
                             ('pow2-powk', [('pow', '2'), ('pow', 'k')])):
            def make(con, inner=inner, chain=chain):
                x = inner(con)
                for how, cnt in chain:
                    x = via({'k': 'rep', 'body': x, 'count': cnt}, how)
                return x
            shapes.append(('rep-%s/%s' % (flavour, cname), make))

    def seq(con):
        return {'k': 'seq', 'subs': [atom()], 'meas': [], 'cons': [con]}
    shapes.append(('seq/matmul', lambda con: via({'k': 'seq', 'subs': [seq(con), atom()]}, 'matmul')))
    shapes.append(('seq/rmatmul', lambda con: via({'k': 'seq', 'subs': [atom(), seq(con)]}, 'matmul')))
    shapes.append(('seq/concatenate', lambda con: via({'k': 'seq', 'subs': [seq(con), seq(con), atom()]}, 'concatenate')))
    shapes.append(('map/with_mapping', lambda con: via({'k': 'map', 'body': {'k': 'map', 'body': atom(), 'pm': [['a', 'a']], 'mm': None,
                                                                               'cm': None, 'cons': [con]},
                                                         'pm': [['a', 'a']], 'mm': None, 'cm': None}, 'with_mapping')))
    shapes.append(('for/with_iteration', lambda con: via({'k': 'for', 'body': {'k': 'rep', 'body': dict(atom(), expr='a + i'), 'count': 'n',
                                                                                 'meas': [], 'cons': [con]},
                                                           'idx': 'i', 'range': ['0', '2', '1']}, 'with_iteration')))
    tab = lambda con: {'k': 'table', 'entries': [['A', [['0', 'a', 'hold'], ['1', 'a', 'hold']]]], 'meas': [], 'cons': [con]}  # noqa
    shapes.append(('par/twice', lambda con: via({'k': 'par', 'body': via({'k': 'par', 'body': tab(con), 'over': [['B', '0.5']]},
                                                                         'with_parallel_channels'), 'over': [['B', 'a']]},
                                                'with_parallel_channels')))
    shapes.append(('rev/twice', lambda con: via({'k': 'rev', 'body': via({'k': 'rev', 'body': tab(con)}, 'with_time_reversal')},
                                                'with_time_reversal')))
    for sname, make in shapes:
        for var, val in (('x', F(1, 2)), ('n', F(2))):
            for rel, off in pairs:
                con = '%s %s %s' % (var, rel, ptgen.fstr(val + off))
                spec = make(con)
                label = 'helper/%s/%s/%s/%s' % (sname, var, rel, off)
                if sname.startswith('rep-'):
                    out.append({'spec': spec, 'params': {}, 'param_pool': pool, 'cm': {}, 'mm': None, 'stream': 'exhaustive',
                                'label': label + '/declared'})
                out.append({'spec': copy.deepcopy(spec), 'params': {k: v for k, v in pool.items() if k != 'j'}, 'cm': {}, 'mm': None,
                            'stream': 'exhaustive', 'label': label + '/all'})
    return out


def index_remap_cases() -> List[dict]:
    """`ForLoopPT(idx i)` -> `MappingPT({i: f(i)})` (a mapped name EQUAL to the loop index) -> repetition / sequence levels
    -> a node that constrains (and plays) `i`: it sees f(i).  Controls: identity mapping, the mapping of another name,
    no level in between.  Constraint `i REL K` on the leaf / on a sequence around it / on the repetition itself with K
    below / on / above the extreme value over the iterations (range(0, n), n = 3); judged by Lean."""
    out = []
    eighth = F(1, 8)
    maps = {'plus10': ('i', 'i + 10', lambda i: i + 10), 'identity': ('i', 'i', lambda i: i),
            'other': ('a', '2*i + 1', lambda i: 2 * i + 1)}
    levels = ('none', 'rep2', 'repn', 'seq-rep', 'rep-seq', 'rep-rep')
    pairs = [('<=', -eighth), ('<=', F(0)), ('<', F(0)), ('<', eighth), ('>=', F(0)), ('>=', eighth), ('>', F(0)), ('>', -eighth)]
    for mname, (var, expr, f) in maps.items():
        vals = [F(f(i)) for i in range(3)]
        for lname in levels:
            for where in ('leaf', 'seq', 'rep'):
                if where == 'rep' and lname in ('none',):
                    continue
                for rel, off in pairs:
                    ref = max(vals) if rel in ('<=', '<') else min(vals)
                    for _once in (0,):
                        con = ['%s %s %s' % (var, rel, ptgen.fstr(ref + off))]
                        leaf = {'k': 'table', 'entries': [['A', [['0', var, 'hold'], ['1', var, 'hold']]]], 'meas': [],
                                'cons': con if where == 'leaf' else []}
                        x = {'k': 'seq', 'subs': [leaf], 'meas': [], 'cons': con} if where == 'seq' else leaf
                        rc = con if where == 'rep' else []

                        def rep(b, c, cons=()):
                            return {'k': 'rep', 'body': b, 'count': c, 'meas': [], 'cons': list(cons)}
                        if lname == 'rep1':
                            x = rep(x, '1', rc)
                        elif lname == 'rep2':
                            x = rep(x, '2', rc)
                        elif lname == 'repn':
                            x = rep(x, 'k', rc)
                        elif lname == 'seq-rep':
                            x = {'k': 'seq', 'subs': [rep(x, '2', rc)], 'meas': [], 'cons': []}
                        elif lname == 'rep-seq':
                            x = rep({'k': 'seq', 'subs': [x], 'meas': [], 'cons': []}, '2', rc)
                        elif lname == 'rep-rep':
                            x = rep(rep(x, '2', rc), '2')
                        m = {'k': 'map', 'body': x, 'pm': [[var, expr]], 'mm': None, 'cm': None, 'cons': []}
                        spec = {'k': 'for', 'body': m, 'idx': 'i', 'range': ['0', 'n', '1'], 'meas': [], 'cons': []}
                        out.append({'spec': spec, 'params': {}, 'param_pool': {'n': 3, 'k': 2, 'a': 0.5, 'i': 7}, 'cm': {},
                                    'mm': None, 'stream': 'exhaustive',
                                    'label': 'index-remap/%s/%s/%s/%s/%s' % (mname, lname, where, rel, off)})
    return out


def nested_map_cases() -> List[dict]:
    """two DIRECTLY nested mappings, composed by the user: an anonymous, constraint free inner mapping (the constructor
    merges it into the outer one) below an outer mapping that is a rename chain (both orders), a swap, a chain with
    expressions or plain; the node below (4 kinds) carries the constraint `2*v + d REL K` with K below / on / above
    the value the SIMULTANEOUS composition gives (computed here layer by layer, judged by Lean on the composed tree).
    Assignments: exactly the names the implementation declares; plus values for the inner names; minus one name."""
    out = []
    eighth = F(1, 8)
    pool_f = {'a': F(1, 2), 'b': F(3, 2), 'c': F(5, 2), 'v': F(1, 4), 'd': F(1)}
    for bname in NESTED_BODIES:
        for iname, ipm in NESTED_INNER.items():
            x1, x2 = ('v', 'd') if ipm is None else ('a', 'b')
            ren = lambda t: t.replace('x1', x1).replace('x2', x2)      # noqa: E731
            inner_pm = [['v', 'v'], ['d', 'd']] if ipm is None else [[k, ren(e)] for k, e in ipm]
            for oname, opm in NESTED_OUTER.items():
                outer_pm = [[ren(k), ren(e)] for k, e in opm]
                env1 = dict(pool_f)
                env1.update({k: _eval_simple(e, pool_f) for k, e in outer_pm})
                env2 = dict(env1)
                env2.update({k: _eval_simple(e, env1) for k, e in inner_pm})
                val = 2 * env2['v'] + env2['d']
                truly_declared = sorted({n for _k, e in outer_pm for n in pool_f if n in e.replace(' ', '').split('+')})

                def make(cons):
                    if bname == 'seq':
                        body = {'k': 'seq', 'subs': [{'k': 'func', 'ch': 'A', 'dur': 'd', 'expr': 'v', 'meas': [], 'cons': []}],
                                'meas': [], 'cons': cons}
                    elif bname == 'named-map':
                        body = {'k': 'map', 'id': 'named', 'pm': [['v', 'v'], ['d', 'd']], 'mm': None, 'cm': None, 'cons': cons,
                                'body': {'k': 'func', 'ch': 'A', 'dur': 'd', 'expr': 'v', 'meas': [], 'cons': []}}
                    elif bname == 'func':
                        body = {'k': 'func', 'ch': 'A', 'dur': 'd', 'expr': 'v', 'meas': [], 'cons': cons}
                    elif bname == 'table':
                        body = {'k': 'table', 'entries': [['A', [['0', 'v', 'hold'], ['d', 'v', 'hold']]]], 'meas': [], 'cons': cons}
                    else:
                        body = {'k': 'point', 'chans': ['A'], 'entries': [['0', 'v', 'hold'], ['d', 'v', 'hold']], 'meas': [],
                                'cons': cons}
                    inner = {'k': 'map', 'body': body, 'pm': inner_pm, 'mm': None, 'cm': None, 'cons': []}
                    return {'k': 'map', 'body': inner, 'pm': outer_pm, 'mm': None, 'cm': None, 'cons': []}
                pool = {k: fnum(v) for k, v in pool_f.items()}
                label = 'nested-map/%s/%s/%s' % (bname, iname, oname)
                for rel in ('<', '<=', '=='):
                    for off in (-eighth, F(0), eighth):
                        con = '2*v + d %s %s' % (rel, ptgen.fstr(val + off))
                        out.append({'spec': make([con]), 'params': {}, 'param_pool': pool, 'cm': {}, 'mm': None,
                                    'stream': 'exhaustive', 'label': '%s/%s/%s' % (label, rel, off)})
                sat = ['2*v + d <= %s' % ptgen.fstr(val)]
                out.append({'spec': make(sat), 'params': {}, 'param_pool': pool, 'extra_pool': {k: v + 3 for k, v in pool.items()},
                            'cm': {}, 'mm': None, 'stream': 'extra', 'label': label + '/extra', 'observe': True})
                for n in truly_declared:
                    out.append({'spec': make(sat), 'params': {}, 'param_pool': {k: v for k, v in pool.items() if k != n},
                                'cm': {}, 'mm': None, 'stream': 'missing', 'removed': n, 'label': label + '/missing-' + n})
    return out


# ------------------------------------------------------------------------------------------------
# array valued parameters with constraints on the array as a whole (implementation + harness-side judge: the Lean
# expression model has scalars only)
# ------------------------------------------------------------------------------------------------

ARRAY_KINDS = ('point', 'table', 'for', 'rep', 'seq', 'map', 'amulti', 'for-in-map')
ARRAY_FORMS = ('arr < K', 'arr <= K', 'arr >= K', 'arr > K', 'Abs(arr) <= K', 'arr + x <= K', '2*arr < K', 'K > arr')


def array_recipe(rng) -> dict:
    kind = rng.choice(ARRAY_KINDS)
    n = 2 if kind == 'point' else rng.choice([2, 3, 3, 4])
    arr = [F(rng.randrange(-12, 13), 8) for _ in range(n)]
    return {'kind': kind, 'form': rng.choice(ARRAY_FORMS), 'arr': [str(a) for a in arr], 'off': rng.choice(['-1/8', '0', '0', '1/8']),
            'x': str(F(rng.randrange(-8, 9), 8)), 'as': rng.choice(['ndarray', 'ndarray', 'list', 'tuple']),
            'extra': rng.random() < 0.3}


def array_expected(rc: dict) -> Tuple[str, bool]:
    """(constraint text, does EVERY element satisfy it) -- a constraint over an array holds iff it holds element-wise
    for all elements (`ParameterConstraint.is_fulfilled` is `numpy.all(..)`)"""
    arr = [F(a) for a in rc['arr']]
    x, off, form = F(rc['x']), F(rc['off']), rc['form']
    lhs = {'arr < K': arr, 'arr <= K': arr, 'arr >= K': arr, 'arr > K': arr, 'Abs(arr) <= K': [abs(a) for a in arr],
           'arr + x <= K': [a + x for a in arr], '2*arr < K': [2 * a for a in arr], 'K > arr': arr}[form]
    lower = form in ('arr >= K', 'arr > K')
    K = (min(lhs) if lower else max(lhs)) + off
    rel = {'arr < K': lambda v: v < K, 'arr <= K': lambda v: v <= K, 'arr >= K': lambda v: v >= K, 'arr > K': lambda v: v > K,
           'Abs(arr) <= K': lambda v: v <= K, 'arr + x <= K': lambda v: v <= K, '2*arr < K': lambda v: v < K,
           'K > arr': lambda v: K > v}[form]
    return form.replace('K', ptgen.fstr(K)), all(rel(v) for v in lhs)


def array_build(rc: dict, con: str):
    """(template, name of the array parameter the user supplies)"""
    import qupulse.pulses as qp
    k = rc['kind']
    step = lambda cons=None: qp.TablePT({'X': [(0, 'arr[i]'), ('d', 'arr[i]')]}, parameter_constraints=cons)  # noqa
    loop = lambda cons=None: qp.ForLoopPT(step(), 'i', 'n', parameter_constraints=cons)  # noqa
    if k == 'point':
        return qp.PointPT([(0, 'v0'), ('d', 'arr', 'linear')], ('X', 'Y'), parameter_constraints=[con]), 'arr'
    if k == 'table':
        return qp.TablePT({'X': [(0, 'arr[0]'), ('d', 'arr[1]')]}, parameter_constraints=[con]), 'arr'
    if k == 'for':
        return loop([con]), 'arr'
    if k == 'rep':
        return qp.RepetitionPT(loop(), 'r', parameter_constraints=[con]), 'arr'
    if k == 'seq':
        return qp.SequencePT(loop(), loop(), parameter_constraints=[con]), 'arr'
    if k == 'map':
        return qp.MappingPT(loop(), parameter_mapping={'arr': 's*raw'}, parameter_constraints=[con.replace('arr', 'raw')],
                            allow_partial_parameter_mapping=True), 'raw'
    if k == 'for-in-map':
        # the constrained node sits BELOW a mapping that produces the array
        return qp.MappingPT(loop([con]), parameter_mapping={'arr': 'raw + 0'}, allow_partial_parameter_mapping=True), 'raw'
    tab = qp.TablePT({'X': [(0, 'arr[0]'), ('d', 'arr[1]')]})
    return qp.AtomicMultiChannelPT(tab, qp.TablePT({'Y': [(0, 0), ('d', 1)]}), parameter_constraints=[con]), 'arr'


def array_check(rc: dict) -> List[str]:
    import numpy as np
    con, sat = array_expected(rc)
    pt, name = array_build(rc, con)
    vals = [float(F(a)) for a in rc['arr']]
    arr = np.array(vals) if rc['as'] == 'ndarray' else (list(vals) if rc['as'] == 'list' else tuple(vals))
    pool = {name: arr, 'x': float(F(rc['x'])), 'd': 2, 'n': len(vals), 'r': 2, 's': 1, 'v0': 0.25}
    declared = set(pt.parameter_names)
    out = []
    if not declared <= set(pool):
        return ['parameter_names %s contains names the template never uses' % sorted(declared)]
    if name not in declared:
        out.append('the array parameter %s of the constraint %s is not in parameter_names %s' % (name, con, sorted(declared)))
    params = {k: v for k, v in pool.items() if k in declared or k == name}
    if rc['extra']:
        params['unused'] = np.array([5., 6.])
    try:
        prog = pt.create_program(parameters=params)
        res = 'a program' if prog is not None else 'nothing'
    except Exception as exc:  # noqa
        cls = core.classify_exception(exc)
        res = 'ParameterConstraintViolation' if cls == 'constraint_violation' else 'error %s (%s)' % (cls, str(exc)[:80])
    want = 'a program' if sat else 'ParameterConstraintViolation'
    if res != want:
        out.append('instantiation gives %s although %s element of %s = %s satisfies the constraint %s'
                   % (res, 'every' if sat else 'not every', name, vals, con.replace('arr', name)))
    return out


def array_report(ctx, rc: dict, count=True) -> bool:
    import warnings
    warnings.filterwarnings('ignore')
    fs = array_check(rc)
    if count:
        ctx.case('array:' + repr(sorted(rc.items())), nontrivial=True)
        ctx.count('array-stream')
        ctx.count('array:kind=' + rc['kind'])
    if fs:
        ctx.violation('array valued parameter: %s [%s template, values given as %s]' % (fs[0], rc['kind'], rc['as']),
                      {'kind': 'c03-array', 'recipe': rc})
        return False
    return True


def array_stream(ctx, n: int):
    rng = ctx.fork('arrays')
    bad = 0
    for _ in range(n):
        if not array_report(ctx, array_recipe(rng)):
            bad += 1
    ctx.disagreements += bad


# ------------------------------------------------------------------------------------------------
# known findings
# ------------------------------------------------------------------------------------------------

def replay_known(ctx: core.Ctx):
    for kf in ctx.findings.for_property(PID):
        w = kf.get('witness')
        if not w:
            continue
        case = dict(w, stream='known-finding')
        recs = evaluate_given([case])
        for r in recs:
            viols, _diffs, known = assess(ctx, r, count=False)
            if known:
                ctx.known_finding(kf['finding'], '%s: %s' % (kf.get('what', '')[:120], known[0]['what']))
            elif viols:
                ctx.violation('known-finding witness violates outside the recorded class: %s' % viols[0]['what'],
                              replay_record(r))
            else:
                ctx.count('known-finding-witness-no-longer-fails:' + kf['finding'])


# ------------------------------------------------------------------------------------------------
# run / replay
# ------------------------------------------------------------------------------------------------

def run(ctx: core.Ctx):
    ctx.rule = ('random template trees over all 13 node kinds from the shared generator (real qupulse classes, depth <= 4 '
                'quick / <= 5 thorough), decorated with 0-3 constraints (<, <=, ==) per constrainable node (table, point, '
                'function, sequence, repetition, iteration, mapping, atomic multi channel) over visible parameters, loop '
                'indices, mapped names and constraint-only parameters; constants placed on the boundary of the values the '
                'Lean enumeration reports; five assignment streams per tree (exactly the declared names satisfying all; one '
                'visible constraint violated; one constraint of a node that is not visited violated; extra names incl. inner '
                'mapping names, loop indices and the reserved t; one declared name removed); 30 % of the trees are wrapped in a '
                'pair of directly nested mappings (anonymous constraint free inner mapping that the constructor merges, outer '
                'mapping a rename chain / swap / cycle over mapped names) which the Lean side sees as composed; below 35 % of '
                'the iterations a mapping that re-defines the loop index name in terms of itself, followed by repetition / '
                'sequence levels; 30 % of the undecorated composite nodes are built through the helper constructors '
                '(with_repetition / **, concatenate / @, with_mapping, with_iteration, with_parallel_channels, with_time_reversal) and '
                '35 % of the repetitions are repeated once more through with_repetition / ** (Lean sees the explicit nesting); 40 % of '
                'the constrained nodes get their constraints as tuple / set / generator / map object / iterator / dict keys view; array '
                'stream (implementation + harness-side judge "all elements", no Lean line): 8 node kinds with a constraint on an '
                'array valued parameter as a whole (8 relation forms, constant below / on / above the extreme element, values as '
                'ndarray / list / tuple); plus the '
                'exhaustive space below. '
                'Non-trivial = at least one constraint is visible and the tree has more than one node; distinct by request line')
    ctx.assumptions = [
        'IEEE-754 arithmetic is exact on the generated dyadic numbers, so constraints on the boundary compare exactly',
        'sympy parses and evaluates the generated rational relations according to their mathematical meaning',
        '"played" is read as "visited by instantiation": every node that is not below a repetition with count <= 0 or an '
        'iteration over an empty range (the code validates a node before it knows whether it produces a waveform)',
    ]
    for crec in ctx.corpus():
        replay(ctx, crec, from_corpus=True)
        ctx.corpus_replayed += 1
    # exhaustive
    ex = exhaustive_cases()
    ctx.exhaustive_spaces.append('8 constrainable node kinds x 6 contexts (plain, below a renaming mapping, below an iteration '
                                 'using the index, below repetition 0 / 2, inside an atomic template) x 3 relations x constant '
                                 'below / on / above the boundary, plus iterations whose range names the '
                                 'loop\'s own index (5 range shapes x 7 parents), plus directly nested mappings composed by '
                                 'the user (anonymous constraint free inner mapping: rename / sum / identity; outer mapping: '
                                 'rename chain in both orders / swap / chain with expressions / plain; 4 node kinds below '
                                 'carrying a constraint below / on / above the boundary in 3 relations; exactly the declared '
                                 'names, extra inner names, one name missing), plus iteration -> mapping of the loop index name '
                                 '(i -> i + 10 / identity / another name) -> 6 repetition / sequence levels -> constraint on the '
                                 'leaf / a sequence / the repetition, 8 relation-constant pairs on the boundary, plus constrained nodes '
                                 'handed to the helper constructors (a constrained RepetitionPT plain / named / with measurements '
                                 'repeated through with_repetition / ** in 5 chains; constrained sequence / mapping / iteration / '
                                 'table below @, concatenate, with_mapping, with_iteration, with_parallel_channels, '
                                 'with_time_reversal) with the Lean side on the explicit nesting, plus every constrainable node kind with its '
                                 'constraints given as list / tuple / set / generator / map object / iterator / dict keys: %d cases' % len(ex))
    recs = [r for r in _pool_map(ctx, evaluate_case, ex) if r is not None]
    # random trees: phase A (draw + probe), phase B (streams)
    depth = 4 if ctx.quick else 5
    base = ctx.fork('trees').getrandbits(40)
    n_trees = ctx.n(300, 5000)
    descs = [{'seed': base + i, 'depth': depth if i % 3 else max(2, depth - 1)} for i in range(n_trees)]
    trees = [t for t in _pool_map(ctx, phase_a, descs) if t is not None]
    for t, a in zip(trees, core.Lean.run([t['probe'] for t in trees])):
        learn_values(t, parse_reply(a))
        del t['probe']
    ctx.count('trees', len(trees))
    ctx.count('constraints-generated', sum(len(t['recs']) for t in trees))
    ctx.count('constraints-not-evaluable-dropped', sum(1 for t in trees for r in t['recs'] if r['bad']))
    ctx.count('constraints-never-visited', sum(1 for t in trees for r in t['recs'] if not r['bad'] and r['visits'] == 0))
    ctx.count('constraints-visited-more-than-once', sum(1 for t in trees for r in t['recs'] if r['visits'] > 1))
    stream_lists = _pool_map(ctx, _streams_safe, [{'tree': t} for t in trees])
    cases = [c for l in stream_lists for c in l]
    recs += [r for r in _pool_map(ctx, evaluate_case, cases, chunk=8) if r is not None]
    for r, a in zip(recs, core.Lean.run([r['line'] for r in recs])):
        r['reply'] = parse_reply(a)
    for r in recs:
        viols, diffs, known = assess(ctx, r)
        if viols or diffs or known:
            ctx.disagreements += 1 if viols else 0
            report(ctx, r, viols, diffs, known)
    array_stream(ctx, ctx.n(200, 4000))
    replay_known(ctx)


def _streams_safe(desc):
    import warnings
    warnings.filterwarnings('ignore')
    core.ensure_repo_on_path()
    try:
        return make_streams(desc)
    except core.MachineryError:
        raise
    except Exception:  # noqa -- e.g. the finalised tree is rejected by a constructor
        return []


def replay(ctx: core.Ctx, rec: dict, from_corpus: bool = False) -> bool:
    if rec.get('kind') == 'c03-array':
        return array_report(ctx, rec['recipe'], count=from_corpus)
    case = rec.get('case')
    if case is None:
        return True
    case = dict(case, stream=rec.get('stream', case.get('stream', 'replay')))
    if rec.get('expect_cancelled') is not None:
        # regression of the harness' own composition of merged mappings (see `cancelled_names`)
        try:
            got = cancelled_names(case['spec'], sorted(build_impl(case['spec']).parameter_names))
        except Exception as exc:  # noqa
            got = 'error: %s' % type(exc).__name__
        if got != rec['expect_cancelled']:
            ctx.drift('names that cancel in a merged mapping (harness composition)', case, got, rec['expect_cancelled'])
    recs = evaluate_given([case])
    ok = True
    for r in recs:
        viols, diffs, known = assess(ctx, r, count=from_corpus)
        if known:
            ctx.known_finding('PF-14', known[0]['what'])
        if viols:
            ctx.violation('%s [%s]' % (viols[0]['what'], summary(r)), replay_record(r, {'clause': viols[0]['clause']}))
            ok = False
        elif diffs and not known:
            ctx.drift('replayed case: model and implementation differ', r['case'], diffs[:3], 'see model')
    return ok
