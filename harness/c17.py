"""C17 — the increment-command program plays the same voltage staircase.

Random / enumerated templates of `ConstantPT` holds whose voltages are affine in loop indices, nested in
`ForLoopPT` / `RepetitionPT` / `SequencePT` / `MappingPT` / scalar `ArithmeticPT`, are
  * compiled with the REAL `LinSpaceBuilder`, translated with the REAL `to_increment_commands` and executed by
    the REAL `LinSpaceVM`  ->  history, final time;
  * compiled with the DEFAULT builder and unrolled into (start time, voltages) steps  ->  reference staircase;
  * sent (the LinSpace AST the real builder produced) to the Lean model `QP.C17` (translate + VM + `unrollStairs`).
Correspondence: real history == model history (exact on the dyadic stream), same error class otherwise.
Judge (Lean `judgeStairs`, proved twin of `StairsMatch`): real history vs default staircase within the documented
increment resolution 1e-9 (tolerance 0 on the dyadic stream), equal total duration; `unrollStairs` of the AST vs
the default staircase ties the Lean-side spec to the default program.  Hardware scaling: the real
`ProgramEntry._transform_linspace_commands` vs `QP.C17.scale`, executed voltages vs `affineHist`.
"""
from __future__ import annotations

import copy
import fractions
import itertools
import json
import signal

import core
from core import sx, as_frac, to_frac

F = fractions.Fraction
RES = F(1, 10 ** 9)            # DEFAULT_INCREMENT_RESOLUTION as the model's rational
TOL_GENERAL = F(1, 10 ** 9)    # "within the documented increment resolution"
CHANNEL_NAMES = ('a', 'b', 'c')


# ---------------------------------------------------------------------------------------------
# template specs (plain JSON-able data) and their qupulse rendering
# ---------------------------------------------------------------------------------------------
# const  := [float-repr-string, style]      style: 'f' float literal, 'i' int literal, 'pf'/'pi' parameter (float/int)
# affine := {'base': const, 'coef': [[name, const], ...]}          name: loop index or mapped parameter
# spec   := {'t':'hold','dur':str,'v':{ch: affine}} | {'t':'for','idx':n,'rng':[a,b,s],'body':spec}
#         | {'t':'rep','n':k,'body':spec} | {'t':'seq','ch':[spec,...]}
#         | {'t':'map','pm':{pname: affine},'body':spec} | {'t':'arith','mul':const|None,'add':const|None,'body':spec}
# case   := {'pt':spec,'channels':[...],'gt':None|['scale'|'offset',{ch:float-repr}],'exact':bool}

def _fval(c):
    return float(c[0])


class _Params:
    """collects the values of 'pf'/'pi' constants as template parameters"""

    def __init__(self):
        self.values = {}

    def name_for(self, c):
        key = (c[0], c[1])
        for n, v in self.values.items():
            if v == key:
                return n
        n = 'k%d' % len(self.values)
        self.values[n] = key
        return n

    def as_parameters(self):
        out = {}
        for n, (s, style) in self.values.items():
            out[n] = int(float(s)) if style == 'pi' else float(s)
        return out


def _const_str(c, params: _Params) -> str:
    s, style = c
    if style == 'f':
        return '(%s)' % repr(float(s))
    if style == 'i':
        return '(%d)' % int(float(s))
    return params.name_for(c)


def _affine_str(aff, params: _Params) -> str:
    terms = [_const_str(aff['base'], params)]
    for name, c in aff['coef']:
        terms.append('%s*%s' % (_const_str(c, params), name))
    return ' + '.join(terms)


def build_pt(spec, params: _Params):
    from qupulse.pulses import ConstantPT, ForLoopPT, RepetitionPT, SequencePT, MappingPT
    t = spec['t']
    if t == 'hold':
        dur = spec['dur']
        dur_arg = int(dur) if '/' not in dur and '.' not in dur else float(F(dur))
        volts = {}
        for ch, aff in spec['v'].items():
            if not aff['coef'] and aff['base'][1] in ('f', 'i'):
                # a plain number is handed over as a python number, the way users write ConstantPT(1, {'a': 2})
                volts[ch] = int(float(aff['base'][0])) if aff['base'][1] == 'i' else float(aff['base'][0])
            else:
                volts[ch] = _affine_str(aff, params)
        return ConstantPT(dur_arg, volts)
    if t == 'for':
        return ForLoopPT(build_pt(spec['body'], params), spec['idx'], tuple(spec['rng']))
    if t == 'rep':
        return RepetitionPT(build_pt(spec['body'], params), spec['n'])
    if t == 'seq':
        return SequencePT(*[build_pt(c, params) for c in spec['ch']])
    if t == 'map':
        body = build_pt(spec['body'], params)
        pm = {p: _affine_str(aff, params) for p, aff in spec['pm'].items()}
        return MappingPT(body, parameter_mapping=pm, allow_partial_parameter_mapping=True)
    if t == 'arith':
        pt = build_pt(spec['body'], params)
        if spec.get('mul') is not None:
            pt = pt * _fval(spec['mul'])
        if spec.get('add') is not None:
            pt = pt + _fval(spec['add'])
        return pt
    raise core.MachineryError('unknown spec node %r' % (t,))


def make_template(case):
    params = _Params()
    pt = build_pt(case['pt'], params)
    kwargs = {'parameters': params.as_parameters()}
    for name, (val, style) in (case.get('extra') or {}).items():
        # extra top-level parameters, in particular ones named like a loop index (the index shadows them)
        kwargs['parameters'][name] = int(float(val)) if style == 'pi' else float(val)
    gt = case.get('gt')
    if gt:
        from qupulse.program.transformation import ScalingTransformation, OffsetTransformation
        cls = ScalingTransformation if gt[0] == 'scale' else OffsetTransformation
        kwargs['global_transformation'] = cls({ch: float(v) for ch, v in gt[1].items()})
    return pt, kwargs


# ---------------------------------------------------------------------------------------------
# the implementation side
# ---------------------------------------------------------------------------------------------

class _Timeout(Exception):
    pass


def _alarm(_sig, _frm):
    raise _Timeout()


def with_time_limit(fn, seconds=20.0):
    old = signal.signal(signal.SIGALRM, _alarm)
    signal.setitimer(signal.ITIMER_REAL, seconds)
    try:
        return fn()
    finally:
        signal.setitimer(signal.ITIMER_REAL, 0)
        signal.signal(signal.SIGALRM, old)


def default_staircase(pt, kwargs, channels):
    """(start time, voltages) steps and total duration of the DEFAULT program of the template"""
    prog = pt.create_program(**kwargs)
    steps = []
    t = F(0)
    if prog is None:
        return steps, t

    def rec(loop):
        nonlocal t
        for _ in range(int(loop.repetition_count)):
            if loop.is_leaf():
                cv = loop.waveform.constant_value_dict()
                if cv is None:
                    raise core.MachineryError('default program contains a non-constant waveform')
                steps.append((t, [to_frac(cv[c]) for c in channels]))
                t += to_frac(loop.waveform.duration)
            else:
                for ch in loop:
                    rec(ch)
    rec(prog)
    return steps, t


def ast_to_sx(nodes):
    """the LinSpace AST the real builder produced, as the model's S-expression (and a JSON-able mirror)"""
    from qupulse.program import linspace as ls
    out = []
    for n in nodes:
        if isinstance(n, ls.LinSpaceHold):
            if n.duration_factors:
                raise core.MachineryError('index dependent duration is outside the generated space')
            facs = []
            for f in n.factors:
                facs.append('none' if f is None else [to_frac(x) for x in f])
            out.append(['hold', [to_frac(b) for b in n.bases], facs, to_frac(n.duration_base)])
        elif isinstance(n, ls.LinSpaceRepeat):
            out.append(['rep', int(n.count)] + ast_to_sx(n.body))
        elif isinstance(n, ls.LinSpaceIter):
            out.append(['iter', int(n.length)] + ast_to_sx(n.body))
        else:
            raise core.MachineryError('unexpected LinSpace node %r' % (type(n).__name__,))
    return out


def cmds_to_sx(cmds):
    from qupulse.program import linspace as ls
    out = []
    for c in cmds:
        if isinstance(c, ls.Set):
            out.append(['set', int(c.channel), to_frac(c.value), [int(k) for k in c.key.factors]])
        elif isinstance(c, ls.Increment):
            out.append(['inc', int(c.channel), to_frac(c.value), [int(k) for k in c.dependency_key.factors]])
        elif isinstance(c, ls.Wait):
            out.append(['wait', to_frac(c.duration)])
        elif isinstance(c, ls.LoopLabel):
            out.append(['label', int(c.idx), int(c.count)])
        elif isinstance(c, ls.LoopJmp):
            out.append(['jmp', int(c.idx)])
        else:
            raise core.MachineryError('unexpected command %r' % (c,))
    return out


def _val(v):
    import math
    if isinstance(v, float) and math.isnan(v):
        return 'nan'
    return to_frac(v)


def run_vm(cmds, nch):
    from qupulse.program.linspace import LinSpaceVM
    vm = LinSpaceVM(nch)
    vm.set_commands(cmds)
    with_time_limit(vm.run)
    hist = [(to_frac(t), [_val(v) for v in vals]) for t, vals in vm.history]
    return hist, to_frac(vm.time)


def impl_linspace(pt, kwargs, channels):
    """returns dict: stage results of the real code. Exceptions are observables (class names)."""
    from qupulse.program.linspace import LinSpaceBuilder, to_increment_commands
    res = {}
    try:
        prog = pt.create_program(program_builder=LinSpaceBuilder(tuple(channels)), **kwargs)
    except Exception as e:  # noqa
        res['build_error'] = (type(e).__name__, str(e)[:200])
        return res
    res['ast'] = list(prog) if prog else []
    try:
        cmds = to_increment_commands(res['ast'])
    except Exception as e:  # noqa
        res['translate_error'] = core.classify_exception(e)
        return res
    res['cmds'] = cmds
    try:
        res['hist'], res['time'] = run_vm(cmds, len(channels))
    except _Timeout:
        res['run_error'] = 'timeout'
    except Exception as e:  # noqa
        res['run_error'] = core.classify_exception(e)
    return res


def impl_scaled(ast, channels, amps, offs):
    """the real ProgramEntry path: translate + `_transform_linspace_commands`, then the real VM"""
    from qupulse.hardware.awgs.base import ProgramEntry, _ProgramType
    from qupulse.utils.types import TimeType
    entry = ProgramEntry(ast, channels=tuple(channels), markers=(), amplitudes=tuple(float(a) for a in amps),
                         offsets=tuple(float(o) for o in offs), voltage_transformations=(None,) * len(channels),
                         sample_rate=TimeType.from_fraction(1, 1), program_type=_ProgramType.Linspace)
    cmds = entry._transformed_commands
    hist, t = run_vm(cmds, len(channels))
    return cmds, hist, t


# ---------------------------------------------------------------------------------------------
# known-finding class predicates, harness side (independent of the code under test)
# ---------------------------------------------------------------------------------------------

def _round_half_even(x: F) -> int:
    import math
    f = math.floor(x)
    d = x - f
    if d < F(1, 2):
        return f
    if d > F(1, 2):
        return f + 1
    return f if f % 2 == 0 else f + 1


def dep_key(fs):
    fs = list(fs)
    while fs and fs[-1] == 0:
        fs.pop()
    return tuple(_round_half_even(v / RES) for v in fs)


def _touches(nodes, out=None, plains=None):
    """(channel, factors) of every indexed hold / channels with a plain hold"""
    out = [] if out is None else out
    plains = [] if plains is None else plains
    for n in nodes:
        if n[0] == 'hold':
            for c, f in enumerate(n[2][:len(n[1])]):
                if f == 'none':
                    plains.append(c)
                else:
                    out.append((c, tuple(f)))
        else:
            _touches(n[2:], out, plains)
    return out, plains


def in_depth_clash(nodes) -> bool:
    g, _ = _touches(nodes)
    return any(p[0] == q[0] and dep_key(p[1]) == dep_key(q[1]) and len(p[1]) != len(q[1]) for p in g for q in g)


def in_zero_key(nodes) -> bool:
    g, pl = _touches(nodes)
    return any(dep_key(p[1]) == () and p[0] in pl for p in g)


def res_collision(nodes) -> bool:
    g, _ = _touches(nodes)
    return any(p[0] == q[0] and dep_key(p[1]) == dep_key(q[1]) and len(p[1]) == len(q[1]) and p[1] != q[1]
               for p in g for q in g)


def in_index_reuse(nodes, depth=0) -> bool:
    """an indexed hold whose factor tuple is not as long as its nesting depth"""
    for n in nodes:
        if n[0] == 'hold':
            if any(f != 'none' and len(f) != depth for f in n[2]):
                return True
        elif in_index_reuse(n[2:], depth + (1 if n[0] == 'iter' else 0)):
            return True
    return False


def _deps(n):
    """node.dependencies() as list of (channel, dep-tuple)"""
    if n[0] == 'hold':
        return [(c, tuple(f)) for c, f in enumerate(n[2]) if f != 'none' and len(f) > 0]
    if n[0] == 'rep':
        return [p for b in n[2:] for p in _deps(b)]
    out = []
    for b in n[2:]:
        ps = _deps(b)
        for (c, d) in ps:
            if any(c2 == c and len(d2[:-1]) > 0 for (c2, d2) in ps):
                out.append((c, d[:-1]))
    return out


def in_pf22(nodes, nch) -> bool:
    """PF-22 class: some repetition node is visited in a translation state for which the emitted loop is wrong
    (see QP.C17.sweep)."""
    st = {'its': [], 'active': {}, 'dep': {}, 'plain': {}, 'flag': False}

    def sweep_list(ns):
        for n in ns:
            sweep(n)

    def sweep(n):
        if n[0] == 'hold':
            for c, (b, f) in enumerate(zip(n[1], n[2])):
                if f == 'none':
                    st['active'][c] = ()
                    st['plain'][c] = b
                else:
                    k = dep_key(f)
                    st['active'][c] = k
                    st['dep'][(c, k)] = (b, tuple(st['its']))
        elif n[0] == 'rep':
            body = n[2:]
            ds = [p for b in body for p in _deps(b)]
            pre = {st['dep'].get((c, dep_key(d))) for c, d in ds}
            before = (dict(st['active']), dict(st['dep']), dict(st['plain']))
            sweep_list(body)
            post = {st['dep'].get((c, dep_key(d))) for c, d in ds}
            hack = pre != post
            if hack:
                bad = n[1] == 1
            else:
                g, _ = _touches(body)
                bad = any((c, dep_key(f)) in before[1] and before[1][(c, dep_key(f))] != st['dep'].get((c, dep_key(f)))
                          for c, f in g)
                bad = bad or any(c in before[0] and before[0][c] != st['active'].get(c) for c in range(nch))
                bad = bad or any(c in before[2] and before[2][c] != st['plain'].get(c) for c in range(nch))
            st['flag'] = st['flag'] or bad
            if hack:
                sweep_list(body)
        else:
            body = n[2:]
            st['its'].append(0)
            sweep_list(body)
            if n[1] > 1:
                st['its'][-1] = n[1] - 1
                sweep_list(body)
            st['its'].pop()
    sweep_list(nodes)
    return st['flag']


# ---------------------------------------------------------------------------------------------
# generators
# ---------------------------------------------------------------------------------------------

def _dy(rng, lo=-16, hi=16, den=8):
    return F(rng.randrange(lo * den, hi * den + 1), den)


def _const(rng, exact, nonzero=False, allow_int=True, allow_param=True):
    while True:
        if exact:
            v = _dy(rng, -4, 4, rng.choice([1, 2, 4, 8]))
        else:
            v = F(rng.choice(['0.01', '0.1', '1e-3', '-3e-3', '0.02', '0.3', '-0.7', '1.1', '2.5', '-1.0', '0.05']))
            v = F(float(v)) * rng.choice([1, 1, 2, 3])
            v = F(float(v))
        if nonzero and v == 0:
            continue
        break
    style = 'f'
    r = rng.random()
    if allow_int and v.denominator == 1 and r < 0.15:
        style = 'i'
    elif allow_param and r < 0.30:
        style = 'pi' if (v.denominator == 1 and rng.random() < 0.3) else 'pf'
    return [repr(float(v)), style]


def _range(rng):
    k = rng.random()
    if k < 0.08:                                   # empty range
        step = rng.choice([1, 2, -1, -3])
        a = rng.randrange(-3, 4)
        b = a - step * rng.randrange(0, 3)
        return [a, b, step]
    n = rng.choice([1, 1, 2, 2, 3, 3, 4, 5]) if k < 0.9 else rng.randrange(6, 12)
    step = rng.choice([1, 1, 1, 2, 3, -1, -1, -2, -3])
    a = rng.randrange(-4, 6)
    # stop somewhere inside the last stride so that len(range) == n
    slack = rng.randrange(0, abs(step))
    b = a + step * n - (slack if step > 0 else -slack)
    if len(range(a, b, step)) != n:
        b = a + step * n
    return [a, b, step]


class Gen:
    """random structured templates; every loop index is used by at least one hold below it"""

    def __init__(self, rng, exact=True, nch=None, allow_rep=True, p_int=0.15, zero_coef=0.03):
        self.rng = rng
        self.exact = exact
        self.nch = nch or rng.choice([1, 1, 2, 2, 3])
        self.allow_rep = allow_rep
        self.p_int = p_int
        self.zero_coef = zero_coef
        self.counter = 0
        self.channels = list(CHANNEL_NAMES[:self.nch])
        # small pools so that the same factors / bases recur: registers (DepKeys) are shared between holds, also
        # across nesting depths, and increments of 0 occur
        self.coef_pool = {}
        self.base_pool = [_const(rng, exact, allow_int=False) for _ in range(3)]

    def fresh(self, prefix):
        self.counter += 1
        return '%s%d' % (prefix, self.counter)

    def affine(self, names, must=None):
        rng = self.rng
        coef = []
        for n in names:
            p = 0.9 if n == must else 0.45
            if rng.random() < p or n == must:
                if rng.random() < self.zero_coef:
                    coef.append([n, ['0.0', 'pf']])        # affine with coefficient 0 (a parameter, so sympy keeps it)
                else:
                    pool = self.coef_pool.setdefault(n, [_const(rng, self.exact, nonzero=True, allow_int=rng.random() < 0.5)
                                                         for _ in range(2)])
                    coef.append([n, copy.deepcopy(rng.choice(pool)) if rng.random() < 0.7 else
                                 _const(rng, self.exact, nonzero=True, allow_int=rng.random() < 0.5)])
        if rng.random() < 0.5:
            base = copy.deepcopy(rng.choice(self.base_pool))
        else:
            base = _const(rng, self.exact, allow_int=(rng.random() < self.p_int or bool(coef)))
        return {'base': base, 'coef': coef}

    def hold(self, names, must=None):
        rng = self.rng
        v = {}
        must_ch = rng.choice(self.channels) if must else None
        for ch in self.channels:
            if rng.random() < 0.25 and ch != must_ch:
                v[ch] = {'base': _const(rng, self.exact, allow_int=rng.random() < self.p_int, allow_param=False), 'coef': []}
            else:
                v[ch] = self.affine(names, must if ch == must_ch else None)
        dur = rng.choice(['1', '1', '2', '3', '1/2', '3/2', '5/4', '10'])
        return {'t': 'hold', 'dur': dur, 'v': v}

    def node(self, names, depth, must=None):
        """a spec in which `must` (a loop index / mapped parameter name) is used"""
        rng = self.rng
        r = rng.random()
        if depth <= 0 or r < 0.30:
            return self.hold(names, must)
        if r < 0.55:
            idx = self.fresh('i')
            body = self.node(names + [idx], depth - 1, must=idx)
            node = {'t': 'for', 'idx': idx, 'rng': _range(rng), 'body': body}
            if must is not None and not self.uses(body, must):
                node = {'t': 'seq', 'ch': [node, self.hold(names, must)] if rng.random() < 0.5 else
                        [self.hold(names, must), node]}
            return node
        if r < 0.70 and self.allow_rep:
            return {'t': 'rep', 'n': rng.choice([0, 1, 1, 2, 2, 3]), 'body': self.node(names, depth - 1, must)}
        if r < 0.90:
            k = rng.choice([2, 2, 3])
            which = rng.randrange(k)
            return {'t': 'seq', 'ch': [self.node(names, depth - 1, must if j == which else None) for j in range(k)]}
        if r < 0.96 and names:
            p = self.fresh('p')
            aff = self.affine(names, must)
            body = self.node([n for n in names if n != must] + [p] if must else names + [p], depth - 1, must=p)
            return {'t': 'map', 'pm': {p: aff}, 'body': body}
        return {'t': 'arith', 'mul': _const(rng, self.exact, nonzero=True, allow_int=False, allow_param=False) if rng.random() < 0.7 else None,
                'add': _const(rng, self.exact, allow_int=False, allow_param=False) if rng.random() < 0.6 else None,
                'body': self.node(names, depth - 1, must)}

    @staticmethod
    def uses(spec, name) -> bool:
        t = spec['t']
        if t == 'hold':
            return any(n == name for aff in spec['v'].values() for n, _ in aff['coef'])
        if t == 'seq':
            return any(Gen.uses(c, name) for c in spec['ch'])
        if t == 'map':
            return any(n == name for aff in spec['pm'].values() for n, _ in aff['coef']) or Gen.uses(spec['body'], name)
        return Gen.uses(spec['body'], name)

    def case(self, depth=None):
        rng = self.rng
        depth = depth if depth is not None else rng.choice([1, 2, 2, 3, 3, 4])
        pt = self.node([], depth)
        chans = list(self.channels)
        rng.shuffle(chans)
        gt = None
        if rng.random() < 0.12:
            kind = rng.choice(['scale', 'offset'])
            gt = [kind, {ch: repr(float(rng.choice([F(1, 2), F(2), F(-1), F(3, 2), F(1, 4)]))) for ch in self.channels}]
        return {'pt': pt, 'channels': chans, 'gt': gt, 'exact': self.exact}


def gen_rep_safe(rng):
    """repetitions whose body leaves the translation state as it found it (outside the PF-22 class although a
    repetition sits inside a dependent iteration): the body's holds repeat the hold in front of it"""
    g = Gen(rng, exact=True, allow_rep=False, p_int=0.0, zero_coef=0.0)
    names = []
    loops = []
    for _ in range(rng.choice([0, 1, 1, 2])):
        idx = g.fresh('i')
        names.append(idx)
        loops.append((idx, _range(rng)))
    h = g.hold(names, names[-1] if names else None)
    for must in names:
        # every index used
        if not Gen.uses(h, must):
            h['v'][g.channels[0]]['coef'].append([must, ['0.5', 'f']])
    h2 = copy.deepcopy(h)
    h2['dur'] = rng.choice(['1', '2', '1/2'])
    body = {'t': 'seq', 'ch': [h, {'t': 'rep', 'n': rng.choice([1, 2, 3]), 'body': h2}]}
    if rng.random() < 0.5:
        body['ch'].append(g.hold(names, None))
    for idx, r in reversed(loops):
        body = {'t': 'for', 'idx': idx, 'rng': r, 'body': body}
    if rng.random() < 0.5:
        body = {'t': 'rep', 'n': rng.choice([1, 2, 3]), 'body': body}      # top-level repetition of a whole scan
    chans = list(g.channels)
    rng.shuffle(chans)
    return {'pt': body, 'channels': chans, 'gt': None, 'exact': True}


def gen_shared(rng):
    """sibling inner iterations whose holds share registers (same factors, different bases), holds that depend
    only on the outer index inside inner loops (shared across siblings; together with a depth-1 hold of the same
    factor this is the depth-clash class), one or two channels"""
    nch = rng.choice([1, 2])
    chans = list(CHANNEL_NAMES[:nch])
    ci = repr(float(rng.choice([F(1), F(1, 2), F(-1, 4), F(2)])))
    cj = repr(float(rng.choice([F(1), F(-1, 2), F(1, 8), F(3)])))

    def hold(names_coefs, base=None, dur=None):
        v = {}
        for ch in chans:
            b = _dy(rng, -3, 3, 4) if base is None else base
            coefs = [[n, [c, 'f']] for n, c in names_coefs if rng.random() < 0.85 or ch == chans[0]]
            v[ch] = {'base': [repr(float(b)), 'f'], 'coef': coefs}
        return {'t': 'hold', 'dur': dur or rng.choice(['1', '2', '1/2']), 'v': v}

    body = []
    if rng.random() < 0.3:
        body.append(hold([('i', ci)]))                              # depth-1 hold of the outer factor
    for k in range(rng.choice([1, 2, 2, 3])):
        idx = 'j%d' % k
        inner = [hold([('i', ci), (idx, cj)])]
        if rng.random() < 0.5:
            inner.append(hold([('i', ci), (idx, cj)]))
        if rng.random() < 0.35:
            inner.insert(rng.randrange(len(inner) + 1), hold([('i', ci)]))   # outer-only voltage inside the inner loop
        if not any(Gen.uses(h, idx) for h in inner):
            inner.append(hold([('i', ci), (idx, cj)]))
        seq = inner[0] if len(inner) == 1 else {'t': 'seq', 'ch': inner}
        body.append({'t': 'for', 'idx': idx, 'rng': _range(rng), 'body': seq})
        if rng.random() < 0.25:
            body.append(hold([('i', ci)]) if rng.random() < 0.5 else hold([]))
    pt = {'t': 'for', 'idx': 'i', 'rng': _range(rng), 'body': body[0] if len(body) == 1 else {'t': 'seq', 'ch': body}}
    if not Gen.uses(pt['body'], 'i'):
        pt['body'] = {'t': 'seq', 'ch': [pt['body'], hold([('i', ci)])]}
    rng.shuffle(chans)
    return {'pt': pt, 'channels': chans, 'gt': None, 'exact': True}


def _for_names(spec, out=None):
    out = [] if out is None else out
    t = spec['t']
    if t == 'for':
        out.append(spec['idx'])
    if t == 'seq':
        for c in spec['ch']:
            _for_names(c, out)
    elif t != 'hold':
        _for_names(spec['body'], out)
    return out


def _first_hold(spec):
    t = spec['t']
    if t == 'hold':
        return spec
    if t == 'seq':
        return _first_hold(spec['ch'][0])
    return _first_hold(spec['body'])


def _rename(spec, old, new):
    t = spec['t']
    if t == 'hold':
        for aff in spec['v'].values():
            for c in aff['coef']:
                if c[0] == old:
                    c[0] = new
    elif t == 'seq':
        for c in spec['ch']:
            _rename(c, old, new)
    else:
        if t == 'for' and spec['idx'] == old:
            spec['idx'] = new
        if t == 'map':
            for aff in spec['pm'].values():
                for c in aff['coef']:
                    if c[0] == old:
                        c[0] = new
        _rename(spec['body'], old, new)


def _reuse_index(spec, enclosing, rng) -> bool:
    """rename one nested loop's index to the name of an enclosing loop; True if done"""
    t = spec['t']
    if t == 'hold':
        return False
    if t == 'seq':
        order = list(spec['ch'])
        rng.shuffle(order)
        return any(_reuse_index(c, enclosing, rng) for c in order)
    if t == 'for':
        if enclosing and rng.random() < 0.6:
            _rename(spec, spec['idx'], rng.choice(enclosing))
            return True
        return _reuse_index(spec['body'], enclosing + [spec['idx']], rng)
    return _reuse_index(spec['body'], enclosing, rng)


def gen_shadow(rng):
    """scopes that already contain the loop index's name: an extra top-level parameter named like a loop index
    (the index shadows it), optionally used by an OUTER MappingPT expression (`q := a + b*i` with the experiment
    parameter i, around a loop over i). Judged against the default program like every case."""
    g = Gen(rng, exact=True, p_int=0.0, zero_coef=0.0)
    while True:
        case = g.case(depth=rng.choice([1, 2, 2, 3]))
        names = _for_names(case['pt'])
        if names:
            break
    extra = {}
    for n in names:
        if rng.random() < 0.7 or not extra:
            v = _dy(rng, -4, 4, rng.choice([1, 2, 4]))
            extra[n] = [repr(float(v)), 'pi' if (v.denominator == 1 and rng.random() < 0.4) else 'pf']
    case['extra'] = extra
    if rng.random() < 0.25:
        # a nested loop re-using the index name of an enclosing loop (inner index shadows the outer one)
        if _reuse_index(case['pt'], [], rng):
            return case
    if rng.random() < 0.45:
        i = rng.choice(list(extra))
        q = g.fresh('q')
        h = _first_hold(case['pt'])
        ch = rng.choice(sorted(h['v']))
        h['v'][ch]['coef'].append([q, _const(rng, True, nonzero=True, allow_int=False, allow_param=False)])
        aff = {'base': _const(rng, True, allow_int=False, allow_param=False),
               'coef': [[i, _const(rng, True, nonzero=True, allow_int=False, allow_param=False)]]}
        case['pt'] = {'t': 'map', 'pm': {q: aff}, 'body': case['pt']}
    return case


def gen_fine(rng, long_ok=False, length=None):
    """very fine ramps: per-iteration voltage changes of c * 1e-9 (the documented increment resolution) for
    c in {0.3, 0.5, 0.9, 1, 1.1, 2.5}, repeated 3 ... 20000 times, as a 1D ramp, as the slow per-line compensation
    channel of a 2D scan, and as a sub-resolution base difference between two holds of one register. Decimal
    stream: every step is judged |VM - default| <= 1e-9 (per step, not cumulative)."""
    def fl(x):
        return repr(float(x))

    def const(x):
        return [fl(x), 'f']
    c = rng.choice([0.3, 0.5, 0.9, 0.9, 1.0, 1.1, 2.5]) * rng.choice([1, 1, -1])
    slope = c * 1e-9
    n = rng.choice([3, 4, 7, 20, 60, 250]) if not long_ok else (length or rng.choice([2000, 20000]))
    kind = rng.choice(['ramp', 'ramp', 'scan', 'scan', 'basediff'])
    if long_ok:
        kind = 'ramp'
    b0 = rng.choice([0.0, 0.25, -0.5, 0.1])
    if kind == 'ramp':
        pt = {'t': 'for', 'idx': 'i', 'rng': [0, n, 1] if rng.random() < 0.7 else [n, 0, -1],
              'body': {'t': 'hold', 'dur': '1', 'v': {'a': {'base': const(b0), 'coef': [['i', const(slope)]]}}}}
        chans = ['a']
    elif kind == 'scan':
        m = rng.choice([3, 5, 12, 40])
        n = rng.choice([2, 3, 5])
        vb = {'base': const(b0), 'coef': [['j', const(slope)]]}
        if rng.random() < 0.4:
            vb['coef'].append(['i', const(rng.choice([0.3, 0.9, 1.1]) * 1e-9)])
        hold = {'t': 'hold', 'dur': '1', 'v': {'a': {'base': const(-1.0), 'coef': [['i', const(0.01)]]}, 'b': vb}}
        body = {'t': 'for', 'idx': 'i', 'rng': [0, n, 1], 'body': hold}
        if rng.random() < 0.3:
            lead = {'t': 'hold', 'dur': '2', 'v': {'a': {'base': const(0.5), 'coef': []},
                                                   'b': {'base': const(b0), 'coef': [['j', const(slope)]]}}}
            body = {'t': 'seq', 'ch': [lead, body]}
        pt = {'t': 'for', 'idx': 'j', 'rng': [0, m, 1], 'body': body}
        chans = ['a', 'b']
        rng.shuffle(chans)
    else:
        big = rng.choice([0.01, 2e-9, 0.0])
        h1 = {'t': 'hold', 'dur': '1', 'v': {'a': {'base': const(b0), 'coef': [['i', const(big + slope)]]}}}
        h2 = {'t': 'hold', 'dur': '1', 'v': {'a': {'base': const(b0 + rng.choice([0.4e-9, 0.9e-9, -0.7e-9])),
                                                   'coef': [['i', const(big + slope)]]}}}
        pt = {'t': 'for', 'idx': 'i', 'rng': [0, n, 1], 'body': {'t': 'seq', 'ch': [h1, h2]}}
        chans = ['a']
    return {'pt': pt, 'channels': chans, 'gt': None, 'exact': False}


def exhaustive_cases():
    """all wrapper chains of length <= 3 over {for len 1,2,3 (step +1/-2), rep 1,2} around three body shapes, plus the
    sibling shape [hold ; chain(hold)], one channel; indices always used by the innermost hold"""
    wrappers = [('for', [0, 1, 1]), ('for', [1, 3, 1]), ('for', [4, -2, -2]), ('rep', 1), ('rep', 2)]
    out = []
    for k in range(0, 4):
        for chain in itertools.product(wrappers, repeat=k):
            for shape in range(4):
                names = []
                for j, w in enumerate(chain):
                    if w[0] == 'for':
                        names.append('i%d' % j)

                def hold(base, coefs, dur='1'):
                    return {'t': 'hold', 'dur': dur,
                            'v': {'a': {'base': [repr(float(base)), 'f'],
                                        'coef': [[n, [repr(float(c)), 'f']] for n, c in zip(names, coefs)]}}}
                cs = [F(1), F(1, 2), F(-1, 4)][:len(names)]
                if shape == 0:
                    body = hold(F(1, 2), cs)
                elif shape == 1:
                    body = {'t': 'seq', 'ch': [hold(F(1, 2), cs), hold(F(-1), cs, '2')]}
                elif shape == 2:
                    body = {'t': 'seq', 'ch': [hold(F(1, 2), cs), hold(F(3), [])]}
                else:
                    body = {'t': 'seq', 'ch': [hold(F(1, 2), cs), hold(F(2), [F(2) for _ in cs], '1/2')]}
                if shape in (2,) and not names:
                    pass
                spec = body
                for j in reversed(range(len(chain))):
                    w = chain[j]
                    if w[0] == 'for':
                        spec = {'t': 'for', 'idx': 'i%d' % j, 'rng': list(w[1]), 'body': spec}
                    else:
                        spec = {'t': 'rep', 'n': w[1], 'body': spec}
                out.append({'pt': spec, 'channels': ['a'], 'gt': None, 'exact': True})
                if shape == 0 and k >= 1:
                    lead = {'t': 'hold', 'dur': '1', 'v': {'a': {'base': ['0.5', 'f'], 'coef': []}}}
                    out.append({'pt': {'t': 'seq', 'ch': [lead, spec]}, 'channels': ['a'], 'gt': None, 'exact': True})
    return out


def malformed_cases(rng, n):
    """outside the property's quantifier but on the same code path: integer amplitudes (PF-18)"""
    out = []
    for _ in range(n):
        g = Gen(rng, exact=True, p_int=1.0, zero_coef=0.0)
        out.append(g.case(depth=rng.choice([0, 1, 2])))
    return out


# ---------------------------------------------------------------------------------------------
# evaluation of one batch
# ---------------------------------------------------------------------------------------------

def _hist_sx(h):
    return [[t, list(v)] for t, v in h]


def _hist_from(ans):
    return [(as_frac(t), [('nan' if v == 'nan' else as_frac(v)) for v in vals]) for t, vals in ans]


def _cmds_canon(c):
    return sx(c)


def _spec_is_nontrivial(ast_sx) -> bool:
    def rec(ns, in_loop):
        for n in ns:
            if n[0] == 'hold':
                if in_loop and any(f != 'none' and any(x != 0 for x in f) for f in n[2]):
                    return True
            elif n[0] == 'iter':
                if rec(n[2:], in_loop or n[1] > 1):
                    return True
            elif rec(n[2:], in_loop):
                return True
        return False
    return rec(ast_sx, False)


def _count_nodes(ctx, spec):
    ctx.count('node:' + spec['t'])
    if spec['t'] == 'seq':
        for c in spec['ch']:
            _count_nodes(ctx, c)
    elif spec['t'] == 'hold':
        for aff in spec['v'].values():
            for style in [aff['base'][1]] + [c[1] for _, c in aff['coef']]:
                ctx.count('const-style:' + style)
    else:
        if spec['t'] == 'for':
            r = spec['rng']
            ctx.count('range:len=%s,step%s' % (min(len(range(*r)), 6), '>0' if r[2] > 0 else '<0'))
        if spec['t'] == 'rep':
            ctx.count('rep:count=%d' % spec['n'])
        _count_nodes(ctx, spec['body'])


class Outcome:
    """everything observed for one case"""
    __slots__ = ('case', 'line', 'impl', 'default', 'ast_sx', 'classes', 'verdict', 'why', 'model', 'scal')


def evaluate(ctx, cases, family, register=True):
    """run implementation + model + judge on `cases`; returns list of Outcome. Verdicts:
       'ok' | 'known:<finding>' | 'violation' | 'drift' | 'skip'"""
    outs = []
    lines = []
    slots = []       # (outcome index, kind)
    rng = ctx.fork('scaling/' + family)
    for case in cases:
        o = Outcome()
        o.case = case
        o.line = json.dumps(case, sort_keys=True)
        o.verdict, o.why, o.model, o.scal, o.classes, o.ast_sx = 'ok', '', None, None, {}, None
        try:
            pt, kwargs = make_template(case)
            o.default = default_staircase(pt, kwargs, case['channels'])
        except core.MachineryError:
            raise
        except Exception as e:  # noqa
            # the template itself is not instantiable (generator artefact): not a case
            o.verdict, o.why = 'skip', 'template: %s %s' % (type(e).__name__, str(e)[:120])
            o.impl = {}
            outs.append(o)
            continue
        o.impl = impl_linspace(pt, kwargs, case['channels'])
        if 'ast' in o.impl:
            o.ast_sx = ast_to_sx(o.impl['ast'])
            nch = len(case['channels'])
            o.classes = {'pf22': in_pf22(o.ast_sx, nch), 'depth': in_depth_clash(o.ast_sx),
                         'zerokey': in_zero_key(o.ast_sx), 'rescollision': res_collision(o.ast_sx),
                         'indexreuse': in_index_reuse(o.ast_sx)}
            lines.append(sx(['c17', 'run', nch, RES, o.ast_sx]))
            slots.append((len(outs), 'run'))
            if 'hist' in o.impl:
                tol = F(0) if case['exact'] else TOL_GENERAL
                exp = [[t, v] for t, v in o.default[0]]
                lines.append(sx(['c17', 'judge', tol, exp, _hist_sx(o.impl['hist'])]))
                slots.append((len(outs), 'judge'))
                if case['exact'] and rng.random() < 0.5:
                    amps = [rng.choice([F(1, 2), F(1), F(2), F(4), F(-2), F(1, 4)]) for _ in range(nch)]
                    offs = [F(rng.randrange(-8, 9), 4) for _ in range(nch)]
                    try:
                        scmds, shist, stime = impl_scaled(copy.deepcopy(o.impl['ast']), case['channels'], amps, offs)
                        o.scal = {'amps': amps, 'offs': offs, 'cmds': cmds_to_sx(scmds), 'hist': shist, 'time': stime}
                    except Exception as e:  # noqa
                        o.scal = {'amps': amps, 'offs': offs, 'error': core.classify_exception(e)}
                    lines.append(sx(['c17', 'scale', amps, offs, cmds_to_sx(o.impl['cmds'])]))
                    slots.append((len(outs), 'scale'))
                    lines.append(sx(['c17', 'affine', amps, offs, _hist_sx(o.impl['hist'])]))
                    slots.append((len(outs), 'affine'))
        outs.append(o)
    answers = core.Lean.run(lines)
    per = {}
    for (i, kind), ans in zip(slots, answers):
        per.setdefault(i, {})[kind] = ans
    for i, o in enumerate(outs):
        _decide(ctx, o, per.get(i, {}), family)
        if register:
            ctx.case(o.line, nontrivial=bool(o.ast_sx) and _spec_is_nontrivial(o.ast_sx))
            ctx.count('family:' + family)
            ctx.count('verdict:' + o.verdict.split(':')[0])
            if o.verdict != 'skip':
                _count_nodes(ctx, o.case['pt'])
                ctx.count('channels:%d' % len(o.case['channels']))
                ctx.count('stream:' + ('dyadic' if o.case['exact'] else 'general'))
                if o.ast_sx is not None:
                    for k, v in o.classes.items():
                        if v:
                            ctx.count('class:' + k)
                    if o.model and o.model.get('fragment'):
                        ctx.count('in-proved-fragment')
    return outs


def _class_of(o):
    for k, fid in (('indexreuse', 'KF-C17-indexreuse'), ('pf22', 'PF-22'), ('depth', 'KF-C17-depth'),
                   ('zerokey', 'KF-C17-zerokey')):
        if o.classes.get(k):
            return fid
    return None


def _decide(ctx, o, ans, family):
    if o.verdict == 'skip':
        return
    impl = o.impl
    case = o.case
    if 'build_error' in impl:
        name, msg = impl['build_error']
        o.verdict = 'violation'
        o.why = 'LinSpaceBuilder raised %s (%s) for a template of constant holds affine in loop indices' % (name, msg)
        return
    run = ans.get('run')
    if run is None or run[0] == 'err':
        raise core.MachineryError('model did not answer for %s: %r' % (o.line[:200], run))
    fields = {f[0]: f for f in run if isinstance(f, list)}
    mcls = {k: (v == 'true') for k, v in (x for x in fields['class'][1:])}
    o.model = {'status': run[0], 'fragment': mcls.get('fragment', False)}
    for k in ('pf22', 'depth', 'zerokey', 'rescollision', 'indexreuse'):
        if mcls[k] != o.classes[k]:
            raise core.MachineryError('class predicate %s differs between harness (%s) and Lean (%s) on %s'
                                      % (k, o.classes[k], mcls[k], sx(o.ast_sx)[:300]))
    spec_hist = _hist_from(fields['spec'][1])
    spec_time = as_frac(fields['spec'][2])
    exact = case['exact']
    tol = F(0) if exact else TOL_GENERAL
    known = _class_of(o)

    def close(h1, h2, t):
        if len(h1) != len(h2):
            return False
        for (t1, v1), (t2, v2) in zip(h1, h2):
            if t1 != t2 or len(v1) != len(v2):
                return False
            for a, b in zip(v1, v2):
                if a == 'nan' or b == 'nan':
                    if a != b:
                        return False
                elif abs(a - b) > t:
                    return False
        return True

    # --- the Lean-side spec (unrollStairs of the AST) against the default program -------------------------
    def_hist, def_time = o.default
    if not close(spec_hist, def_hist, tol) or spec_time != def_time:
        # the builder's AST is wrong; only the index-reuse class (a range lost in the builder) is a known cause
        o.verdict = 'known:KF-C17-indexreuse' if o.classes.get('indexreuse') else 'violation'
        o.why = ('the LinSpace AST built by LinSpaceBuilder does not denote the staircase of the default program: '
                 'unrollStairs(AST) = %s (T=%s), default = %s (T=%s)'
                 % (_short(spec_hist), spec_time, _short(def_hist), def_time))
        return
    # --- judge the implementation -----------------------------------------------------------------------
    impl_status = 'ok' if 'hist' in impl else ('translate-error' if 'translate_error' in impl else 'run-error')
    impl_err = impl.get('translate_error') or impl.get('run_error')
    bad = None
    if impl_status != 'ok':
        bad = '%s: %s' % (impl_status, impl_err)
    else:
        j = ans['judge'][1]
        if j != 'ok':
            bad = 'history differs from the default staircase (%s): VM %s, default %s' % (
                j, _short(impl['hist']), _short(def_hist))
        elif impl['time'] != def_time:
            bad = 'total duration %s differs from the default program\'s %s' % (impl['time'], def_time)
    # --- correspondence ---------------------------------------------------------------------------------
    model_status = run[0]
    agree = True
    if model_status != impl_status:
        agree = False
    elif model_status == 'ok':
        mh = _hist_from(fields['hist'][1])
        agree = close(mh, impl['hist'], tol) and as_frac(fields['hist'][2]) == impl['time']
        if exact:
            same_cmds = sx(['cmds'] + cmds_to_sx(impl['cmds'])) == sx(fields['cmds'])
            ctx.count('structural:commands-' + ('equal' if same_cmds else 'differ'))
    else:
        agree = (run[1] == impl_err)
    if bad is not None:
        if known is not None:
            o.verdict = 'known:' + known
            o.why = bad
            if not agree:
                # the model keeps the defective behaviour: it should still agree
                ctx.drift('known-class behaviour: LinSpace translator/VM vs QP.C17', o.line[:1500],
                          bad, sx(run)[:600])
        else:
            o.verdict = 'violation'
            o.why = bad
        return
    if not agree:
        o.verdict = 'drift'
        o.why = 'impl %s %s vs model %s' % (impl_status, _short(impl.get('hist', [])), sx(run)[:400])
        return
    # --- scaling ----------------------------------------------------------------------------------------
    if o.scal is not None:
        sc = o.scal
        mscale = ans['scale']
        expect = ans['affine']
        if 'error' in sc:
            o.verdict = 'violation'
            o.why = '_transform_linspace_commands raised %s for amplitudes %s offsets %s' % (sc['error'], sc['amps'], sc['offs'])
            return
        want = _hist_from(expect[1])
        if not close(want, sc['hist'], F(0)) or sc['time'] != impl['time']:
            o.verdict = 'violation'
            o.why = ('scaled commands do not play the affinely scaled staircase: amplitudes %s offsets %s, VM %s, '
                     'expected %s' % (sc['amps'], sc['offs'], _short(sc['hist']), _short(want)))
            return
        if mscale[0] != 'ok' or sx(['ok'] + sc['cmds']) != sx(mscale):
            o.verdict = 'drift'
            o.why = 'scaled commands differ from QP.C17.scale'
            return
        ctx.count('scaling-checked')


def _short(h, n=14):
    def f(x):
        return 'nan' if x == 'nan' else (str(float(x)) if x.denominator in (1, 2, 4, 8, 16, 32, 64) else '%.13g' % float(x))
    s = ', '.join('%s:%s' % (f(t), '/'.join(f(x) for x in v)) for t, v in h[:n])
    return '[%s%s]' % (s, ', …(%d)' % len(h) if len(h) > n else '')


# ---------------------------------------------------------------------------------------------
# shrinking / search
# ---------------------------------------------------------------------------------------------

def _shrinks(spec):
    """smaller variants of a spec (one step)"""
    t = spec['t']
    if t == 'seq':
        for i in range(len(spec['ch'])):
            rest = spec['ch'][:i] + spec['ch'][i + 1:]
            if len(rest) == 1:
                yield rest[0]
            elif rest:
                yield {'t': 'seq', 'ch': rest}
        for i, c in enumerate(spec['ch']):
            for s in _shrinks(c):
                yield {'t': 'seq', 'ch': spec['ch'][:i] + [s] + spec['ch'][i + 1:]}
    elif t == 'hold':
        for ch, aff in spec['v'].items():
            for j in range(len(aff['coef'])):
                v = copy.deepcopy(spec)
                del v['v'][ch]['coef'][j]
                yield v
            if aff['base'][0] not in ('0.0', '1.0') or aff['base'][1] != 'f':
                v = copy.deepcopy(spec)
                v['v'][ch]['base'] = ['1.0', 'f']
                yield v
        if spec['dur'] != '1':
            v = copy.deepcopy(spec)
            v['dur'] = '1'
            yield v
    else:
        if t in ('rep', 'arith', 'map'):
            yield spec['body']
        if t == 'rep' and spec['n'] > 1:
            yield dict(spec, n=spec['n'] - 1)
        if t == 'for':
            a, b, s = spec['rng']
            n = len(range(a, b, s))
            if n > 1:
                yield dict(spec, rng=[a, a + s * (n - 1), s])
            if (a, s) != (0, 1):
                yield dict(spec, rng=[0, n, 1])
        for sb in _shrinks(spec['body']):
            yield dict(spec, body=sb)


def shrink_violation(ctx, case, is_bad, budget=150):
    """greedy delta debugging on the template spec; `is_bad(case)` re-evaluates on the implementation"""
    cur = case
    steps = 0
    improved = True
    while improved and steps < budget:
        improved = False
        for s in _shrinks(cur['pt']):
            steps += 1
            cand = dict(cur, pt=s)
            if len(cur['channels']) > 0 and is_bad(cand):
                cur = cand
                improved = True
                break
            if steps >= budget:
                break
    return cur


def _is_violation(ctx, case):
    try:
        o = evaluate(ctx, [case], 'shrink', register=False)[0]
    except core.MachineryError:
        return False
    return o.verdict == 'violation'


# ---------------------------------------------------------------------------------------------
# run / replay
# ---------------------------------------------------------------------------------------------

WITNESSES = {
    'PF-22': {'pt': {'t': 'for', 'idx': 'i', 'rng': [0, 3, 1],
                     'body': {'t': 'rep', 'n': 1,
                              'body': {'t': 'hold', 'dur': '1',
                                       'v': {'a': {'base': ['0.0', 'f'], 'coef': [['i', ['1.0', 'f']]]}}}}},
              'channels': ['a'], 'gt': None, 'exact': True},
}


def _report(ctx, o, family):
    if o.verdict == 'violation':
        case = o.case
        small, so = case, o
        if len(ctx.violations) < 3:                       # minimise the first few; the rest are reported as found
            small = shrink_violation(ctx, case, lambda c: _is_violation(ctx, c))
            so = evaluate(ctx, [small], 'shrink', register=False)[0]
            if so.verdict != 'violation':
                small, so = case, o
        ctx.violation('C17 [%s] %s' % (family, so.why),
                      {'kind': 'case', 'case': small, 'original_case': case if small is not case else None,
                       'ast': sx(so.ast_sx) if so.ast_sx is not None else None})
    elif o.verdict == 'drift':
        ctx.drift('LinSpace translator/VM vs QP.C17 (translate, run)', o.line[:1500], o.why[:600], '')


def _known_findings(ctx):
    """replay the witnesses of the open findings on the real code"""
    for kf in ctx.findings.for_property('C17'):
        w = kf.get('witness')
        if not w:
            continue
        o = evaluate(ctx, [w['case']], 'known-finding', register=False)[0]
        if o.verdict == 'known:' + kf['finding']:
            ctx.known_finding(kf['finding'], '%s — %s' % (kf.get('what', ''), o.why[:300]))
        elif o.verdict == 'ok':
            # the defect no longer reproduces: the finding would have to be retired, which is not an alarm
            ctx.count('known-finding-no-longer-reproduces:' + kf['finding'])
        else:
            _report(ctx, o, 'known-finding')


def run(ctx: core.Ctx):
    ctx.rule = ('templates of ConstantPT holds with voltages affine in the enclosing loop indices (float / int literals, '
                'float / int parameters, coefficient 0), nested in ForLoopPT (start/stop/step incl. negative, empty, '
                'length 1), RepetitionPT (count 0..3), SequencePT, MappingPT (affine parameter mapping), scalar '
                'ArithmeticPT, optional global Scaling/OffsetTransformation, random channel order; dyadic stream compared '
                'exactly, general (decimal) stream within 1e-9. Exhaustive: all wrapper chains of length <= 3 over '
                '{for len 1,2,3 / rep 1,2} x 4 body shapes. Non-trivial = an indexed hold inside an iteration of '
                'length > 1 (increment commands are executed); distinct by canonical template spec')
    ctx.assumptions = [
        'float arithmetic is exact on the dyadic stream (multiples of 1/8, small magnitude); the general stream is '
        'compared within the documented increment resolution 1e-9',
        'the default program (create_program() with the Loop builder) is the reference staircase of a template (C01)',
        'distinct factor tuples on one channel differ by more than the resolution (no register merging by rounding)',
    ]
    known_ids = {kf['finding'] for kf in ctx.findings.for_property('C17')}
    # corpus first
    for rec in ctx.corpus():
        replay(ctx, rec, from_corpus=True)
        ctx.corpus_replayed += 1
    _known_findings(ctx)

    def process(cases, family):
        outs = evaluate(ctx, cases, family)
        for o in outs:
            if o.verdict.startswith('known:'):
                fid = o.verdict.split(':', 1)[1]
                ctx.count('known-finding-hit:' + fid)
                if fid not in known_ids:
                    # a class predicate without a recorded finding is not a licence to suppress
                    o.verdict = 'violation'
                    _report(ctx, o, family)
            elif o.verdict in ('violation', 'drift'):
                _report(ctx, o, family)
        return outs

    ex = exhaustive_cases()
    ctx.exhaustive_spaces.append('wrapper chains of length <= 3 over {for [0,1,1], for [1,3,1], for [4,-2,-2], rep 1, rep 2} '
                                 'x 4 body shapes (+ leading plain hold), 1 channel: %d templates' % len(ex))
    process(ex, 'exhaustive')
    rng = ctx.fork('random-dyadic')
    process([Gen(rng, exact=True).case() for _ in range(ctx.n(450, 25000))], 'random-dyadic')
    rng = ctx.fork('random-norep')
    process([Gen(rng, exact=True, allow_rep=False).case() for _ in range(ctx.n(250, 12000))], 'random-norep')
    rng = ctx.fork('rep-safe')
    process([gen_rep_safe(rng) for _ in range(ctx.n(150, 5000))], 'rep-safe')
    rng = ctx.fork('shared-registers')
    process([gen_shared(rng) for _ in range(ctx.n(200, 6000))], 'shared-registers')
    rng = ctx.fork('shadowed-index')
    process([gen_shadow(rng) for _ in range(ctx.n(200, 5000))], 'shadowed-index')
    rng = ctx.fork('fine-steps')
    process([gen_fine(rng) for _ in range(ctx.n(150, 3000))] +
            [gen_fine(rng, long_ok=True, length=n) for n in ([2000, 20000] if ctx.quick else [2000, 20000] * 15)],
            'fine-steps')
    rng = ctx.fork('random-general')
    process([Gen(rng, exact=False, p_int=0.0).case() for _ in range(ctx.n(150, 8000))], 'random-general')
    rng = ctx.fork('malformed')
    process(malformed_cases(rng, ctx.n(60, 1500)), 'int-amplitudes')
    if ctx.drifts and not ctx.violations:
        # failing-input search: fresh random cases judged on the implementation's output
        rng = ctx.fork('search')
        process([Gen(rng, exact=True).case() for _ in range(ctx.n(300, 3000))], 'search')


def replay(ctx: core.Ctx, rec: dict, from_corpus: bool = False) -> bool:
    case = rec.get('case')
    if case is None:
        return True
    o = evaluate(ctx, [case], 'corpus' if from_corpus else 'replay', register=from_corpus)[0]
    expect = rec.get('expect')
    if from_corpus and expect and o.verdict.split(':')[0] == 'known' and expect.startswith('known'):
        known_ids = {kf['finding'] for kf in ctx.findings.for_property('C17')}
        if o.verdict.split(':', 1)[1] in known_ids:
            return True
    if o.verdict in ('violation', 'drift') or o.verdict.startswith('known:') and not from_corpus:
        if o.verdict.startswith('known:'):
            print('replay: reproduces known finding %s: %s' % (o.verdict[6:], o.why[:300]))
            return True
        _report(ctx, o, 'replay')
        if not from_corpus:
            print('replay: %s: %s' % (o.verdict, o.why[:400]))
        return False
    if o.verdict.startswith('known:'):
        known_ids = {kf['finding'] for kf in ctx.findings.for_property('C17')}
        if o.verdict.split(':', 1)[1] not in known_ids:
            o.verdict = 'violation'
            _report(ctx, o, 'corpus')
            return False
    if not from_corpus:
        print('replay: %s %s' % (o.verdict, o.why[:300]))
    return True
