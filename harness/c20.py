"""C20 — hardware discretisation is faithful.

Correspondence: the real `voltage_to_uint16` (both variants), `get_sample_times`,
`ProgramEntry._sample_waveforms`, `time_windows_to_samples`, `shrink_overlapping_windows` and
`average_windows` (both variants each; numba is absent, so the `_numba` variants are the plain Python
functions) are driven with the same inputs as the Lean model `QP.C20`; the executable specs of
`QP/Model/C20.lean` judge the implementation's outputs.

Number streams.  *exact*: all inputs are chosen such that every float operation the code performs is
exact (dyadic code step, dyadic sample rates, values on coarse binary grids), so equality with the
`Rat` model is exact equality.  *tol*: arbitrary floats; the exact rational value of the float inputs
is sent to Lean, and a code / sample index may be either neighbour only when the exact value lies within
2**-40 (relative) of a half-integer (rounding) resp. an integer (floor) resp. the range end.  Note: the
code step 2*amp/(2**r-1) has an odd denominator, so except for the mid-point and for amplitudes that are
(2**r-1)*2**k exact ties are not floats at all; the tie clause of the model is exercised on exactly
those inputs.
"""
from __future__ import annotations

import ast
import fractions
import hashlib
import inspect
import itertools
import json
import math
import os
import warnings

import numpy as np

import core
from core import sx, as_frac

F = fractions.Fraction
TOL = F(1, 2 ** 40)
GSL_TOL = 1e-10          # default `tolerance` of get_waveform_length / get_sample_times


def _imports():
    from qupulse.hardware import util as U
    from qupulse.utils import performance as P
    from qupulse.hardware.awgs import base as B
    from qupulse.program import waveforms as W
    from qupulse.utils.types import TimeType
    return U, P, B, W, TimeType


def fr(x) -> F:
    return F(float(x))


def outcome(fn, *args):
    """('ok', value) | ('error', class)"""
    try:
        return ('ok', fn(*args))
    except BaseException as e:  # noqa
        return ('error', core.classify_exception(e))


def model_outcome(ans, conv):
    if isinstance(ans, list) and ans and ans[0] == 'ok':
        return ('ok', conv(ans))
    if isinstance(ans, list) and ans and ans[0] == 'error':
        return ('error', ans[1])
    raise core.MachineryError('unexpected driver answer %r' % (ans,))


def verdict(ans) -> str:
    if isinstance(ans, list) and len(ans) == 2 and ans[0] == 'judge':
        return ans[1]
    raise core.MachineryError('unexpected judge answer %r' % (ans,))


# ---------------------------------------------------------------------------------------------
# reporting with shrinking: the first violations of each family are delta-debugged (elements of the
# arrays / window lists / waveform lists are dropped while the judge still rejects the
# implementation's output) and reported on the minimal input
# ---------------------------------------------------------------------------------------------

class _Silent(core.Ctx):
    def violation(self, what, replay, found_input=True):
        self.violations.append({'what': what, 'replay': None, 'found_input': found_input})

    def known_finding(self, finding_id, what):
        pass


_MIN = {'active': False, 'count': {}}
_GROUPS = {
    'code': [('vs',)],
    'times': [('durs',)],
    'w2s': [('begins', 'lengths')],
    'shrink': [('ws',)],
    'average': [('ws',), ('time', 'values')],
    'sample': [('wfs',), ('channels', 'amps', 'offs', 'trafos'), ('markers',)],
}


def _run_one(ctx, kind, case):
    if kind == 'code':
        check_code(ctx, [case], 'min')
    elif kind == 'times':
        check_times(ctx, [case])
    elif kind == 'sample':
        check_sample(ctx, [case])
    elif kind == 'w2s':
        check_w2s(ctx, [case])
    elif kind == 'shrink':
        check_shrink(ctx, [case], 'min')
    elif kind == 'average':
        check_average(ctx, [case], label='min')


def _violates(ctx, kind, case) -> bool:
    s = _Silent(ctx.pid, ctx.tier, ctx.seed)
    try:
        _run_one(s, kind, case)
    except core.MachineryError:
        return False
    return bool(s.violations)


def shrink_case(ctx, kind, case, budget=60):
    best = json.loads(json.dumps(case))
    for group in _GROUPS[kind]:
        n = len(best[group[0]])
        if any(not isinstance(best.get(g), list) for g in group):
            continue
        chunk = max(1, n // 2)
        while chunk >= 1 and budget > 0:
            i = 0
            progressed = False
            while i < len(best[group[0]]) and budget > 0:
                cand = dict(best)
                for g in group:
                    cand[g] = best[g][:i] + best[g][i + chunk:]
                if (kind == 'sample' and group == ('wfs',) and not cand['wfs']) or \
                        (kind == 'code' and not cand['vs']):
                    i += chunk
                    continue
                budget -= 1
                if _violates(ctx, kind, cand):
                    best = cand
                    progressed = True
                else:
                    i += chunk
            if chunk == 1 and not progressed:
                break
            chunk = max(1, chunk // 2) if chunk > 1 else (1 if progressed else 0)
    return best


def _viol(ctx, what, rep):
    kind = rep.get('kind')
    if (not _MIN['active'] and not isinstance(ctx, _Silent) and kind in _GROUPS and 'case' in rep
            and _MIN['count'].get(kind, 0) < 3):
        _MIN['count'][kind] = _MIN['count'].get(kind, 0) + 1
        _MIN['active'] = True
        try:
            small = shrink_case(ctx, kind, rep['case'])
            if small != rep['case']:
                n = len(ctx.violations)
                _run_one(ctx, kind, small)
                if len(ctx.violations) > n:
                    return
        finally:
            _MIN['active'] = False
    ctx.violation(what, rep)


# =============================================================================================
# 1. voltage_to_uint16
# =============================================================================================

def gen_code_cases(rng, n, label='rnd'):
    cases = []
    # --- boundary lattice, exact stream: amplitude (2^r-1)*2^k makes the code step 2^(k+1) dyadic
    for r in range(1, 17):
        for k in (-3, 0, 2):
            lv = 2 ** r - 1
            amp = float(lv) * 2.0 ** k
            st = 2.0 ** (k + 1)
            off = rng.choice([0.0, st * rng.randrange(-8, 9) / 4])
            ns = sorted({0, 1, 2, lv // 2, (lv + 1) // 2, lv - 1, lv, rng.randrange(0, lv + 1),
                         rng.randrange(0, lv + 1)})
            js = []
            for c in ns:
                for d in (-4, -1, 0, 1, 3, 4):           # eighths of a step around the code centre
                    j = 8 * c + d
                    if 0 <= j <= 8 * lv:
                        js.append(j)
            rng.shuffle(js)
            vs = [off - amp + j * st / 8 for j in js]
            cases.append({'amp': amp, 'off': off, 'r': r, 'vs': vs, 'stream': 'exact', 'fam': 'lattice'})
            # just outside / exactly at the ends
            for extra in ([off - amp - st / 8], [off + amp + st / 8], [off - amp, off + amp],
                          [off + amp, off - amp - st / 8, off]):
                cases.append({'amp': amp, 'off': off, 'r': r, 'vs': vs[:3] + extra, 'stream': 'exact',
                              'fam': 'ends'})
    # --- power-of-two amplitude: scale exact, only the mid-point is a tie
    for _ in range(n // 4):
        r = rng.randrange(1, 17)
        k = rng.randrange(-4, 5)
        amp = 2.0 ** k
        off = rng.randrange(-16, 17) * amp / 8
        m = rng.randrange(0, 24)
        vs = [off + amp * rng.randrange(-1024, 1025) / 1024 for _ in range(m)]
        if rng.random() < 0.3:
            vs.append(off)
        if rng.random() < 0.15:
            vs.append(off + amp * rng.choice([-1025, 1025, -2048, 1536]) / 1024)
        if rng.random() < 0.2:
            vs += [off - amp, off + amp]
        rng.shuffle(vs)
        cases.append({'amp': amp, 'off': off, 'r': r, 'vs': vs, 'stream': 'exact', 'fam': 'pow2'})
    # --- dyadic step, random codes and eighths
    for _ in range(n // 4):
        r = rng.randrange(1, 17)
        k = rng.randrange(-4, 4)
        lv = 2 ** r - 1
        amp = float(lv) * 2.0 ** k
        st = 2.0 ** (k + 1)
        off = st * rng.randrange(-64, 65) / 8
        m = rng.randrange(0, 20)
        js = [8 * rng.randrange(0, lv + 1) + rng.choice([0, 0, 4, 4, -4, 1, -1, 2, 3, 5]) for _ in range(m)]
        js = [min(max(j, 0), 8 * lv) for j in js]
        if rng.random() < 0.12:
            js.append(rng.choice([-1, 8 * lv + 1, -8, 8 * lv + 800]))
        vs = [off - amp + j * st / 8 for j in js]
        cases.append({'amp': amp, 'off': off, 'r': r, 'vs': vs, 'stream': 'exact', 'fam': 'dyadic-step'})
    # --- arbitrary floats (toleranced)
    for _ in range(n // 2):
        r = rng.randrange(1, 17)
        amp = rng.choice([rng.uniform(0.01, 10), rng.choice([0.1, 0.3, 0.5, 1.0, 2.5, 1e-3, 1e3])])
        off = rng.choice([0.0, rng.uniform(-5, 5)])
        lv = 2 ** r - 1
        st = 2 * amp / lv
        m = rng.randrange(0, 20)
        vs = []
        for _i in range(m):
            kind = rng.random()
            if kind < 0.5:
                vs.append(off + rng.uniform(-amp, amp) * 0.999999)
            elif kind < 0.75:
                vs.append(off - amp + (rng.randrange(0, lv) + 0.5) * st)          # near half steps
            elif kind < 0.9:
                vs.append(off - amp + rng.randrange(0, lv + 1) * st * 0.9999999)  # near code centres
            else:
                vs.append(off + rng.choice([-1, 1]) * amp * (1 - 1e-9))
        if rng.random() < 0.12:
            vs.append(off + rng.choice([-1, 1]) * amp * (1 + rng.choice([1e-9, 1e-3, 0.5])))
        vs = [v for v in vs if math.isfinite(v)]
        cases.append({'amp': amp, 'off': off, 'r': r, 'vs': vs, 'stream': 'tol', 'fam': 'floats'})
    return cases


def gen_code_exhaustive(max_r):
    """every voltage on the eighth-of-a-step grid of the whole range, for amplitude 2^r-1 (step 2), offset 1/2;
    plus the same array with one value an eighth outside at either end"""
    for r in range(1, max_r + 1):
        lv = 2 ** r - 1
        amp, off, st = float(lv), 0.5, 2.0
        vs = [off - amp + j * st / 8 for j in range(0, 8 * lv + 1)]
        yield {'amp': amp, 'off': off, 'r': r, 'vs': vs, 'stream': 'exact', 'fam': 'exhaustive'}
        yield {'amp': amp, 'off': off, 'r': r, 'vs': vs[:40] + [off - amp - st / 8], 'stream': 'exact', 'fam': 'exhaustive'}
        yield {'amp': amp, 'off': off, 'r': r, 'vs': vs[-40:] + [off + amp + st / 8], 'stream': 'exact', 'fam': 'exhaustive'}


def _codes(arr):
    return [int(x) for x in np.asarray(arr).tolist()]


def _code_history(U, v, amp, off, r):
    """per function: (outcome on the caller's array, the array afterwards if it was modified else None,
    outcome of a second conversion of the same array, outcome on a read-only array)"""
    out = {}
    for name in ('_voltage_to_uint16_numpy', '_voltage_to_uint16_numba', 'voltage_to_uint16'):
        fn = getattr(U, name)
        shared = v.copy()
        first = outcome(lambda: _codes(fn(shared, amp, off, r)))
        modified = None if shared.tobytes() == v.tobytes() else [float(x) for x in shared]
        second = outcome(lambda: _codes(fn(shared, amp, off, r))) if modified is None else first
        ro = v.copy()
        ro.flags.writeable = False
        readonly = outcome(lambda: _codes(fn(ro, amp, off, r)))
        out[name] = (first, modified, second, readonly)
    return out


def check_code(ctx, cases, label):
    U, P, B, W, TimeType = _imports()
    lines, impl, hist = [], [], []
    for c in cases:
        amp, off, r = c['amp'], c['off'], c['r']
        v = np.array(c['vs'], dtype=float)
        i_np = outcome(lambda: _codes(U._voltage_to_uint16_numpy(v.copy(), amp, off, r)))
        i_nb = outcome(lambda: _codes(U._voltage_to_uint16_numba(v.copy(), amp, off, r)))
        i_wr = outcome(lambda: _codes(U.voltage_to_uint16(v.copy(), amp, off, r)))
        impl.append((i_np, i_nb, i_wr))
        hist.append(_code_history(U, v, amp, off, r))
        args = [fr(amp), fr(off), r, [fr(x) for x in c['vs']]]
        tol = F(0) if c['stream'] == 'exact' else TOL
        lines.append(sx(['c20', 'code', 'np'] + args))
        lines.append(sx(['c20', 'code', 'nb'] + args))
        for o in (i_np, i_nb, i_wr):
            lines.append(sx(['c20', 'judge-code', fr(amp), fr(off), r, tol, [fr(x) for x in c['vs']],
                             o[1] if o[0] == 'ok' else 'error']))
    ans = core.Lean.run(lines)
    for idx, (c, (i_np, i_nb, i_wr)) in enumerate(zip(cases, impl)):
        a = ans[5 * idx: 5 * idx + 5]
        fresh = {'_voltage_to_uint16_numpy': i_np, '_voltage_to_uint16_numba': i_nb, 'voltage_to_uint16': i_wr}
        m_np = model_outcome(a[0], lambda x: [int(t) for t in x[1]])
        m_nb = model_outcome(a[1], lambda x: [int(t) for t in x[1]])
        line = lines[5 * idx]
        ctx.case(line, nontrivial=len(c['vs']) > 0)
        ctx.count('code:%s:%s' % (c['fam'], i_np[0]))
        ctx.count('code:resolution:%d' % c['r'])
        rep = {'kind': 'code', 'case': c}
        bad = False
        for name, o, j in (('_voltage_to_uint16_numpy', i_np, a[2]), ('_voltage_to_uint16_numba', i_nb, a[3]),
                           ('voltage_to_uint16', i_wr, a[4])):
            vd = verdict(j)
            if o[0] == 'error' and o[1] != 'value_error':
                vd = 'raised-' + o[1]
            if vd != 'ok':
                bad = True
                _viol(ctx, '%s(amp=%r, off=%r, resolution=%d) on %r gave %r: %s'
                              % (name, c['amp'], c['off'], c['r'], c['vs'][:12], o, vd),
                              dict(rep, function=name, impl=repr(o), judge=vd))
                break
        if bad:
            continue
        # call history: the conversion is a function of the voltages.  The outcomes above (fresh copy per
        # call) were judged; the same voltages must give the same outcome when the caller's array is
        # converted a second time or is read-only, and the caller's array must not be written to.
        for name, (first, modified, second, readonly) in hist[idx].items():
            what = None
            if modified:
                what = 'wrote into the caller\'s voltage array (now %s)' % (modified[:12],)
            elif first != fresh[name]:
                what = 'gave %r on the caller\'s array but %r on a copy' % (first, fresh[name])
            elif second != first:
                what = 'gave %r for the first and %r for the second conversion of the same array' % (first, second)
            elif readonly != first:
                what = 'gave %r for a read-only array holding the same voltages (writable: %r)' % (readonly, first)
            if what:
                bad = True
                _viol(ctx, '%s(amp=%r, off=%r, resolution=%d) on %r %s'
                      % (name, c['amp'], c['off'], c['r'], c['vs'][:12], what),
                      dict(rep, function=name, history=repr(hist[idx][name])[:600], judge='not-a-function-of-the-voltages'))
                break
        if bad:
            continue
        if i_np != i_nb or i_wr != i_np:
            _viol(ctx, 'voltage_to_uint16 variants differ (amp=%r, off=%r, resolution=%d) on %r: numpy %r, '
                          'numba %r, wrapper %r' % (c['amp'], c['off'], c['r'], c['vs'][:12], i_np, i_nb, i_wr),
                          dict(rep, impl_numpy=repr(i_np), impl_numba=repr(i_nb), impl_wrapper=repr(i_wr)))
            continue
        if i_np != m_np or i_nb != m_nb:
            if c['stream'] == 'exact':
                ctx.drift('voltage_to_uint16 vs QP.C20.codesNumpy/codesNumba', rep,
                          repr((i_np, i_nb)), repr((m_np, m_nb)))
            else:
                ctx.count('code:tol:near-tie-or-near-end-accepted')


def check_code_malformed(ctx):
    """resolution is validated by the public wrapper only"""
    U, P, B, W, TimeType = _imports()
    v = np.array([0.0, 0.25])
    lines = []
    meta = []
    for r in (0, -1, -16, 1, 16):
        o = outcome(lambda: _codes(U.voltage_to_uint16(v.copy(), 1.0, 0.0, r)))
        meta.append((r, o))
        lines.append(sx(['c20', 'code', 'wrap-np', F(1), F(0), r, [fr(x) for x in v]]))
    for (r, o), a in zip(meta, core.Lean.run(lines)):
        ctx.case('code-resolution-%d' % r, nontrivial=False)
        ctx.count('code:malformed-resolution')
        m = model_outcome(a, lambda x: [int(t) for t in x[1]])
        if r < 1 and o != ('error', 'value_error'):
            _viol(ctx, 'voltage_to_uint16 accepted resolution %r: %r' % (r, o),
                          {'kind': 'code-resolution', 'resolution': r})
        elif o != m:
            ctx.drift('voltage_to_uint16 resolution check', {'kind': 'code-resolution', 'resolution': r},
                      repr(o), repr(m))
    for r in (2.0, 1.5, '3', None):
        ctx.case('code-resolution-%r' % (r,), nontrivial=False)
        o = outcome(lambda: _codes(U.voltage_to_uint16(v.copy(), 1.0, 0.0, r)))
        if o[0] == 'ok':
            _viol(ctx, 'voltage_to_uint16 accepted the non-integer resolution %r' % (r,),
                          {'kind': 'code-resolution', 'resolution': repr(r)})


# =============================================================================================
# 2. get_sample_times / get_waveform_length
# =============================================================================================

DYADIC_RATES = [F(1), F(2), F(1, 2), F(4), F(3, 2), F(5, 4), F(1, 8), F(12), F(3, 4), F(1000)]
OTHER_RATES = [F(12, 5), F(1, 3), F(1, 10), F(7, 3), F(3), F(6), F(7), F(3, 10), F(3), F(9), F(10, 3), F(5), F(7, 10)]


def gen_times_cases(rng, n):
    cases = []
    tol = fr(GSL_TOL)
    for _ in range(n):
        dy = rng.random() < 0.8
        sr = rng.choice(DYADIC_RATES if dy else OTHER_RATES)
        m = rng.choice([1, 1, 2, 3, 5])
        durs = []
        for _i in range(m):
            k = rng.randrange(1, 70)
            kind = rng.random()
            if kind < 0.6:
                d = F(k) / sr
            elif kind < 0.7:
                d = (F(k) + rng.choice([F(1, 2), F(1, 4), F(-1, 3), F(1, 1000)])) / sr      # not an integer
            elif kind < 0.8:
                d = (F(k) + rng.choice([1, -1]) * rng.choice([tol, tol / 2, tol * F(999, 1000)])) / sr
            elif kind < 0.9:
                d = (F(k) + rng.choice([1, -1]) * tol * rng.choice([F(1001, 1000), F(2)])) / sr
            elif kind < 0.95:
                d = rng.choice([F(0), F(1, 10 ** 12), F(1, 4)]) / sr
            else:
                d = F(k * 1000) / sr
            durs.append(d)
        cases.append({'sr': [sr.numerator, sr.denominator],
                      'durs': [[d.numerator, d.denominator] for d in durs], 'single': rng.random() < 0.15 and m == 1})
    cases.append({'sr': [1, 1], 'durs': [], 'single': False})
    return cases


def _const_wf(W, TimeType, dur: F, ch='A', v=1.0):
    return W.ConstantWaveform(TimeType.from_fraction(dur.numerator, dur.denominator), v, ch)


def check_times(ctx, cases):
    U, P, B, W, TimeType = _imports()
    lines, impl = [], []
    for c in cases:
        sr = F(*c['sr'])
        durs = [F(*d) for d in c['durs']]
        tsr = TimeType.from_fraction(sr.numerator, sr.denominator)

        def call():
            wfs = [_const_wf(W, TimeType, d) for d in durs]
            if c['single']:
                t, nsamp = U.get_sample_times(wfs[0], tsr)
                return [float(x) for x in t], [int(nsamp)]
            t, nsamp = U.get_sample_times(wfs, tsr)
            return [float(x) for x in t], [int(x) for x in nsamp]
        impl.append(outcome(call))
        lines.append(sx(['c20', 'times', sr, fr(GSL_TOL), durs]))
    for c, o, a, line in zip(cases, impl, core.Lean.run(lines), lines):
        sr = F(*c['sr'])
        dyadic = F(float(sr)) == sr
        m = model_outcome(a, lambda x: ([as_frac(t) for t in x[1]], [int(t) for t in x[2]]))
        ctx.case(line, nontrivial=len(c['durs']) > 0)
        ctx.count('times:%s:%s' % ('dyadic-rate' if dyadic else 'other-rate', o[0] if o[0] == 'ok' else o[1]))
        rep = {'kind': 'times', 'case': c}
        if o[0] != m[0] or (o[0] == 'error' and o[1] != m[1]):
            # judge: by sample_times_spec the call must succeed iff every duration is a positive
            # multiple of the sample period within the tolerance
            _viol(ctx, 'get_sample_times(durations=%s, rate=%s) gave %r, specification %r'
                          % ([str(F(*d)) for d in c['durs']], sr, o if o[0] == 'error' else 'ok', m[0:1] + (m[1],) if m[0] == 'error' else 'ok'),
                          dict(rep, impl=repr(o)[:300], spec=repr(m)[:300]))
            continue
        if o[0] == 'error':
            continue
        t_impl, n_impl = o[1]
        t_mod, n_mod = m[1]
        if n_impl != n_mod:
            _viol(ctx, 'get_sample_times lengths %r, specification round(duration*rate) = %r' % (n_impl, n_mod),
                          dict(rep, impl=repr(n_impl), spec=repr(n_mod)))
            continue
        # times: the model says k / rate exactly.  In floats the specification is the correctly rounded quotient
        # float(k) / float(rate) - one IEEE division - compared bit for bit: a grid point that is one ulp below
        # k/rate moves a step or marker edge lying on that sample point into the next sample.
        # (a longer array is still "sufficient for the longest waveform": only its entries are checked)
        model_ok = all(t == F(k) / sr for k, t in enumerate(t_mod))
        off_grid = [k for k, x in enumerate(t_impl) if x != float(k) / float(sr)]
        if len(t_impl) < len(t_mod) or not model_ok or off_grid:
            _viol(ctx, 'get_sample_times(durations=%s, rate=%s): sample times %r are not float(k)/float(rate) '
                       '(e.g. k=%s: %r instead of %r)'
                  % ([str(F(*d)) for d in c['durs']], sr, off_grid[:8], off_grid[:1],
                     t_impl[off_grid[0]] if off_grid else None, off_grid[0] / float(sr) if off_grid else None),
                  dict(rep, impl=repr(t_impl[:24]), off_grid=off_grid[:40], spec=repr([str(x) for x in t_mod[:24]])))


# =============================================================================================
# 3. ProgramEntry._sample_waveforms
# =============================================================================================

# channel ids on the wire are indices into this list.  ChannelID = str | int: the integer 0 and the empty
# string are legal (falsy) ids and must be treated like any other assigned output
CHANS = ['A', 'B', 'C', 'M', 'N', 0, 1, 2, '']
MARKERLIKE = ('M', 'N', 2, '')
TRAFOS = [None, None, ['affine', 2.0, 0.25], ['affine', -0.5, 1.0], ['affine', 1.0, 0.0], 'abs', 'square']


def py_trafo(t):
    if t is None:
        return None
    if t == 'abs':
        return np.abs
    if t == 'square':
        return lambda v: v * v
    a, b = t[1], t[2]
    return lambda v: a * v + b


def sx_trafo(t):
    if t is None:
        return 'none'
    if isinstance(t, str):
        return t
    return ['affine', fr(t[1]), fr(t[2])]


def build_wf(desc):
    """desc: {'dur': [n, d], 'parts': [part…]}; part: ['const', ch, v] | ['table', ch, [[t, v, interp]…]]
    | ['func', ch, expr_string].  More than one part makes a MultiChannelWaveform."""
    U, P, B, W, TimeType = _imports()
    from qupulse.pulses.interpolation import (HoldInterpolationStrategy, LinearInterpolationStrategy,
                                              JumpInterpolationStrategy)
    from qupulse.expressions import ExpressionScalar
    interp = {'hold': HoldInterpolationStrategy(), 'linear': LinearInterpolationStrategy(),
              'jump': JumpInterpolationStrategy()}
    dur = TimeType.from_fraction(*desc['dur']) if desc['dur'] else None     # None: table parts only
    subs = []
    for part in desc['parts']:
        if part[0] == 'const':
            subs.append(W.ConstantWaveform(dur, part[2], part[1]))
        elif part[0] == 'table':
            entries = tuple(W.TableWaveformEntry(float(t), float(v), interp[i]) for t, v, i in part[2])
            subs.append(W.TableWaveform(part[1], entries))
        elif part[0] == 'func':
            with warnings.catch_warnings():
                warnings.simplefilter('ignore')
                subs.append(W.FunctionWaveform(ExpressionScalar(part[2]), dur, part[1]))
        else:
            raise core.MachineryError('bad waveform part %r' % (part,))
    if len(subs) == 1:
        return subs[0]
    return W.MultiChannelWaveform(subs)


def gen_wf_desc(rng, n_samples: int, sr: F, chans, exact: bool, dev: F = F(0)):
    dur = (F(n_samples) + dev) / sr
    parts = []
    for ch in chans:
        kind = rng.random()
        marker = ch in MARKERLIKE
        if kind < 0.35 or dev != 0:
            v = rng.choice([0.0, 1.0, -1.0, 0.5, -0.0]) if marker else rng.randrange(-16, 17) / 8
            parts.append(['const', ch, v])
        elif kind < 0.7 and dur.denominator == 1 and dur >= 2:
            # table over integer times, values on a 1/8 grid, segment lengths 1, 2 or 4
            ts = [0]
            while ts[-1] < dur:
                ts.append(ts[-1] + rng.choice([st for st in (1, 2, 4) if st <= int(dur) - ts[-1]]))
            ent = []
            for t in ts:
                v = rng.choice([0.0, 1.0, 0.0, -1.0]) if marker else rng.randrange(-16, 17) / 8
                ent.append([t, v, rng.choice(['hold', 'linear', 'jump'])])
            if len({e[1] for e in ent}) == 1:
                ent[-1][1] += 1.0
            parts.append(['table', ch, ent])
        else:
            if exact:
                a = rng.randrange(-8, 9) / 8
                b = rng.randrange(-8, 9) / 8
                expr = rng.choice(['%r*t + %r' % (a, b), '%r*t*t + %r' % (a / 4, b), '%r - %r*t' % (b, a)])
            else:
                expr = rng.choice(['sin(t) * 0.7', 'exp(-t/3) - 0.2', '0.3*t + 0.1', 'cos(1.3*t)/3'])
            if marker and rng.random() < 0.5:
                expr = '0*t' if exact else 'sin(t)*0'
            parts.append(['func', ch, expr])
    return {'dur': [dur.numerator, dur.denominator], 'parts': parts}


EDGE_RATES = [F(3), F(3), F(6), F(7), F(3, 10), F(7, 3), F(9), F(5), F(10, 3), F(7, 10), F(1, 3), F(12, 5)]


def gen_edge_cases(rng, n):
    """sample rates whose period is not a float, with hold / jump steps and marker edges exactly on sample
    points k/rate - preferably on those k where other ways of computing the grid (k * (1/rate)) are one ulp
    off.  Voltages are dyadic, amplitudes powers of two: the arithmetic after sampling is exact."""
    cases = []
    for _ in range(n):
        sr = rng.choice(EDGE_RATES)
        n_out = rng.randrange(1, 3)
        chans = [rng.choice(['A', 'B', 0]) for _i in range(n_out)]
        marks = [rng.choice(['M', 'N', 2]) for _i in range(rng.randrange(0, 3))]
        used = sorted({c for c in chans + marks}, key=CHANS.index)
        wfs, seen = [], set()
        for _w in range(rng.randrange(1, 4)):
            ns = rng.randrange(6, 49)
            period = float(1 / sr)
            sensitive = [k for k in range(1, ns) if k * period != k / float(sr)]
            parts = []
            for ch in used:
                marker = ch in MARKERLIKE
                pool = sensitive if sensitive and rng.random() < 0.8 else list(range(1, ns))
                ks = sorted(set(rng.sample(pool, min(len(pool), rng.randrange(1, 5)))))
                ent = []
                prev = None
                for k in [0] + ks + [ns]:
                    v = rng.choice([0.0, 1.0]) if marker else rng.randrange(-16, 17) / 8
                    if v == prev:
                        v = 1.0 - v if marker else v + 0.5
                    prev = v
                    # the float grid point itself, float(k)/float(rate): the edge lies exactly on sample k
                    ent.append([k / float(sr), v, rng.choice(['hold', 'jump'])])
                parts.append(['table', ch, ent])
            # the duration of a table waveform is derived from its last entry (TimeType.from_float of
            # float(ns)/float(rate)); check_sample sends the real waveform's duration to the model
            d = {'dur': None, 'parts': parts}
            key = json.dumps(d, sort_keys=True)
            if key not in seen:
                seen.add(key)
                wfs.append(d)
        cases.append({'sr': [sr.numerator, sr.denominator], 'channels': chans, 'markers': marks,
                      'amps': [2.0 ** rng.randrange(-2, 3) for _i in chans],
                      'offs': [rng.randrange(-8, 9) / 8 for _i in chans],
                      'trafos': [rng.choice([None, None, ['affine', 2.0, 0.25], 'abs']) for _i in chans],
                      'wfs': wfs, 'stream': 'exact', 'fam': 'edge'})
    return cases


def gen_sample_cases(rng, n):
    cases = gen_edge_cases(rng, n // 3)
    for _ in range(n):
        exact = rng.random() < 0.7
        sr = rng.choice([F(1), F(2), F(1, 2), F(4), F(1), F(2)]) if exact else rng.choice([F(1), F(2), F(12, 5), F(1, 3)])
        n_out = rng.randrange(1, 4)
        int_ids = rng.random() < 0.4
        if int_ids:     # integer (incl. 0) and empty-string ids mixed with strings and None
            chans = [rng.choice([0, 0, 1, 'A', 'B', None]) for _i in range(n_out)]
            marks = [rng.choice([0, 2, '', 'M', 1, None]) for _i in range(rng.randrange(0, 3))]
        else:
            chans = [rng.choice(['A', 'B', 'C', None]) for _i in range(n_out)]
            marks = [rng.choice(['M', 'N', 'A', None]) for _i in range(rng.randrange(0, 3))]
        if exact:
            amps = [2.0 ** rng.randrange(-3, 4) for _i in chans]
            offs = [rng.randrange(-8, 9) / 8 for _i in chans]
        else:
            amps = [rng.choice([0.3, 1.0, 2.5, rng.uniform(0.05, 4)]) for _i in chans]
            offs = [rng.choice([0.0, 0.1, rng.uniform(-1, 1)]) for _i in chans]
        trafos = [rng.choice(TRAFOS) for _i in chans]
        used = sorted({c for c in chans + marks if c is not None}, key=CHANS.index)
        wfs = []
        seen = set()
        malformed = rng.random() < 0.12
        for _w in range(rng.randrange(1, 5)):
            ns = rng.randrange(1, 13)
            if sr < 1:
                ns = max(1, ns // 2)
            defined = list(used)
            dev = F(0)
            if malformed and rng.random() < 0.5 and defined:
                defined.remove(rng.choice(defined))                     # channel missing -> KeyError
            elif malformed and rng.random() < 0.5:
                dev = rng.choice([F(1, 2), F(1, 3), fr(GSL_TOL) * 3])  # not a whole number of samples
            elif rng.random() < 0.1:
                dev = rng.choice([1, -1]) * fr(GSL_TOL) / 2            # inside the tolerance
            if not defined:
                defined = ['A']
            extra = [c for c in CHANS if c not in defined and rng.random() < 0.15]
            d = gen_wf_desc(rng, ns, sr, defined + extra, exact, dev)
            key = json.dumps(d, sort_keys=True)
            if key in seen:
                continue
            seen.add(key)
            wfs.append(d)
        cases.append({'sr': [sr.numerator, sr.denominator], 'channels': chans, 'markers': marks, 'amps': amps,
                      'offs': offs, 'trafos': trafos, 'wfs': wfs, 'stream': 'exact' if exact else 'tol',
                      'fam': 'int-ids' if int_ids else 'str-ids'})
    return cases


def _raw_table(wf, sr: F, defined):
    """the waveform's own voltages at j / rate, j = 0 … floor(duration*rate), per defined channel"""
    dur = F(int(wf.duration.numerator), int(wf.duration.denominator))
    top = math.floor(dur * sr)
    tab = []
    if top < 0:
        return [[CHANS.index(ch), []] for ch in defined]
    times = np.arange(top + 1, dtype=float) / float(sr)
    times = times[times <= float(wf.duration)]
    for ch in defined:
        vals = wf.get_sampled(ch, times)
        tab.append([CHANS.index(ch), [fr(x) for x in vals]])
    return tab


class _Entry:
    """created lazily: a minimal ProgramEntry subclass"""
    cls = None

    @classmethod
    def get(cls):
        if cls.cls is None:
            U, P, B, W, TimeType = _imports()

            class MinimalProgramEntry(B.ProgramEntry):
                pass
            cls.cls = MinimalProgramEntry
        return cls.cls


class _BadShape(Exception):
    """an output of _sample_waveforms is not a one-dimensional array (raised by the observable extraction)"""
    last = ''


def check_sample(ctx, cases):
    U, P, B, W, TimeType = _imports()
    from qupulse.program.loop import Loop
    lines, impl, jidx = [], [], []
    for c in cases:
        sr = F(*c['sr'])
        tsr = TimeType.from_fraction(sr.numerator, sr.denominator)
        wfs = [build_wf(d) for d in c['wfs']]

        def call():
            entry = _Entry.get()(Loop(), tuple(c['channels']), tuple(c['markers']), tuple(c['amps']),
                                 tuple(c['offs']), tuple(py_trafo(t) for t in c['trafos']), tsr, waveforms=wfs)
            got = entry._waveforms
            if list(got.keys()) != wfs:
                raise core.MachineryError('waveform keys differ (generator produced equal waveforms)')
            res = []
            for wf in wfs:
                chs, mks = got[wf]
                for what, arrs in (('channel', chs), ('marker', mks)):
                    for pos, a in enumerate(arrs):
                        if a is not None and np.ndim(a) != 1:
                            _BadShape.last = 'sampled %s output %d has shape %r instead of one row of samples' \
                                             % (what, pos, np.shape(a))
                            raise _BadShape(_BadShape.last)
                res.append(([None if a is None else [float(x) for x in a] for a in chs],
                            [None if a is None else [bool(x) for x in a] for a in mks]))
            return res
        with warnings.catch_warnings():
            warnings.simplefilter('ignore')
            o = outcome(call)
            tabs = [_raw_table(wf, sr, sorted(wf.defined_channels, key=CHANS.index)) for wf in wfs]
        impl.append(o)
        cfgs = [[('none' if ch is None else CHANS.index(ch)), sx_trafo(t), fr(a), fr(of)]
                for ch, t, a, of in zip(c['channels'], c['trafos'], c['amps'], c['offs'])]
        marks = [('none' if m is None else CHANS.index(m)) for m in c['markers']]
        wire = [[F(int(wf.duration.numerator), int(wf.duration.denominator)), tab] for wf, tab in zip(wfs, tabs)]
        lines.append(sx(['c20', 'sample', sr, fr(GSL_TOL), cfgs, marks, wire]))
        if o[0] == 'ok':
            out = [[['none' if a is None else [fr(x) for x in a] for a in chs],
                    ['none' if a is None else [bool(x) for x in a] for a in mks]] for chs, mks in o[1]]
            jidx.append(len(lines))
            lines.append(sx(['c20', 'judge-sample', sr, F(0) if c['stream'] == 'exact' else TOL, cfgs, marks, wire, out]))
        else:
            jidx.append(None)
    ans = core.Lean.run(lines)
    pos = 0
    for c, o, j in zip(cases, impl, jidx):
        a = ans[pos]
        line = lines[pos]
        pos += 1
        jv = None
        if j is not None:
            jv = verdict(ans[pos])
            pos += 1
        if isinstance(a, list) and a and a[0] == 'err':
            raise core.MachineryError('driver rejected a sample request: %r' % (a,))

        def conv(x):
            res = []
            for s in x[1]:
                chs = [None if t == 'none' else [as_frac(v) for v in t] for t in s[0]]
                mks = [None if t == 'none' else [v == 'true' for v in t] for t in s[1]]
                res.append((chs, mks))
            return res
        m = model_outcome(a, conv)
        ctx.case(line, nontrivial=o[0] == 'ok')
        ctx.count('sample:%s:%s' % (c['stream'], o[0] if o[0] == 'ok' else o[1]))
        for ch in c['channels'] + c['markers']:
            ctx.count('sample:channel-id:%s' % ('None' if ch is None else 'int-0' if ch == 0 and ch != '' and not isinstance(ch, str)
                                                else 'int' if isinstance(ch, int) else 'empty-string' if ch == '' else 'str'))
        if c.get('fam') == 'edge':
            ctx.count('sample:steps-and-marker-edges-on-sample-points(rate %s)' % F(*c['sr']))
        for t in c['trafos']:
            ctx.count('sample:trafo:%s' % (t if isinstance(t, str) or t is None else 'affine'))
        for d in c['wfs']:
            for p in d['parts']:
                ctx.count('sample:waveform:%s' % p[0])
        rep = {'kind': 'sample', 'case': c}
        if o[0] == 'ok' and jv != 'ok':
            _viol(ctx, '_sample_waveforms output is not (trafo(v(k/rate)) - offset)/amplitude resp. v != 0 for '
                          'channels=%r markers=%r amps=%r offs=%r trafos=%r rate=%s waveforms=%r'
                          % (c['channels'], c['markers'], c['amps'], c['offs'], c['trafos'], F(*c['sr']),
                             c['wfs'])[:900], dict(rep, impl=repr(o)[:600], judge=jv))
            continue
        if o[0] == 'error' and o[1] == 'other:_BadShape':
            _viol(ctx, '_sample_waveforms: %s (channels=%r markers=%r waveforms=%r)'
                  % (_BadShape.last, c['channels'], c['markers'], c['wfs']), dict(rep, impl=_BadShape.last))
            continue
        if o[0] == 'error' and m[0] == 'ok':
            _viol(ctx, '_sample_waveforms raised %s although every waveform has a whole number of samples and '
                          'defines every requested channel (channels=%r markers=%r waveforms=%r)'
                          % (o[1], c['channels'], c['markers'], c['wfs']), dict(rep, impl=repr(o)))
            continue
        if o[0] == 'ok' and m[0] == 'error':
            ctx.drift('_sample_waveforms vs QP.C20.sampleWaveforms (model rejects)', rep, repr(o)[:300], repr(m))
            continue
        if o[0] == 'error':
            if o[1] != m[1]:
                ctx.drift('_sample_waveforms error class', rep, repr(o), repr(m))
            continue
        same = len(o[1]) == len(m[1])
        if same and c['stream'] == 'exact':
            for (ic, im), (mc, mm) in zip(o[1], m[1]):
                ic2 = [None if x is None else [F(v) for v in x] for x in ic]
                if ic2 != mc or im != mm:
                    same = False
        elif same:
            for (ic, im), (mc, mm) in zip(o[1], m[1]):
                if im != mm or len(ic) != len(mc):
                    same = False
                    continue
                for x, y in zip(ic, mc):
                    if (x is None) != (y is None):
                        same = False
                    elif x is not None:
                        if len(x) != len(y) or any(abs(F(u) - w) > TOL * max(1, abs(w)) for u, w in zip(x, y)):
                            same = False
        if not same:
            ctx.drift('_sample_waveforms vs QP.C20.sampleWaveforms', rep, repr(o)[:300], repr(m)[:300])


# =============================================================================================
# 4. time_windows_to_samples
# =============================================================================================

def gen_w2s_cases(rng, n):
    cases = []
    for _ in range(n):
        exact = rng.random() < 0.75
        m = rng.choice([0, 1, 2, 3, 4, 5, 8, 17, 20, 33, 40])
        if exact:
            sr = rng.choice([1.0, 2.0, 0.5, 4.0, 1.5, 0.75, 0.125, 2.5])
            # begins on a 1/16 grid: begin*rate is exact; many exact half samples
            begins, lengths = [], []
            for _i in range(m):
                kind = rng.random()
                s = rng.randrange(0, 200)
                if kind < 0.4:
                    b = (s + 0.5) / sr if (s + 0.5) / sr * sr == s + 0.5 else float(s)
                elif kind < 0.7:
                    b = rng.randrange(0, 16 * 200) / 16
                else:
                    b = s / sr if s / sr * sr == s else float(s)
                ln = rng.choice([rng.randrange(0, 16 * 40) / 16, rng.randrange(0, 40) / sr, 0.0,
                                 max(0.0, rng.randrange(1, 40) / sr - 1 / 64)])
                if F(b) * F(sr) != F(b * sr) or F(ln) * F(sr) != F(ln * sr):
                    b, ln = float(s), float(rng.randrange(0, 9))
                begins.append(b)
                lengths.append(ln)
            if m and rng.random() < 0.4:
                # ties: equal begins with different lengths
                for _t in range(rng.randrange(1, 4)):
                    i, j = rng.randrange(m), rng.randrange(m)
                    begins[j] = begins[i]
            order = rng.random()
            if order < 0.35:
                z = sorted(zip(begins, lengths), key=lambda p: p[0])
                begins, lengths = [p[0] for p in z], [p[1] for p in z]
            elif order < 0.45:
                z = sorted(zip(begins, lengths), key=lambda p: -p[0])
                begins, lengths = [p[0] for p in z], [p[1] for p in z]
        else:
            sr = rng.choice([0.1, 1 / 9, 2.764423123563463412342, 100.322, 2.4, rng.uniform(0.01, 50)])
            begins = [rng.uniform(0, 1000) for _i in range(m)]
            lengths = [rng.uniform(0, 100) for _i in range(m)]
            if rng.random() < 0.4:
                begins.sort()
            if m and rng.random() < 0.5:
                i = rng.randrange(m)
                begins[i] = (rng.randrange(0, 500) + 0.5) / sr      # near a half sample
                lengths[i] = rng.randrange(0, 50) / sr               # near a whole number of samples
        cases.append({'sr': sr, 'begins': begins, 'lengths': lengths, 'stream': 'exact' if exact else 'tol'})
    # the arrays of the repository's own test
    for sr in (0.1, 1 / 9, 1., 2.764423123563463412342, 100.322):
        cases.append({'sr': sr, 'begins': [101.3, 176.31, 763454.776, 123.6218764354],
                      'lengths': [6.4234, 8765.45, 12543., 24.8654413], 'stream': 'tol'})
    return cases


def _pairs(res):
    b, l = res
    return [(int(x), int(y)) for x, y in zip(np.asarray(b).tolist(), np.asarray(l).tolist())]


def _canon_ties(pairs, begins):
    """windows with equal begin may come in any order (numpy.argsort does not specify it)"""
    out = []
    groups = [len(list(g)) for _k, g in itertools.groupby(sorted(begins))]
    pos = 0
    for g in groups:
        out.extend(sorted(pairs[pos:pos + g]))
        pos += g
    return out + pairs[pos:]


def _near(x: F, grid_half: bool) -> bool:
    """is x within TOL (relative) of a half-integer (grid_half) or of an integer"""
    y = x - F(1, 2) if grid_half else x
    d = abs(y - round(y))
    return d <= TOL * max(1, abs(x))


def check_w2s(ctx, cases):
    U, P, B, W, TimeType = _imports()
    lines, impl = [], []
    for c in cases:
        b = np.array(c['begins'], dtype=float)
        l = np.array(c['lengths'], dtype=float)
        sr = c['sr']
        i_np = outcome(lambda: _pairs(P._time_windows_to_samples_numpy(b.copy(), l.copy(), sr)))
        i_nb = outcome(lambda: _pairs(P._time_windows_to_samples_numba(b.copy(), l.copy(), sr)))
        i_wr = outcome(lambda: _pairs(P.time_windows_to_samples(b.copy(), l.copy(), sr)))
        impl.append((i_np, i_nb, i_wr))
        ws = [[fr(x), fr(y)] for x, y in zip(c['begins'], c['lengths'])]
        lines.append(sx(['c20', 'w2s', 'np', fr(sr), ws]))
        lines.append(sx(['c20', 'w2s', 'nb', fr(sr), ws]))
        lines.append(sx(['c20', 'judge-w2s', fr(sr), ws, [list(p) for p in i_np[1]] if i_np[0] == 'ok' else []]))
        lines.append(sx(['c20', 'judge-w2s', fr(sr), ws, [list(p) for p in i_nb[1]] if i_nb[0] == 'ok' else []]))
    ans = core.Lean.run(lines)
    for idx, (c, (i_np, i_nb, i_wr)) in enumerate(zip(cases, impl)):
        a = ans[4 * idx: 4 * idx + 4]
        conv = lambda x: [(int(p[0]), int(p[1])) for p in x[1]]
        m_np, m_nb = model_outcome(a[0], conv), model_outcome(a[1], conv)
        ctx.case(lines[4 * idx], nontrivial=len(c['begins']) > 1)
        srt = c['begins'] == sorted(c['begins'])
        ties = len(set(c['begins'])) < len(c['begins'])
        ctx.count('w2s:%s:%s%s' % (c['stream'], 'sorted' if srt else 'unsorted', '+ties' if ties else ''))
        rep = {'kind': 'w2s', 'case': c}
        if i_np[0] != 'ok' or i_nb[0] != 'ok' or i_wr[0] != 'ok':
            _viol(ctx, 'time_windows_to_samples raised on non-negative windows: %r %r %r' % (i_np, i_nb, i_wr),
                          dict(rep, impl=repr((i_np, i_nb, i_wr))[:400]))
            continue
        if c['stream'] == 'exact':
            bad = False
            for name, o, j in (('_time_windows_to_samples_numpy', i_np, a[2]), ('_time_windows_to_samples_numba', i_nb, a[3])):
                jv = verdict(j)
                if jv != 'ok':
                    bad = True
                    _viol(ctx, '%s(begins=%r, lengths=%r, rate=%r) = %r: %s'
                                  % (name, c['begins'][:10], c['lengths'][:10], c['sr'], o[1][:10], jv),
                                  dict(rep, function=name, impl=repr(o), judge=jv))
                    break
            if bad:
                continue
        if i_np != i_nb or i_wr != i_np:
            _viol(ctx, 'time_windows_to_samples variants differ for begins=%r lengths=%r rate=%r: numpy %r numba %r'
                          % (c['begins'][:10], c['lengths'][:10], c['sr'], i_np[1][:10], i_nb[1][:10]),
                          dict(rep, impl_numpy=repr(i_np), impl_numba=repr(i_nb), impl_wrapper=repr(i_wr)))
            continue
        if c['stream'] == 'exact':
            if _canon_ties(i_np[1], c['begins']) != _canon_ties(m_np[1], c['begins']) or \
                    _canon_ties(i_nb[1], c['begins']) != _canon_ties(m_nb[1], c['begins']):
                ctx.drift('time_windows_to_samples vs QP.C20.w2sNumpy/w2sNumba', rep, repr((i_np, i_nb))[:300],
                          repr((m_np, m_nb))[:300])
            continue
        # toleranced stream: float product begins*rate is inexact; compare elementwise after ordering
        order = sorted(range(len(c['begins'])), key=lambda i: c['begins'][i])
        got = _canon_ties(i_np[1], c['begins'])      # both variants are identical here
        want = _canon_ties(m_np[1], c['begins'])
        bad = None
        if len(got) != len(want):
            bad = 'length'
        else:
            exact_b = sorted(F(c['begins'][i]) * F(c['sr']) for i in order)
            for k, ((gb, gl), (wb, wl)) in enumerate(zip(got, want)):
                if gb != wb and not (abs(gb - wb) == 1 and _near(exact_b[k], True)):
                    bad = 'begin %d: %d, nearest sample of %s is %d' % (k, gb, float(exact_b[k]), wb)
                if gl != wl:
                    # which window? compare as multisets with integer-near tolerance
                    bad_l = True
                    for i in order:
                        p = F(c['lengths'][i]) * F(c['sr'])
                        if math.floor(p) in (gl, gl - 1, gl + 1) and _near(p, False) and F(c['begins'][i]) * F(c['sr']) == exact_b[k]:
                            bad_l = False
                    if bad_l:
                        bad = 'length %d: %d, floor is %d' % (k, gl, wl)
        if bad:
            _viol(ctx, 'time_windows_to_samples(begins=%r, lengths=%r, rate=%r) = %r: %s'
                          % (c['begins'][:10], c['lengths'][:10], c['sr'], i_np[1][:10], bad),
                          dict(rep, impl=repr(i_np), spec=repr(m_np), judge=bad))


# =============================================================================================
# 5. shrink_overlapping_windows
# =============================================================================================

def gen_shrink_exhaustive(max_len, max_begin, max_length):
    wins = [(b, l) for b in range(max_begin + 1) for l in range(max_length + 1)]
    for n in range(max_len + 1):
        for ws in itertools.product(wins, repeat=n):
            yield {'ws': [list(w) for w in ws]}


def gen_shrink_cases(rng, n):
    cases = []
    for _ in range(n):
        m = rng.choice([1, 2, 3, 4, 6, 10, 20, 40])
        kind = rng.random()
        ws = []
        pos = rng.randrange(0, 5)
        for _i in range(m):
            ln = rng.choice([0, 1, 2, 3, 5, 8, 8, rng.randrange(0, 30)])
            if kind < 0.25:                       # disjoint / touching
                gap = rng.choice([0, 0, 1, 3])
                ws.append([pos + gap, ln])
                pos = pos + gap + ln
            elif kind < 0.8:                      # mostly sorted, touching and overlapping
                gap = rng.choice([0, 0, 1, 2, 0, -1, -1, -2, -3])
                if gap < 0 and rng.random() < 0.85:
                    ln = max(ln, -gap + rng.choice([1, 1, 2, 5]))     # the shrunk window survives
                b = max(0, pos + gap)
                ws.append([b, ln])
                pos = max(pos, b + ln) if rng.random() < 0.8 else b + ln
            else:                                 # unsorted
                ws.append([rng.randrange(0, 40), ln])
        if rng.random() < 0.1:
            ws = [[w[0] + 2 ** 40, w[1]] for w in ws]
        cases.append({'ws': ws})
    return cases


def check_shrink(ctx, cases, label):
    U, P, B, W, TimeType = _imports()

    def backend(fn, ws):
        b = np.array([w[0] for w in ws], dtype=np.uint64)
        l = np.array([w[1] for w in ws], dtype=np.uint64)
        flag = fn(b, l)
        return bool(flag), [(int(x), int(y)) for x, y in zip(b.tolist(), l.tolist())]

    def wrapper(use_numba, ws):
        b = np.array([w[0] for w in ws], dtype=np.uint64)
        l = np.array([w[1] for w in ws], dtype=np.uint64)
        with warnings.catch_warnings(record=True) as rec:
            warnings.simplefilter('always')
            nb, nl = P.shrink_overlapping_windows(b, l, use_numba=use_numba)
        flag = any(issubclass(w.category, P.WindowOverlapWarning) for w in rec)
        if [int(x) for x in b.tolist()] != [w[0] for w in ws] or [int(x) for x in l.tolist()] != [w[1] for w in ws]:
            raise core.MachineryError('shrink_overlapping_windows modified its arguments')
        return flag, [(int(x), int(y)) for x, y in zip(nb.tolist(), nl.tolist())]

    lines, impl = [], []
    for c in cases:
        ws = c['ws']
        i_np = outcome(backend, P._shrink_overlapping_windows_numpy, ws)
        i_nb = outcome(backend, P._shrink_overlapping_windows_numba, ws)
        w_np = outcome(wrapper, False, ws)
        w_nb = outcome(wrapper, True, ws)
        if i_np[0] == 'error' and i_np[1].startswith('other:Machinery'):
            raise core.MachineryError('shrink wrapper modified arguments')
        impl.append((i_np, i_nb, w_np, w_nb))
        lines.append(sx(['c20', 'shrink', 'np', ws]))
        lines.append(sx(['c20', 'shrink', 'nb', ws]))
        lines.append(sx(['c20', 'judge-shrink', ws, [list(p) for p in i_np[1][1]] if i_np[0] == 'ok' else ws]))
        lines.append(sx(['c20', 'judge-shrink', ws, [list(p) for p in i_nb[1][1]] if i_nb[0] == 'ok' else ws]))
    ans = core.Lean.run(lines)
    for idx, (c, (i_np, i_nb, w_np, w_nb)) in enumerate(zip(cases, impl)):
        a = ans[4 * idx: 4 * idx + 4]
        conv = lambda x: (x[1] == 'true', [(int(p[0]), int(p[1])) for p in x[2]])
        m_np, m_nb = model_outcome(a[0], conv), model_outcome(a[1], conv)
        ws = c['ws']
        ctx.case(lines[4 * idx], nontrivial=len(ws) > 1)
        zero = any(w[1] == 0 for w in ws)
        ctx.count('shrink:%s:%s%s' % (label, i_nb[0] if i_nb[0] == 'error' else ('shrunk' if i_nb[1][0] else 'unchanged'),
                                      '+zero-length' if zero else ''))
        rep = {'kind': 'shrink', 'case': c}
        bad = False
        for name, o, j in (('_shrink_overlapping_windows_numpy', i_np, a[2]), ('_shrink_overlapping_windows_numba', i_nb, a[3])):
            if o[0] == 'ok' and verdict(j) != 'ok':
                bad = True
                _viol(ctx, '%s(%r) = %r: %s' % (name, ws[:12], o[1], verdict(j)),
                              dict(rep, function=name, impl=repr(o), judge=verdict(j)))
            if o[0] == 'error' and o[1] != 'value_error':
                bad = True
                _viol(ctx, '%s(%r) raised %s' % (name, ws[:12], o[1]), dict(rep, function=name, impl=repr(o)))
        if bad:
            continue
        if i_np != i_nb or w_np != i_np or w_nb != i_nb:
            _viol(ctx, 'shrink_overlapping_windows variants differ on windows (begin, length) %r: numpy %r, numba %r '
                          '(wrapper: use_numba=False %r, use_numba=True %r)' % (ws[:12], i_np, i_nb, w_np, w_nb),
                          dict(rep, impl_numpy=repr(i_np), impl_numba=repr(i_nb), wrapper_numpy=repr(w_np),
                               wrapper_numba=repr(w_nb),
                               note='PF-20 when the only difference is a zero-length window that overlaps nothing'))
            continue
        if i_np != m_np or i_nb != m_nb:
            ctx.drift('shrink_overlapping_windows vs QP.C20.shrinkNumpy/shrinkNumba', rep, repr((i_np, i_nb))[:300],
                      repr((m_np, m_nb))[:300])


# =============================================================================================
# 6. average_windows
# =============================================================================================

def in_class_pf23(ws) -> bool:
    """InKnownClassPF23: begins or ends are not in non-decreasing order"""
    b = [w[0] for w in ws]
    e = [w[1] for w in ws]
    return not (all(x <= y for x, y in zip(b, b[1:])) and all(x <= y for x, y in zip(e, e[1:])))


def gen_average_cases(rng, n):
    cases = []
    for _ in range(n):
        ns = rng.choice([0, 1, 2, 5, 8, 12, 20])
        dt = rng.choice([1.0, 0.5, 0.25, 2.0])
        t0 = rng.choice([0.0, 0.0, -2.0, 3.5])
        time = [t0 + k * dt for k in range(ns)]
        if ns > 2 and rng.random() < 0.2:          # repeated time stamps (non-decreasing)
            i = rng.randrange(1, ns)
            time[i] = time[i - 1]
        ncol = rng.choice([0, 0, 1, 2])
        if ncol == 0:
            values = [rng.randrange(-64, 65) / 4 for _i in range(ns)]
        else:
            values = [[rng.randrange(-64, 65) / 4 for _c in range(ncol)] for _i in range(ns)]
        m = rng.choice([0, 1, 2, 3, 4, 6, 9])
        kind = rng.random()
        ws = []
        span = ns * dt
        grid = dt / 2
        if kind < 0.6:
            # ordered by begin and by end: staggered / touching / overlapping / empty / outside
            b = t0 - 2 * dt
            e = b
            for _i in range(m):
                b = b + rng.choice([0, 0, 1, 2, 3, 5]) * grid
                e = max(e, b + rng.choice([-2, 0, 0, 1, 2, 3, 4, 8]) * grid) if rng.random() < 0.8 else e
                ws.append([b, e])
            ws = [[w[0], max(w[1], ws[i - 1][1] if i else w[1])] for i, w in enumerate(ws)]
        elif kind < 0.8:
            # nested / arbitrary but begin-sorted
            for _i in range(m):
                b = t0 + rng.randrange(-2, 2 * ns + 2) * grid
                ws.append([b, b + rng.randrange(-1, 10) * grid])
            ws.sort(key=lambda w: w[0])
        else:
            for _i in range(m):
                b = t0 + rng.randrange(-2, 2 * ns + 2) * grid
                ws.append([b, b + rng.randrange(-1, 10) * grid])
        cases.append({'time': time, 'values': values, 'ws': ws})
    return cases


def _avg_result(arr):
    a = np.asarray(arr, dtype=float)
    if a.ndim == 1:
        a = a[:, None]
    return [[None if math.isnan(x) else float(x) for x in col] for col in a.T.tolist()]


def check_average(ctx, cases, label='rnd'):
    U, P, B, W, TimeType = _imports()
    lines, impl, meta = [], [], []
    for c in cases:
        t = np.array(c['time'], dtype=float)
        v = np.array(c['values'], dtype=float)
        if v.ndim == 1 and len(c['values']) == 0:
            v = v.reshape((0,))
        if v.ndim == 2 and v.shape[0] == 0:
            v = v.reshape((0, 1))
        b = np.array([w[0] for w in c['ws']], dtype=float)
        e = np.array([w[1] for w in c['ws']], dtype=float)
        with warnings.catch_warnings():
            warnings.simplefilter('ignore')
            i_np = outcome(lambda: _avg_result(P._average_windows_numpy(t.copy(), v.copy(), b.copy(), e.copy())))
            i_nb = outcome(lambda: _avg_result(P._average_windows_numba(t.copy(), v.copy(), b.copy(), e.copy())))
            i_wr = outcome(lambda: _avg_result(P.average_windows(t.copy(), v.copy(), b.copy(), e.copy())))
        impl.append((i_np, i_nb, i_wr))
        cols = [c['values']] if (not c['values'] or not isinstance(c['values'][0], list)) else \
            [[row[k] for row in c['values']] for k in range(len(c['values'][0]))]
        meta.append(len(cols))
        ws = [[fr(w[0]), fr(w[1])] for w in c['ws']]
        for col in cols:
            for variant in ('np', 'nb'):
                lines.append(sx(['c20', 'average', variant, [fr(x) for x in c['time']], [fr(x) for x in col], ws]))
    ans = core.Lean.run(lines)
    pos = 0
    for c, (i_np, i_nb, i_wr), ncol in zip(cases, impl, meta):
        a = ans[pos: pos + 2 * ncol]
        line = lines[pos]
        pos += 2 * ncol

        def conv(x):
            return [None if t == 'none' else float(as_frac(t)) for t in x[1]]
        m_np = [conv(a[2 * k]) for k in range(ncol)]
        m_nb = [conv(a[2 * k + 1]) for k in range(ncol)]
        cls = a[0][2] == 'in-class-PF-23'
        if cls != in_class_pf23(c['ws']):
            raise core.MachineryError('class predicate of PF-23 differs between harness and Lean')
        ctx.case(line, nontrivial=len(c['ws']) > 0 and len(c['time']) > 0)
        ctx.count('average:%s:%s' % (label, 'in-class-PF-23' if cls else 'ordered-windows'))
        rep = {'kind': 'average', 'case': c}
        if i_np[0] != 'ok' or i_nb[0] != 'ok' or i_wr[0] != 'ok':
            _viol(ctx, 'average_windows raised: %r %r %r' % (i_np, i_nb, i_wr), dict(rep, impl=repr((i_np, i_nb, i_wr))[:400]))
            continue
        if i_np[1] != i_nb[1]:
            if cls and any(k.get('finding') == 'PF-23' for k in ctx.findings.for_property('C20')):
                ctx.count('average:PF-23-reproduced')
                ctx.known_finding('PF-23', '_average_windows_numba differs from _average_windows_numpy for windows that '
                                           'are not ordered by begin and by end (nested or unsorted windows)')
            else:
                _viol(ctx, 'average_windows variants differ for windows ordered by begin and end: time=%r values=%r '
                              'windows=%r: numpy %r, numba %r' % (c['time'][:12], c['values'][:12], c['ws'], i_np[1], i_nb[1]),
                              dict(rep, impl_numpy=repr(i_np), impl_numba=repr(i_nb)))
                continue
        if i_wr[1] != i_np[1] and i_wr[1] != i_nb[1]:
            _viol(ctx, 'average_windows differs from both variants', dict(rep, impl=repr(i_wr)))
            continue
        if i_np[1] != m_np or i_nb[1] != m_nb:
            if i_np[1] != m_np and not cls:
                pass
            ctx.drift('average_windows vs QP.C20.averageNumpy/averageNumba', rep, repr((i_np[1], i_nb[1]))[:300],
                      repr((m_np, m_nb))[:300])


def check_average_malformed(ctx):
    U, P, B, W, TimeType = _imports()
    t = np.arange(4.0)
    for v, b, e in ((np.arange(3.0), np.array([0.]), np.array([1.])),
                    (np.arange(4.0), np.array([0., 1.]), np.array([1.]))):
        ctx.case('average-malformed-%d-%d-%d' % (len(v), len(b), len(e)), nontrivial=False)
        o = outcome(lambda: P.average_windows(t, v, b, e))
        if o != ('error', 'assertion'):
            _viol(ctx, 'average_windows accepted mismatching shapes: %r' % (o,), {'kind': 'average-malformed'})


# =============================================================================================
# fingerprints, search, run, replay
# =============================================================================================

MODELLED = [
    ('qupulse.hardware.util', '_voltage_to_uint16_numba'), ('qupulse.hardware.util', '_voltage_to_uint16_numpy'),
    ('qupulse.hardware.util', 'voltage_to_uint16'), ('qupulse.hardware.util', 'get_waveform_length'),
    ('qupulse.hardware.util', 'get_sample_times'), ('qupulse.hardware.util', 'not_none_indices'),
    ('qupulse.utils.performance', '_shrink_overlapping_windows_numpy'),
    ('qupulse.utils.performance', '_shrink_overlapping_windows_numba'),
    ('qupulse.utils.performance', '_time_windows_to_samples_numba'),
    ('qupulse.utils.performance', '_time_windows_to_samples_sorted_numba'),
    ('qupulse.utils.performance', '_time_windows_to_samples_numpy'),
    ('qupulse.utils.performance', '_average_windows_numba'), ('qupulse.utils.performance', '_average_windows_numpy'),
]
# normalised-AST fingerprints of the modelled functions (with fixes/PF-20.diff applied); a mismatch
# only escalates the quick run to thorough bounds, it is never a verdict
FINGERPRINTS_FILE = os.path.join(core.VERIF, 'harness', 'c20_fingerprints.json')


def fingerprints():
    import importlib
    out = {}
    for mod, name in MODELLED:
        try:
            fn = getattr(importlib.import_module(mod), name)
            tree = ast.parse(inspect.getsource(fn))
            for node in ast.walk(tree):            # drop docstrings
                if isinstance(node, (ast.FunctionDef,)) and node.body and isinstance(node.body[0], ast.Expr) \
                        and isinstance(getattr(node.body[0], 'value', None), ast.Constant) \
                        and isinstance(node.body[0].value.value, str):
                    node.body = node.body[1:] or [ast.Pass()]
            out['%s.%s' % (mod, name)] = hashlib.sha256(ast.dump(tree).encode()).hexdigest()[:16]
        except Exception as e:  # noqa
            out['%s.%s' % (mod, name)] = 'unavailable:' + type(e).__name__
    try:
        from qupulse.hardware.awgs.base import ProgramEntry
        tree = ast.parse(inspect.getsource(ProgramEntry._sample_waveforms).lstrip())
        out['ProgramEntry._sample_waveforms'] = hashlib.sha256(ast.dump(tree).encode()).hexdigest()[:16]
    except Exception as e:  # noqa
        out['ProgramEntry._sample_waveforms'] = 'unavailable:' + type(e).__name__
    return out


FAMILIES = ('code', 'times', 'sample', 'w2s', 'shrink', 'average')


def run_family(ctx, fam, scale, tag=''):
    """scale multiplies the number of random cases (1 = quick budget)"""
    if fam == 'code':
        check_code(ctx, gen_code_cases(ctx.fork('code' + tag), int(1600 * scale)), 'code')
        check_code_malformed(ctx)
    elif fam == 'times':
        check_times(ctx, gen_times_cases(ctx.fork('times' + tag), int(600 * scale)))
    elif fam == 'sample':
        check_sample(ctx, gen_sample_cases(ctx.fork('sample' + tag), int(500 * scale)))
    elif fam == 'w2s':
        check_w2s(ctx, gen_w2s_cases(ctx.fork('w2s' + tag), int(1500 * scale)))
    elif fam == 'shrink':
        check_shrink(ctx, gen_shrink_cases(ctx.fork('shrink' + tag), int(2500 * scale)), 'rnd')
    elif fam == 'average':
        check_average(ctx, gen_average_cases(ctx.fork('average' + tag), int(2000 * scale)))
        check_average_malformed(ctx)


def run(ctx: core.Ctx):
    ctx.rule = (
        'voltage_to_uint16: boundary lattice for every resolution 1..16 (code centres, exact half steps and '
        'eighths of a step with amplitude (2^r-1)*2^k so that the step is dyadic, range ends, one eighth outside) + '
        'random arrays with power-of-two amplitude (exact) + arbitrary floats (toleranced); get_sample_times: '
        'lists of durations k/rate, off-grid, at and around the 1e-10 tolerance, zero, empty list; '
        '_sample_waveforms: a minimal ProgramEntry subclass on Constant/Table/Function/MultiChannel waveforms '
        'with None channels, markers, channel and marker ids that are strings, integers incl. 0 and the empty string '
        '(ChannelID = str | int; falsy ids are assigned outputs), transformations None/affine/abs/square, hold/jump steps and marker edges exactly on '
        'sample points k/rate for rates 3, 6, 7, 9, 5, 3/10, 7/10, 7/3, 10/3 (preferring the k where k*(1/rate) != k/rate), '
        'missing channels and '
        'non-integral lengths as malformed stream; time_windows_to_samples: arrays of 0..40 windows sorted / '
        'reversed / unsorted with equal begins, begins at exact half samples, lengths at whole samples and 1/64 below; '
        'shrink_overlapping_windows: every list of <=3 windows with begin<=4, length<=3 (exhaustive) + random lists up to 40 '
        '(disjoint, touching, overlapping, zero-length, unsorted); average_windows: sorted time arrays (1-D and 2-D values), '
        'windows ordered / nested / unsorted / empty / outside. Every implementation output is judged by the executable '
        'Lean spec; both variants of every routine are compared with each other and with their own model. '
        'Non-trivial = non-empty array / more than one window / successful sampling; distinct by canonical line.')
    ctx.assumptions = [
        'IEEE-754 double arithmetic: exact-stream inputs are chosen so that every float operation of the code is exact; '
        'on the toleranced stream a code (sample index) may be either neighbour only when the exact value is within '
        '2^-40 relative of a half-integer (integer), a voltage within 2^-40*amplitude of the range end may go either way',
        'the code step 2*amp/(2^r-1) has an odd denominator: exact ties occur in floats only at the mid-point and for '
        'amplitudes (2^r-1)*2^k; round-half-even is checked on exactly those inputs',
        'numpy.argsort does not specify the order of equal keys: windows with equal begin are compared as a multiset',
        'numpy.searchsorted on a non-decreasing array returns the index of the first element >= x (modelled, not verified)',
        'windows are non-negative and below 2^63, resolution <= 16 (the uint16 cast is the identity there, proved: '
        'codeOf_eq); negative windows / resolution > 16 are outside the modelled domain',
        'float division and Fraction->float conversion are correctly rounded (used to compare averages)',
        'the float specification of the sample grid is the correctly rounded quotient float(k)/float(rate) (one IEEE '
        'division), compared bit for bit: a grid point one ulp below k/rate delays a step lying on that sample point',
        'voltage_to_uint16 is judged as a function of the voltages: caller array unchanged, same outcome for a second '
        'conversion of the same array and for a read-only array',
    ]
    fp = fingerprints()
    ctx.extra['fingerprints'] = fp
    escalate = False
    if os.path.exists(FINGERPRINTS_FILE):
        known = json.load(open(FINGERPRINTS_FILE))
        changed = sorted(k for k in fp if known.get(k) != fp[k])
        ctx.extra['fingerprints_changed'] = changed
        escalate = bool(changed)
    scale = 1.0 if ctx.quick else 25.0
    if ctx.quick and escalate:
        scale = 2.0
    for rec in ctx.corpus():
        replay(ctx, rec, from_corpus=True)
        ctx.corpus_replayed += 1
    bound = (3, 4, 3) if ctx.quick else (4, 4, 3)
    ex = list(gen_shrink_exhaustive(*bound))
    ctx.exhaustive_spaces.append('shrink_overlapping_windows: all lists of <=%d windows with begin<=%d, length<=%d (%d lists)'
                                 % (bound + (len(ex),)))
    for i in range(0, len(ex), 20000):
        check_shrink(ctx, ex[i:i + 20000], 'exh')
    max_r = 6 if ctx.quick else 9
    ctx.exhaustive_spaces.append('voltage_to_uint16: every voltage on the 1/8-step grid over the whole range (and one eighth '
                                 'outside either end) for resolutions 1..%d, amplitude 2^r-1, offset 1/2' % max_r)
    check_code(ctx, list(gen_code_exhaustive(max_r)), 'exh')
    for fam in FAMILIES:
        run_family(ctx, fam, scale)
    # failing-input search: more boundary and random cases of the families that drifted, judged on the
    # implementation's output (every check_* judges each case)
    if ctx.drifts and not any(v['found_input'] for v in ctx.violations):
        fams = sorted({d['case'].get('kind') for d in ctx.drifts if isinstance(d['case'], dict)})
        ctx.extra['search_families'] = fams
        for fam in fams:
            if fam in FAMILIES:
                run_family(ctx, fam, 4.0 if ctx.quick else 10.0, tag='/search')
    _known(ctx)


def _known(ctx):
    """open findings: replay the recorded witness, print the KNOWN-FINDING line if it still reproduces"""
    for kf in ctx.findings.for_property('C20'):
        if kf.get('finding') == 'PF-23':
            check_average(ctx, [kf['witness']], label='known')


def replay(ctx: core.Ctx, rec: dict, from_corpus: bool = False) -> bool:
    kind = rec.get('kind')
    case = rec.get('case')
    before = len(ctx.violations)
    if kind == 'code':
        check_code(ctx, [case], 'replay')
    elif kind == 'code-resolution':
        check_code_malformed(ctx)
    elif kind == 'times':
        check_times(ctx, [case])
    elif kind == 'sample':
        check_sample(ctx, [case])
    elif kind == 'w2s':
        check_w2s(ctx, [case])
    elif kind == 'shrink':
        check_shrink(ctx, [case], 'replay')
    elif kind == 'average':
        check_average(ctx, [case], label='replay')
    elif kind == 'average-malformed':
        check_average_malformed(ctx)
    elif rec.get('broken'):
        print('replay file names a broken correspondence, not an input: %s' % rec.get('broken'))
        return False
    else:
        raise core.MachineryError('unknown replay record kind %r' % (kind,))
    if not from_corpus and ctx.drifts:
        print('model and implementation differ on this input (no property violation): %r' % ctx.drifts[0]['correspondence'])
    return len(ctx.violations) == before
