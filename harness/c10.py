"""C10 — stored pulse templates load back as the same pulse.

Correspondence: random template forests over all serialisable pulse-template classes (real classes,
identifiers on random node subsets, named objects shared by several parents) are stored through a
real `PulseStorage` over a `DictBackend` / `FilesystemBackend` / `ZipFileBackend` in a random order and
loaded through *fresh* storages. The same forests travel (with opaque data) to the Lean model
`QP.C10`, whose `storeAll` is proved to write exactly one document per named node, children first,
all references resolving, independent of the order (`QP.Props.C10`).

* judge (property level, on the implementation's output): stored identifier set and reference graph
  equal the model's (= the proved spec), every document parses on its own, no named sub-template is
  embedded, the fresh storage loads everything, `loaded == original`, same parameter / channel /
  measurement names and duration, identical sampled programs and measurement windows (or the same
  exception class) for random parameter assignments, one object per identifier (`is`).
* model vs implementation (drift level): the model's loader on the implementation's documents builds
  the tree the implementation builds and deserialises the same identifiers; error classes on a
  malformed stream.
* structural agreement only (recorded, never an alarm): which optional keys each document contains,
  the order of the `put`s.
"""
from __future__ import annotations

import json
import os
import random
import shutil
import tempfile
import traceback
import warnings
from typing import Any, Dict, List, Optional, Tuple

import core
from core import sx

import c10gen

LIST_KEYS = {'measurements', 'parameter_constraints'}
MAP_KEYS = {'channel_mapping', 'measurement_mapping', 'parameter_mapping'}
FUEL = 400


def _q():
    import numpy
    import sympy
    from qupulse import serialization as S
    from qupulse import pulses as P
    from qupulse.pulses.pulse_template import PulseTemplate
    from qupulse.expressions import Expression
    return locals()


TAGS = {
    'TablePulseTemplate': 'table', 'PointPulseTemplate': 'point', 'FunctionPulseTemplate': 'func',
    'ConstantPulseTemplate': 'const', 'SequencePulseTemplate': 'seq', 'RepetitionPulseTemplate': 'rep',
    'ForLoopPulseTemplate': 'forloop', 'MappingPulseTemplate': 'mapping',
    'AtomicMultiChannelPulseTemplate': 'amc', 'ParallelChannelPulseTemplate': 'par',
    'ArithmeticAtomicPulseTemplate': 'arithatomic', 'ArithmeticPulseTemplate': 'arith',
    'TimeReversalPulseTemplate': 'timerev', 'AbstractPulseTemplate': 'abstract',
}
TYPE_TAGS = {
    'qupulse.pulses.table_pulse_template.TablePulseTemplate': 'table',
    'qupulse.pulses.point_pulse_template.PointPulseTemplate': 'point',
    'qupulse.pulses.function_pulse_template.FunctionPulseTemplate': 'func',
    'qupulse.pulses.constant_pulse_template.ConstantPulseTemplate': 'const',
    'qupulse.pulses.sequence_pulse_template.SequencePulseTemplate': 'seq',
    'qupulse.pulses.repetition_pulse_template.RepetitionPulseTemplate': 'rep',
    'qupulse.pulses.loop_pulse_template.ForLoopPulseTemplate': 'forloop',
    'qupulse.pulses.mapping_pulse_template.MappingPulseTemplate': 'mapping',
    'qupulse.pulses.multi_channel_pulse_template.AtomicMultiChannelPulseTemplate': 'amc',
    'qupulse.pulses.multi_channel_pulse_template.ParallelChannelPulseTemplate': 'par',
    'qupulse.pulses.arithmetic_pulse_template.ArithmeticAtomicPulseTemplate': 'arithatomic',
    'qupulse.pulses.arithmetic_pulse_template.ArithmeticPulseTemplate': 'arith',
    'qupulse.pulses.time_reversal_pulse_template.TimeReversalPulseTemplate': 'timerev',
    'qupulse.pulses.abstract_pulse_template.AbstractPulseTemplate': 'abstract',
}


# ------------------------------------------------------------------------------------------------
# template objects -> the model's trees (attributes read from the objects, not from get_serialization_data)
# ------------------------------------------------------------------------------------------------

class Tok:
    """identifiers <-> transportable tokens"""

    def __init__(self):
        self.fwd: Dict[str, str] = {}
        self.back: Dict[str, str] = {}

    def __call__(self, ident: str) -> str:
        if ident not in self.fwd:
            t = 'i%d' % len(self.fwd)
            self.fwd[ident] = t
            self.back[t] = ident
        return self.fwd[ident]


def attributes(pt) -> Tuple[str, List[Tuple[str, str, Any]]]:
    """(class tag, [(shape, key, value)…]) in the model's schema order; shape: d(ata) / c(hild) / cs"""
    Q = _q()
    PT = Q['PulseTemplate']
    tag = TAGS.get(type(pt).__name__)
    if tag is None:
        raise core.MachineryError('unknown pulse template class %s' % type(pt).__name__)
    meas = lambda: ('d', 'measurements', list(pt.measurement_declarations))
    cons = lambda: ('d', 'parameter_constraints', list(pt.parameter_constraints))
    if tag == 'table':
        return tag, [('d', 'consistency_check', bool(getattr(pt, '_consistency_check', True))),
                     ('d', 'entries', pt.entries), meas(), cons()]
    if tag == 'point':
        return tag, [('d', 'channel_names', pt._channels), meas(), cons(),
                     ('d', 'time_point_tuple_list', pt.point_pulse_entries)]
    if tag == 'func':
        return tag, [('d', 'channel', sorted(pt.defined_channels, key=str)), ('d', 'duration_expression', pt.duration),
                     ('d', 'expression', pt.expression), meas(), cons()]
    if tag == 'const':
        return tag, [('d', 'amplitude_dict', pt._amplitude_dict), ('d', 'duration', pt._duration), meas(),
                     ('d', 'name', pt._name)]
    if tag == 'seq':
        return tag, [meas(), cons(), ('cs', 'subtemplates', list(pt.subtemplates))]
    if tag == 'rep':
        return tag, [('c', 'body', pt.body), meas(), cons(), ('d', 'repetition_count', pt.repetition_count)]
    if tag == 'forloop':
        return tag, [('c', 'body', pt.body), ('d', 'loop_index', pt.loop_index), ('d', 'loop_range', pt.loop_range),
                     meas(), cons()]
    if tag == 'mapping':
        return tag, [('d', 'channel_mapping', dict(pt.channel_mapping)),
                     ('d', 'measurement_mapping', dict(pt.measurement_mapping)), cons(),
                     ('d', 'parameter_mapping', dict(pt.parameter_mapping)), ('c', 'template', pt.template)]
    if tag == 'amc':
        items = []
        if pt._duration is not None:
            items.append(('d', 'duration', pt._duration))
        return tag, items + [meas(), cons(), ('cs', 'subtemplates', list(pt.subtemplates))]
    if tag == 'par':
        return tag, [('d', 'overwritten_channels', dict(pt.overwritten_channels)), ('c', 'template', pt.template)]
    if tag == 'arithatomic':
        return tag, [('d', 'arithmetic_operator', pt.arithmetic_operator), ('c', 'lhs', pt.lhs), meas(),
                     ('c', 'rhs', pt.rhs)]
    if tag == 'arith':
        side = lambda k, v: ('c', k, v) if isinstance(v, PT) else ('d', k, v)
        return tag, [('d', 'arithmetic_operator', pt._arithmetic_operator), side('lhs', pt.lhs), side('rhs', pt.rhs)]
    if tag == 'timerev':
        return tag, [('c', 'inner', pt._inner)]
    return tag, [('d', k, pt._declared_properties[k]) for k in sorted(pt._declared_properties)]


def data_sx(key: str, value: Any) -> str:
    """data is opaque to the model except for emptiness of list / mapping valued optional attributes"""
    if key in LIST_KEYS:
        return '(arr%s)' % (' (a x)' * len(value))        # (the length is kept: it tells versions of a template apart)
    if key in MAP_KEYS:
        return '(obj (x (a x)))' if len(value) else '(obj)'
    if key == 'consistency_check':
        return '(a true)' if value else '(a false)'
    return '(a x)'


def tree_sx(pt, tok: Tok, memo: Optional[dict] = None) -> str:
    memo = {} if memo is None else memo
    if id(pt) in memo:
        return memo[id(pt)]
    tag, items = attributes(pt)
    parts = []
    for shape, key, value in items:
        if shape == 'd':
            parts.append('(d %s %s)' % (key, data_sx(key, value)))
        elif shape == 'c':
            parts.append('(c %s %s)' % (key, tree_sx(value, tok, memo)))
        else:
            parts.append('(cs %s %s)' % (key, ' '.join(tree_sx(v, tok, memo) for v in value)))
    ident = pt.identifier
    s = '(n %s %s (%s))' % (tag, tok(ident) if ident else '-', ' '.join(parts))
    memo[id(pt)] = s
    return s


def children(pt) -> list:
    out = []
    for shape, _k, v in attributes(pt)[1]:
        if shape == 'c':
            out.append(v)
        elif shape == 'cs':
            out.extend(v)
    return out


def walk(pt, seen: Optional[dict] = None) -> list:
    """all distinct template objects of a tree, children first"""
    seen = {} if seen is None else seen
    if id(pt) in seen:
        return []
    seen[id(pt)] = pt
    out = []
    for c in children(pt):
        out.extend(walk(c, seen))
    out.append(pt)
    return out


def occurrences(pt) -> list:
    """every occurrence (with repetition) of a template object in a tree"""
    out = [pt]
    for c in children(pt):
        out.extend(occurrences(c))
    return out


# ------------------------------------------------------------------------------------------------
# documents written by the implementation -> the model's JSON
# ------------------------------------------------------------------------------------------------

def is_typed(v) -> bool:
    return isinstance(v, dict) and '#type' in v


def doc_sx(v: Any, tok: Tok, key: str = '') -> str:
    if is_typed(v):
        parts = []
        for k in sorted(v):
            if k == '#type':
                parts.append('(#type (s %s))' % (v[k] if isinstance(v[k], str) and v[k] and ' ' not in v[k] else 'BAD'))
            elif k == '#identifier':
                parts.append('(#identifier (s %s))' % tok(v[k])) if isinstance(v[k], str) else parts.append(
                    '(#identifier (a x))')
            else:
                parts.append('(%s %s)' % (k, doc_sx(v[k], tok, k)))
        return '(obj %s)' % ' '.join(parts)
    if isinstance(v, list) and v and all(is_typed(x) for x in v):
        return '(arr %s)' % ' '.join(doc_sx(x, tok) for x in v)
    try:
        return data_sx(key, v)
    except TypeError:
        return '(a x)'


def doc_shape(v: Any, key: str = ''):
    """key structure of a document: which keys, references, embedded objects, emptiness of optional data"""
    if is_typed(v):
        if v.get('#type') == 'reference':
            return ('ref', v.get('#identifier'))
        return ('obj', v.get('#type'), v.get('#identifier'),
                tuple(sorted((k, doc_shape(x, k)) for k, x in v.items() if k not in ('#type', '#identifier'))))
    if isinstance(v, list) and v and all(is_typed(x) for x in v):
        return ('list', tuple(doc_shape(x) for x in v))
    if key in LIST_KEYS | MAP_KEYS:
        return ('data', bool(len(v)))
    if key == 'consistency_check':
        return ('data', bool(v))
    return ('data',)


def model_doc_shape(s: Any, tok: Tok):
    """the same shape from the model's answer (parsed S-expression)"""
    def go(j, key=''):
        if j[0] == 'obj':
            kv = {e[0]: e[1] for e in j[1:]}
            if '#type' in kv:
                ty = kv['#type'][1]
                ident = tok.back.get(kv['#identifier'][1]) if '#identifier' in kv else None
                if ty == 'reference':
                    return ('ref', ident)
                return ('obj', ty, ident, tuple(sorted((k, go(x, k)) for k, x in kv.items()
                                                       if k not in ('#type', '#identifier'))))
            return ('data', bool(len(j) > 1)) if key in LIST_KEYS | MAP_KEYS else ('data',)
        if j[0] == 'arr':
            xs = j[1:]
            if xs and all(x[0] == 'obj' and any(e[0] == '#type' for e in x[1:]) for x in xs):
                return ('list', tuple(go(x) for x in xs))
            return ('data', bool(xs)) if key in LIST_KEYS | MAP_KEYS else ('data',)
        if key == 'consistency_check':
            return ('data', j[1] == 'true')
        return ('data', j[1] != 'x') if key in LIST_KEYS | MAP_KEYS else ('data',)
    return go(s)


def doc_refs(v: Any) -> List[str]:
    out = []
    if isinstance(v, dict):
        if v.get('#type') == 'reference':
            return [v.get('#identifier')]
        for k in sorted(v):
            out.extend(doc_refs(v[k]))
    elif isinstance(v, list):
        for x in v:
            out.extend(doc_refs(x))
    return out


def embedded_named(v: Any, top: bool = True) -> List[str]:
    """identifiers of named objects embedded (not referenced) below the top level of a document"""
    out = []
    if isinstance(v, dict):
        if not top and '#type' in v and v['#type'] != 'reference' and v.get('#identifier'):
            out.append(v['#identifier'])
        for x in v.values():
            out.extend(embedded_named(x, False))
    elif isinstance(v, list):
        for x in v:
            out.extend(embedded_named(x, False))
    return out


# ------------------------------------------------------------------------------------------------
# backends
# ------------------------------------------------------------------------------------------------

class Backends:
    def __init__(self, kind: str):
        self.kind = kind
        self.S = _q()['S']
        self.dir = tempfile.mkdtemp(prefix='c10-') if kind in ('fs', 'zip') else None
        self.dict_backend = self.S.DictBackend() if kind in ('dict', 'caching') else None

    def open(self):
        """a backend object over the same storage (a new object for the persistent ones)"""
        if self.kind == 'dict':
            return self.dict_backend
        if self.kind == 'caching':
            with warnings.catch_warnings():
                warnings.simplefilter('ignore')
                return self.S.CachingBackend(self.dict_backend)      # a new cache over the same storage
        if self.kind == 'fs':
            return self.S.FilesystemBackend(self.dir)
        return self.S.ZipFileBackend(os.path.join(self.dir, 'store.zip'))

    def close(self):
        if self.dir:
            shutil.rmtree(self.dir, ignore_errors=True)


def recording(backend, log: list):
    orig = backend.put

    def put(identifier, data, overwrite=False):
        log.append(identifier)
        return orig(identifier, data, overwrite)
    backend.put = put
    return backend


# ------------------------------------------------------------------------------------------------
# behavioural observables
# ------------------------------------------------------------------------------------------------

def guarded(fn, seconds: int = 10):
    """outcome(fn) with a wall-clock limit; ('timeout', None) when it is exceeded"""
    import signal
    old = signal.signal(signal.SIGALRM, _alarm)
    signal.alarm(seconds)
    try:
        return outcome(fn)
    except _Timeout:
        return ('timeout', None)
    finally:
        signal.alarm(0)
        signal.signal(signal.SIGALRM, old)


class _Timeout(BaseException):
    pass


def _alarm(_sig, _frm):
    raise _Timeout()


def outcome(fn):
    try:
        return ('ok', fn())
    except RecursionError:
        return ('exc', 'RecursionError')
    except Exception as e:  # noqa
        return ('exc', type(e).__name__)


def play(loop, budget: List[int]):
    """the unrolled sequence of played waveforms"""
    if loop.is_leaf():
        for _ in range(loop.repetition_count):
            budget[0] -= 1
            if budget[0] < 0:
                return
            yield loop.waveform
    else:
        for _ in range(loop.repetition_count):
            for c in loop:
                yield from play(c, budget)
            if budget[0] < 0:
                return


def program_observables(pt, params: dict):
    """(sampled output, measurement windows) of the instantiated program, exactly"""
    np = _q()['numpy']
    prog = pt.create_program(parameters=dict(params))
    if prog is None:
        return None
    samples = []
    for wf in play(prog, [200]):
        dur = float(wf.duration)
        times = np.array([0.0, dur / 4, dur / 2, dur * 3 / 4])
        row = [(int(wf.duration.numerator), int(wf.duration.denominator))]
        for ch in sorted(wf.defined_channels, key=str):
            row.append((str(ch), tuple(float(x) for x in wf.get_sampled(ch, times))))
        samples.append(tuple(row))
    windows = {}
    for name, (begins, lengths) in prog.get_measurement_windows().items():
        windows[name] = (tuple(float(b) for b in begins), tuple(float(l) for l in lengths))
    return (tuple(samples), tuple(sorted(windows.items())),
            (int(prog.duration.numerator), int(prog.duration.denominator)))


def same(a, b) -> bool:
    """exact equality with NaN == NaN (both sides come from the same code on equal inputs)"""
    if isinstance(a, float) and isinstance(b, float):
        return a == b or (a != a and b != b)
    if isinstance(a, (tuple, list)) and isinstance(b, (tuple, list)):
        return len(a) == len(b) and all(same(x, y) for x, y in zip(a, b))
    return a == b


def static_observables(pt):
    return {
        'parameter_names': outcome(lambda: tuple(sorted(pt.parameter_names))),
        'defined_channels': outcome(lambda: tuple(sorted(pt.defined_channels, key=repr))),
        'measurement_names': outcome(lambda: tuple(sorted(pt.measurement_names))),
        # the declared integral of an abstract template ("raises NotSpecifiedError" is an outcome of its own)
        'integral': outcome(lambda: tuple(sorted((str(k), str(v)) for k, v in pt.integral.items())))
        if type(pt).__name__ == 'AbstractPulseTemplate' else ('skipped', None),
    }


def duration_equal(a, b) -> bool:
    da, db = outcome(lambda: a.duration), outcome(lambda: b.duration)
    if da[0] != db[0]:
        return False
    if da[0] == 'exc':
        return da[1] == db[1]
    try:
        return bool(da[1] == db[1])
    except Exception:  # noqa
        return str(da[1]) == str(db[1])


# ------------------------------------------------------------------------------------------------
# known-finding classes (open findings; see known_findings.jsonl)
# ------------------------------------------------------------------------------------------------

def _expressions(value, out: list):
    Q = _q()
    if isinstance(value, Q['Expression']):
        out.append(value)
    elif isinstance(value, dict):
        for k, v in value.items():
            _expressions(v, out)
    elif isinstance(value, (list, tuple, set, frozenset)):
        for v in value:
            _expressions(v, out)
    elif hasattr(value, 'start') and hasattr(value, 'stop') and hasattr(value, 'step') and not isinstance(value, range):
        _expressions([value.start, value.stop, value.step], out)


def in_class_derived_float(pt) -> bool:
    """PF-C10b: an expression attribute whose exact sympy value cannot be written down by the serialiser:
    (1) it has no original string (built from a sympy expression: flattening of a nested anonymous MappingPT,
        Expression arithmetic), has free symbols, and sympy's str() of it does not parse back to the same
        expression (a Float needing more than 15 significant digits), or
    (2) it is stored as its value (constant expression, or no original string) and contains a Float of other
        than 53 bit precision (a decimal literal with more than 15 significant digits) - a Python float cannot
        carry it."""
    sympy = _q()['sympy']
    for node in walk(pt):
        exprs: list = []
        for shape, _k, v in attributes(node)[1]:
            if shape == 'd':
                _expressions(v, exprs)
        for e in exprs:
            try:
                se = e.underlying_expression
                floats = se.atoms(sympy.Float) if hasattr(se, 'atoms') else set()
                if not floats:
                    continue
                derived = getattr(e, '_original_expression', 0) is None
                if (derived or not se.free_symbols) and any(f._prec != 53 for f in floats):
                    return True
                if derived and se.free_symbols and sympy.sympify(str(se)) != se:
                    return True
            except Exception:  # noqa
                return True
    return False


def in_class_int_channel(pt) -> bool:
    """PF-C10c: a channel identifier that is not a string is used as a dictionary key (JSON object keys are strings)."""
    for node in walk(pt):
        tag, items = attributes(node)
        for shape, k, v in items:
            if shape == 'd' and isinstance(v, dict) and k in ('entries', 'amplitude_dict', 'overwritten_channels',
                                                              'channel_mapping', 'integral', 'lhs', 'rhs'):
                if any(not isinstance(c, str) for c in v):
                    return True
    return False


KNOWN_CLASSES = {'PF-C10b': in_class_derived_float, 'PF-C10c': in_class_int_channel}


# ------------------------------------------------------------------------------------------------
# one case
# ------------------------------------------------------------------------------------------------

class Case:
    """a forest, a store order, a backend kind; built deterministically from (seed, opts)"""

    def __init__(self, seed: int, opts: dict):
        self.seed = seed
        self.opts = dict(opts)
        rng = random.Random(seed)
        gopts = {k: v for k, v in opts.items() if k in ('p_named', 'p_share', 'weird_ids', 'floats', 'allow_abstract',
                                                        'classes', 'amc_duration', 'nested_mapping')}
        self.gen = c10gen.Gen(rng, **gopts)
        self.rng = rng
        with warnings.catch_warnings():
            warnings.simplefilter('ignore')
            # channel names: ordinary ones and digit-only STRINGS ('1' is a name, not the integer 1), also mixed
            channels = opts.get('channels') or rng.choice([['A'], ['A', 'B'], ['A', 'B', 'C'], ['1'], ['A', '2'],
                                                           ['0', '1', '12'], ['1', '2']])
            self.roots = self.gen.forest(opts.get('roots') or rng.randrange(1, 4), opts.get('depth', 3), channels)
        self.finish(opts.get('backend') or rng.choice(['dict', 'fs', 'zip', 'fs', 'zip', 'caching']))

    def finish(self, backend: str):
        rng = self.rng
        self.backend = backend
        seen: dict = {}
        self.nodes = []
        for r in self.roots:
            self.nodes.extend(walk(r, seen))
        self.named = [n for n in self.nodes if n.identifier]
        # explicit stores: all roots plus a random subset of the other named nodes, in random order
        extra = [n for n in self.named if all(n is not r for r in self.roots) and rng.random() < 0.3]
        self.order = self.roots + extra
        rng.shuffle(self.order)
        self.load_order = list(self.named)
        rng.shuffle(self.load_order)
        names = set(self.gen.all_parameters())
        for r in self.roots:
            names |= set(outcome(lambda: r.parameter_names)[1]) if outcome(lambda: r.parameter_names)[0] == 'ok' else set()
        self.assign = c10gen.assignments(rng, names, self.opts.get('assignments', 2))
        self.assign += c10gen.assignments(rng, names, 1, violate=True)
        self.canonical = None


class Built(Case):
    """a hand-built case (corpus witnesses, targeted enumeration)"""

    def __init__(self, roots, backend='dict', assign=None, order=None, origin=None):
        self.origin = origin
        self.seed = 0
        self.opts = {}
        self.rng = random.Random(0)
        self.gen = c10gen.Gen(self.rng)
        self.roots = list(roots)
        self.finish(backend)
        if order is not None:
            self.order = list(order)
        if assign is not None:
            self.assign = assign
        self.load_order = list(self.named)


PRELUDES = ['wrong-key', 'clash-child', 'backend-only', 'timetype', 'nested-timetype']


class AfterFailure(Case):
    """a random forest stored on a PulseStorage on which a store has been rejected / has failed mid-transaction
    before: everything whose store returned normally must load through a fresh storage; the failed store must leave
    no trace (its already collected named sub-template 'zq' is not written)."""

    def __init__(self, seed: int, opts: dict, prelude: str):
        super().__init__(seed, dict(opts))
        P = _q()['P']
        import numpy
        from qupulse.utils.types import TimeType
        self.prelude = prelude
        x1 = P.ConstantPT(1, {'A': 'v0'}, identifier='zz')
        x2 = P.ConstantPT(2, {'A': 1}, identifier='zz', measurements=[('m', 0, 1)])
        ok = P.ConstantPT(1, {'A': 1}, identifier='zq')
        pre, self.pre_other, self.must_raise = [], [], True
        with warnings.catch_warnings():
            warnings.simplefilter('ignore')
            if prelude == 'wrong-key':
                self.failing = ('zp', x1)
            elif prelude == 'clash-child':
                pre = [x1]
                self.failing = ('zp', P.SequencePT(ok, x2, identifier='zp'))
            elif prelude == 'backend-only':
                pre = [x1]
                self.pre_other = [x1]
                self.failing = ('zp', P.SequencePT(ok, x2, identifier='zp'))
            elif prelude == 'timetype':
                self.must_raise = False      # (PF-C10f: would be a valid store once that finding is repaired)
                self.failing = ('zp', P.ConstantPT(TimeType.from_fraction(3, 2), {'A': 1}, identifier='zp'))
            elif prelude == 'numpy-count':
                self.must_raise = False      # (PF-C10g)
                self.failing = ('zp', P.RepetitionPT(ok, numpy.int64(3), identifier='zp'))
            else:
                self.must_raise = False
                self.failing = ('zp', P.SequencePT(ok, P.ConstantPT(TimeType.from_fraction(3, 2), {'A': 1}),
                                                   identifier='zp'))
        self.roots = pre + self.roots
        self.finish(self.backend)
        self.order = pre + [o for o in self.order if all(o is not x for x in pre)]
        self.n_pre = len(pre)
        self.origin = {'kind': 'after-failure', 'case_seed': seed, 'opts': dict(opts), 'prelude': prelude}


def after_failure_cases(ctx: core.Ctx, n: int, stream: str, opts: dict):
    rng = ctx.fork(stream)
    for k in range(n):
        seed = rng.getrandbits(48)
        prelude = PRELUDES[k % len(PRELUDES)]
        try:
            yield AfterFailure(seed, opts, prelude)
        except Exception as e:  # noqa
            ctx.count('generator-rejected:' + type(e).__name__)


def run_impl(case: Case) -> dict:
    """store through a real PulseStorage, load through fresh ones; returns raw observations"""
    Q = _q()
    S = Q['S']
    obs: Dict[str, Any] = {}
    be = Backends(case.backend)
    try:
        log: list = []
        pre_other = getattr(case, 'pre_other', [])
        if pre_other:
            # stored by somebody else: through another PulseStorage over the same backend
            ps0 = S.PulseStorage(be.open())
            for pt in pre_other:
                ps0[pt.identifier] = pt
        backend = recording(be.open(), log)
        ps = S.PulseStorage(backend)
        n_pre = getattr(case, 'n_pre', 0)
        failing = getattr(case, 'failing', None)

        def store_all():
            for pt in case.order[:n_pre]:
                if not any(pt is x for x in pre_other):
                    ps[pt.identifier] = pt
            if failing is not None:
                # a store that is rejected / fails in the middle of its transaction, on the SAME PulseStorage
                obs['failing'] = outcome(lambda: ps.__setitem__(failing[0], failing[1]))
            for pt in case.order[n_pre:]:
                ps[pt.identifier] = pt
        obs['store'] = outcome(store_all)
        obs['writes'] = list(log)
        fresh = be.open()
        ids = sorted(fresh)
        obs['ids'] = ids
        obs['texts'] = {i: fresh.get(i) for i in ids}
        if obs['store'][0] != 'ok':
            return obs
        # one fresh storage loads everything in a random order
        ps2 = S.PulseStorage(be.open())
        loaded = {}
        for n in case.load_order:
            loaded[n.identifier] = outcome(lambda: ps2[n.identifier])
        obs['loaded'] = loaded
        # per explicit root: a fresh storage, to see which identifiers get deserialised
        obs['built'] = {}
        for r in case.roots[:3]:
            ps3 = S.PulseStorage(be.open())
            res = outcome(lambda: ps3[r.identifier])
            obs['built'][r.identifier] = (res, sorted(ps3.temporary_storage))
        return obs
    finally:
        be.close()


def check_case(ctx: core.Ctx, case: Case, label: str, lean_lines: list, pending: list):
    """Runs the implementation, judges what can be judged locally, queues the model requests."""
    with warnings.catch_warnings():
        warnings.simplefilter('ignore')
        obs = run_impl(case)
        tok = Tok()
        memo: dict = {}
        trees = [tree_sx(pt, tok, memo) for pt in case.order]
        line = '(c10 store (%s))' % ' '.join(trees)
        case.canonical = line
        lean_lines.append(line)
        known = sorted(k for k, pred in KNOWN_CLASSES.items() if any(pred(r) for r in case.roots))
        rec = {'case': case, 'obs': obs, 'tok': tok, 'label': label, 'known': known, 'n_lines': 1}
        # model loader on the implementation's documents
        rec['load_ids'] = []
        if obs['store'][0] == 'ok':
            docs = []
            ok = True
            for i in obs['ids']:
                try:
                    docs.append('(%s %s)' % (tok(i), doc_sx(json.loads(obs['texts'][i]), tok)))
                except Exception:  # noqa
                    ok = False
            if ok:
                for r in case.roots[:3]:
                    lean_lines.append('(c10 load %d (%s) %s)' % (FUEL, ' '.join(docs), tok(r.identifier)))
                    rec['load_ids'].append(r.identifier)
                    rec['n_lines'] += 1
        pending.append(rec)


def replay_dict(case: Case, extra: Optional[dict] = None) -> dict:
    d = {'kind': 'tree', 'case_seed': case.seed, 'opts': case.opts, 'backend': case.backend,
         'order': [p.identifier for p in case.order], 'roots': [repr(r)[:2000] for r in case.roots]}
    origin = getattr(case, 'origin', None)
    if origin:
        d.update(origin)          # hand-built cases are re-built by name / index, not from a seed
    if extra:
        d.update(extra)
    return d


def judge_case(ctx: core.Ctx, rec: dict, answers: list) -> List[str]:
    """Compare model / implementation and judge the implementation. Returns the list of violations found
    (already reported through ctx unless they fall into a known class)."""
    case, obs, tok = rec['case'], rec['obs'], rec['tok']
    label = rec['label']
    problems: list = []       # (clause, text[, node])
    drifts: List[Tuple[str, Any, Any]] = []
    ans = answers[0]
    nontrivial = len(case.named) > 1
    ctx.case(case.canonical, nontrivial=nontrivial)
    ctx.count('%s:backend:%s' % (label, case.backend))
    ctx.count('%s:named-nodes' % label, len(case.named))
    ctx.count('%s:nodes' % label, len(case.nodes))
    if case.gen.shared_uses:
        ctx.count('%s:cases-with-shared-object' % label)
    for k, v in case.gen.stats.items():
        if k.startswith('with:') or k.startswith('amc:') or k.startswith('mapping:'):
            ctx.count('gen:' + k, v)
    for n in case.nodes:
        ctx.count('class:' + TAGS.get(type(n).__name__, '?'))
        if n.identifier:
            ctx.count('named-class:' + TAGS.get(type(n).__name__, '?'))
    expected_ids = sorted({n.identifier for n in case.named})

    def behaviour():
        """loaded vs original, for everything whose store returned normally (independent of the model)"""
        # 4. the fresh storage loads everything; loaded == original; same declared interface
        loaded = obs.get('loaded', {})
        for n in case.named:
            res = loaded.get(n.identifier)
            if res is None:
                continue
            if res[0] != 'ok':
                problems.append(('load', 'loading %r from a fresh storage raised %s' % (n.identifier, res[1]), n))
                continue
            l = res[1]
            eq = outcome(lambda: bool(l == n) and bool(n == l))
            if eq != ('ok', True):
                problems.append(('equal', 'loaded %r does not compare equal to the original (%r)' % (n.identifier, eq), n))
            if l.identifier != n.identifier:
                problems.append(('identifier', 'the object loaded for %r has identifier %r' % (n.identifier, l.identifier), n))
            so, sl = static_observables(n), static_observables(l)
            for k in so:
                if so[k] != sl[k]:
                    problems.append((k, '%s of %r: original %r, loaded %r' % (k, n.identifier, so[k], sl[k]), n))
            if not duration_equal(n, l):
                problems.append(('duration', 'duration of %r: original %r, loaded %r'
                                 % (n.identifier, outcome(lambda: n.duration), outcome(lambda: l.duration)), n))
        # 5. one object per identifier
        for r in case.roots:
            res = loaded.get(r.identifier)
            if not res or res[0] != 'ok':
                continue
            by_id: Dict[str, Any] = {}
            for o in outcome(lambda: occurrences(res[1]))[1] if outcome(lambda: occurrences(res[1]))[0] == 'ok' else []:
                if o.identifier:
                    first = by_id.setdefault(o.identifier, o)
                    if first is not o:
                        problems.append(('shared', 'identifier %r is loaded as two different objects' % o.identifier))
                    top = loaded.get(o.identifier)
                    if top and top[0] == 'ok' and top[1] is not o:
                        problems.append(('shared', 'identifier %r inside %r is not the object the storage returns for it'
                                         % (o.identifier, r.identifier)))
        # 6. same programs
        for r in case.roots[:2]:
            res = loaded.get(r.identifier)
            if not res or res[0] != 'ok':
                continue
            for a in case.assign:
                po = guarded(lambda: program_observables(r, a))
                pl = guarded(lambda: program_observables(res[1], a))
                if 'timeout' in (po[0], pl[0]):
                    ctx.count('%s:program-timeout' % label)
                    continue
                ctx.count('%s:program-%s' % (label, po[0] if po[0] == 'exc' else ('none' if po[1] is None else 'ok')))
                if po[0] == 'exc':
                    ctx.count('%s:program-exc:%s' % (label, po[1]))
                if not same(po, pl):
                    problems.append(('program', 'program of %r differs for parameters %r: original %s, loaded %s'
                                     % (r.identifier, a, _short(po), _short(pl)), r))
                    break

    if getattr(case, 'failing', None) is not None:
        ctx.count('%s:prelude:%s:%s' % (label, case.prelude, 'raised' if obs.get('failing', ('ok',))[0] == 'exc' else 'returned'))
        if obs.get('failing', ('exc',))[0] == 'ok' and case.must_raise:
            problems.append(('store', 'the %s store returned normally' % case.prelude))
    if obs['store'][0] != 'ok':
        if ans[0] == 'ok':
            problems.append(('store', 'storing raised %s for a forest with unique identifiers%s'
                             % (obs['store'][1], ' (after a rejected store on the same PulseStorage: %s)' % case.prelude
                                if getattr(case, 'failing', None) is not None else '')))
        else:
            ctx.count('%s:store-error' % label)
    elif ans[0] != 'ok':
        # the implementation accepted what the model rejects: an accepted store is judged like every other store
        drifts.append(('PulseStorage.__setitem__ vs QP.C10.storeAll', 'stored', ans))
        behaviour()
    else:
        model = {e[0]: e[1:] for e in ans[1:]}
        m_writes = [tok.back.get(t, t) for t in model['writes']]
        m_docs = {tok.back.get(e[0], e[0]): e[1] for e in model['docs']}
        m_refs = {tok.back.get(e[0], e[0]): sorted(tok.back.get(t, t) for t in e[1]) for e in model['refs']}
        # 1. every stored document is valid JSON on its own
        parsed = {}
        for i, text in obs['texts'].items():
            try:
                parsed[i] = json.loads(text)
            except Exception as e:  # noqa
                problems.append(('json', 'document %r is not valid JSON: %s' % (i, e)))
        # 2. stored identifiers: exactly the named nodes, each once (the model's proved answer)
        if sorted(m_docs) != expected_ids:
            drifts.append(('named nodes vs QP.C10.storeAll keys', expected_ids, sorted(m_docs)))
        if obs['ids'] != sorted(m_docs):
            problems.append(('named_once', 'stored identifiers %r, expected one entry per named node %r'
                             % (obs['ids'], sorted(m_docs))))
        # 3. references: named sub-templates are referenced, never embedded; all references resolve
        for i, doc in parsed.items():
            emb = embedded_named(doc)
            if emb:
                problems.append(('referenced', 'document %r embeds the named sub-template(s) %r' % (i, emb)))
            refs = sorted(doc_refs(doc))
            for r in refs:
                if r not in obs['ids']:
                    problems.append(('refs_closed', 'document %r references %r which is not stored' % (i, r)))
            if i in m_refs and refs != m_refs[i]:
                problems.append(('referenced', 'document %r references %r, expected %r' % (i, refs, m_refs[i])))
        # structural agreement (never an alarm): optional keys, order of the puts
        agree = all(i in m_docs and doc_shape(parsed[i]) == model_doc_shape(m_docs[i], tok) for i in parsed)
        ctx.count('structural:documents-%s' % ('agree' if agree else 'differ'))
        if getattr(case, 'pre_other', None):
            m_writes = [w for w in m_writes if all(w != x.identifier for x in case.pre_other)]   # written by the other storage
            obs['writes'] = [w for w in obs['writes'] if all(w != x.identifier for x in case.pre_other)]
        ctx.count('structural:put-order-%s' % ('agree' if obs['writes'] == m_writes else 'differ'))
        rec['structural'] = agree and obs['writes'] == m_writes
        behaviour()
        # model loader vs implementation loader (on the implementation's documents)
        for k, rid in enumerate(rec['load_ids']):
            a = answers[1 + k]
            res, built = obs['built'][rid]
            if res[0] == 'ok' and a[0] == 'ok':
                m_tree = core.sx(a[1])
                i_tree = tree_sx(res[1], tok, {})
                m_built = sorted(tok.back.get(t, t) for t in a[2][1:])
                if m_tree != i_tree:
                    drifts.append(('JSONSerializableDecoder vs QP.C10.loadC (tree)', i_tree[:300], m_tree[:300]))
                if m_built != built:
                    drifts.append(('PulseStorage._temporary_storage vs QP.C10.loadC (built)', built, m_built))
            elif (res[0] == 'ok') != (a[0] == 'ok'):
                drifts.append(('JSONSerializableDecoder vs QP.C10.loadC (outcome)', res[:1] + (str(res[1])[:80],), a))

    found = []
    # violations attributable to a node inside a listed known-finding class are suppressed; all others are reported
    kept = []
    for p in problems:
        node = p[2] if len(p) > 2 else None
        cls = [k for k, pred in KNOWN_CLASSES.items() if node is not None and pred(node)] if rec['known'] else []
        if cls:
            ctx.count('known-class:' + ','.join(cls))
        else:
            kept.append(p)
    problems = kept
    if problems:
        clause, text = problems[0][0], problems[0][1]
        small = shrink(case, clause)
        ctx.violation('%s [%s] (%d finding(s) on this case; first shown)' % (text, clause, len(problems)),
                      replay_dict(case, {'clause': clause, 'all': [p[1][:300] for p in problems[:8]],
                                         'minimal': small}))
        found = [p[0] for p in problems]
    elif drifts:
        for name, impl, mdl in drifts:
            ctx.drift(name, case.canonical[:500], str(impl)[:300], str(mdl)[:300])
    return found


def _short(o):
    s = repr(o)
    return s if len(s) < 160 else s[:160] + '…'


# ------------------------------------------------------------------------------------------------
# failing-input search helpers
# ------------------------------------------------------------------------------------------------

def quick_problems(roots, backend='dict', assign=None) -> List[str]:
    """implementation-only judge of a forest (no model): used by the shrinker"""
    S = _q()['S']
    out = []
    be = Backends(backend)
    try:
        ps = S.PulseStorage(be.open())
        for r in roots:
            ps[r.identifier] = r
        fresh = be.open()
        for i in fresh:
            json.loads(fresh.get(i))
        ps2 = S.PulseStorage(be.open())
        for r in roots:
            l = ps2[r.identifier]
            if not (l == r):
                out.append('equal')
            if l.identifier != r.identifier:
                out.append('identifier')
            if static_observables(l) != static_observables(r):
                out.append('static')
            if not duration_equal(l, r):
                out.append('duration')
            for a in assign or []:
                if not same(outcome(lambda: program_observables(r, a)), outcome(lambda: program_observables(l, a))):
                    out.append('program')
                    break
    except Exception as e:  # noqa
        out.append('raise:' + type(e).__name__)
    finally:
        be.close()
    return out


def shrink(case: Case, clause: str) -> Optional[dict]:
    """smallest named sub-template of the failing forest that still fails on its own"""
    try:
        best = None
        with warnings.catch_warnings():
            warnings.simplefilter('ignore')
            for n in sorted(case.named, key=lambda n: len(walk(n))):
                if any(pred(n) for pred in KNOWN_CLASSES.values()):
                    continue
                p = quick_problems([n], 'dict', case.assign)
                if p:
                    best = {'identifier': n.identifier, 'nodes': len(walk(n)), 'problems': p,
                            'template': repr(n)[:3000]}
                    break
        return best
    except Exception:  # noqa
        return None


# ------------------------------------------------------------------------------------------------
# hand-built forests: corpus witnesses, targeted enumeration, malformed stream
# ------------------------------------------------------------------------------------------------

def witness(name: str):
    """named minimal witnesses (corpus / known findings). Returns (roots, assignments)."""
    P = _q()['P']
    from qupulse.expressions import ExpressionScalar
    if name == 'amc_duration':
        a = P.ConstantPT('a', {'X': 1})
        b = P.ConstantPT('a', {'Y': 2})
        return [P.AtomicMultiChannelPT(a, b, duration='b', identifier='amc')], [{'a': 1, 'b': 1}, {'a': 1, 'b': 2}]
    if name == 'abstract_integral':
        return [P.AbstractPT('abs', defined_channels={'X', 'Y'}, integral={'X': 'p', 'Y': 1})], []
    if name == 'table_consistency_check':
        return [P.TablePT({'A': [(0, 0), ('2**a + a', 1)]}, consistency_check=False, identifier='t')], [{'a': 1}]
    if name == 'derived_float':
        return [P.FunctionPT(ExpressionScalar('a') * (0.1 + 0.2), 1, 'X', identifier='f')], [{'a': 1}]
    if name == 'nested_mapping_float':
        inner = P.MappingPT(P.FunctionPT('x*t', 1, 'X'), parameter_mapping={'x': 'y*0.1'})
        return [P.MappingPT(inner, parameter_mapping={'y': 'z + 0.30000000000000004'}, identifier='m')], [{'z': 1}]
    if name == 'timetype_duration':
        from qupulse.utils.types import TimeType
        return [P.ConstantPT(TimeType.from_fraction(3, 2), {'A': 1}, identifier='c')], [{}]
    if name == 'numpy_count':
        import numpy
        return [P.RepetitionPT(P.ConstantPT(1, {'A': 'i'}), numpy.int64(3), identifier='r'),
                P.ForLoopPT(P.ConstantPT(1, {'A': 'i'}, measurements=[('m', numpy.int64(0), numpy.int32(1))]), 'i',
                            (numpy.int32(0), numpy.int64(4), numpy.int16(2)), identifier='l')], [{'i': 1}]
    if name == 'abstract_empty_declarations':
        a = P.AbstractPT('abs', defined_channels={'A'}, parameter_names=set(), measurement_names=set())
        b = P.AbstractPT('abs2', integral={}, parameter_names=set())
        return [P.SequencePT(a, P.ConstantPT(1, {'A': 1}), identifier='s'), b], []
    if name == 'digit_channels':
        c = P.ConstantPT('d', {'1': 'v', '2': 1}, identifier='c', measurements=[('m', 0, 'd')])
        return [P.SequencePT(c, P.MappingPT(P.ConstantPT('d', {'0': 2, 'A': 'v'}), channel_mapping={'0': '1', 'A': '2'}),
                             identifier='s')], [{'d': 1.5, 'v': 0.25}]
    if name == 'ne_constraint':
        import sympy
        return [P.SequencePT(P.FunctionPT('a*t', 'd', 'A', parameter_constraints=['Ne(a, b + 1)', 'a == c']),
                             identifier='s', parameter_constraints=[sympy.Ne(sympy.Symbol('d') * 2, sympy.Symbol('a') + 5000),
                                                                    'a + 1 <= d**2 + 5000'])], \
               [{'a': 1, 'b': 3, 'c': 1, 'd': 1.5}, {'a': 1, 'b': 0, 'c': 1, 'd': 1.5}, {'a': 1, 'b': 3, 'c': 2, 'd': 1.5}]
    if name == 'decided_constraint':
        return [P.FunctionPT('a*t', 'd', 'A', parameter_constraints=['a == a', 'Eq(d, d)'], identifier='f'),
                P.SequencePT(P.FunctionPT('a*t', 'd', 'A'), parameter_constraints=['Eq(d, d + 1)'], identifier='never')], \
               [{'a': 1, 'd': 1}]
    if name == 'range_hash_collision':
        body = lambda: P.ConstantPT('d0', {'A': 'i*v0'})
        return [P.ForLoopPT(body(), 'i', ('n0 + 7', 0, -1), identifier='down1'),
                P.ForLoopPT(body(), 'i', ('n0 + 7', 0, -2), identifier='down2'),
                P.ForLoopPT(body(), 'i', (-2, 5), identifier='up2'),
                P.ForLoopPT(body(), 'i', (-1, 5), identifier='up1')], [{'d0': 1.5, 'v0': 0.25, 'n0': 2}]
    if name == 'duplicate_identifier':
        a1 = P.ConstantPT(1, {'A': 1}, identifier='a')
        a2 = P.ConstantPT(2, {'A': 3}, identifier='a', measurements=[('m', 0, 1)])
        return [P.SequencePT(a1, P.RepetitionPT(a2, 3), identifier='s')], [{}]
    if name == 'rational_constants':
        t = P.TablePT({'A': [(0, '1/3'), ('7/3', '5/8', 'linear')]}, measurements=[('m', '1/3', '2/3')])
        return [P.RepetitionPT(P.MappingPT(t, parameter_mapping={}, identifier='m'), 'n', identifier='r',
                               measurements=[('w', '5/7', '22/7')])], [{'n': 2}]
    if name == 'int_channel':
        return [P.TablePT({0: [(0, 1), (1, 2)]}, identifier='t')], [{}]
    if name == 'shared':
        sh = P.ConstantPT(1, {'X': 'v0'}, identifier='sh', measurements=[('m', 0, 1)])
        c1 = P.RepetitionPT(sh, 2, identifier='c1')
        c2 = P.TimeReversalPT(sh, identifier='c2')
        return [P.SequencePT(c2, c1, sh, identifier='root')], [{'v0': 0.1 + 0.2}]
    raise core.MachineryError('unknown witness %r' % name)


def small_scope(ctx) -> List[Case]:
    """targeted enumeration: for every class one node with every subset of its optional attributes set,
    anonymous or named child, stored child-first or parent-first"""
    P = _q()['P']
    import itertools
    cases = []
    n = [0]

    def ident(p='e'):
        n[0] += 1
        return '%s%d' % (p, n[0])

    M = [('m', 0, 'd0')]
    C = ['v0 < 1000']
    C2 = ['Ne(v0, 5000)', 'v0 + 1 <= 2*n0 + 4000', 'd0 == d0*v0/v0 + 0*n0', 'Eq(2*d0, d0 + d0*1.0)'][:2] + ['Ne(2*d0, v0 - 7000)']
    for named_child in (False, True):
        def leaf(ch='A', dur='d0'):
            return P.ConstantPT(dur, {ch: 'v0'}, identifier=ident('c') if named_child else None)
        for meas, cons in itertools.product((None, M), (None, C, C2)):
            roots = [
                P.TablePT({'A': [(0, 'v0'), ('d0', 1, 'linear')]}, identifier=ident(), measurements=meas,
                          parameter_constraints=cons),
                P.PointPT([(0, 'v0'), ('d0', 1, 'linear')], ['A'], identifier=ident(), measurements=meas,
                          parameter_constraints=cons),
                P.FunctionPT('v0*t', 'd0', 'A', identifier=ident(), measurements=meas, parameter_constraints=cons),
                P.SequencePT(leaf(), leaf(), identifier=ident(), measurements=meas, parameter_constraints=cons),
                P.RepetitionPT(leaf(), 'n0', identifier=ident(), measurements=meas, parameter_constraints=cons),
                P.ForLoopPT(leaf(), 'v0', (1, 'n0 + 2', 1), identifier=ident(), measurements=meas,
                            parameter_constraints=cons),
                P.ForLoopPT(leaf(), 'v0', ('n0 + 3', 0, -2), identifier=ident(), measurements=meas,
                            parameter_constraints=cons),
                P.AtomicMultiChannelPT(leaf('A'), leaf('B'), identifier=ident(), measurements=meas,
                                       parameter_constraints=cons),
                P.AtomicMultiChannelPT(leaf('A'), leaf('B'), identifier=ident(), measurements=meas,
                                       parameter_constraints=cons, duration='d0'),
            ]
            if cons is None:
                roots += [
                    P.ConstantPT('d0', {'A': 'v0'}, identifier=ident(), measurements=meas),
                    P.ConstantPT('d0', {'A': 'v0'}, identifier=ident(), measurements=meas, name='nm'),
                    P.ArithmeticAtomicPT(leaf(), '+', leaf(), identifier=ident(), measurements=meas),
                ]
            if meas is None and cons is None:
                roots += [
                    P.ParallelChannelPT(leaf(), {'B': 'v0*2'}, identifier=ident()),
                    P.ArithmeticPT(leaf(), '*', 'v0', identifier=ident()),
                    P.ArithmeticPT({'A': 'v0'}, '-', leaf(), identifier=ident()),
                    P.TimeReversalPT(leaf(), identifier=ident()),
                ]
            for r in roots:
                cases.append(Built([r], backend=['dict', 'fs', 'zip'][len(cases) % 3],
                                   assign=[{'d0': 1.5, 'v0': 0.1 + 0.2, 'n0': 2}]))
        # MappingPT: every subset of its four optional dictionaries / lists
        for pm, mm, cm, cons in itertools.product((False, True), repeat=4):
            inner = P.ConstantPT('d0', {'A': 'v0'}, measurements=[('m', 0, 1)],
                                 identifier=ident('c') if named_child else None)
            kw = {}
            if pm:
                kw['parameter_mapping'] = {'v0': 'v1*2'}
            if mm:
                kw['measurement_mapping'] = {'m': 'mm'}
            if cm:
                kw['channel_mapping'] = {'A': 'Z'}
            if cons:
                kw['parameter_constraints'] = ['v1 < 1000'] if pm else ['v0 < 1000']
            cases.append(Built([P.MappingPT(inner, identifier=ident(), **kw)], backend=['dict', 'fs', 'zip'][len(cases) % 3],
                               assign=[{'d0': 1.5, 'v0': 0.3, 'v1': 1 / 3}]))
    # MappingPT directly around an anonymous MappingPT: merged unless the inner one carries constraints; dropped channels
    for inner_cons, drop, outer_named_child in itertools.product((False, True), (False, True), (False, True)):
        leaf = P.ConstantPT('d0', {'A': 'v0', 'B': 'v0*2'}, measurements=[('m', 0, 1)],
                            identifier=ident('c') if outer_named_child else None)
        ikw = {'parameter_mapping': {'v0': 'v1 + 1'}, 'channel_mapping': {'B': None} if drop else {'B': 'C'}}
        if inner_cons:
            ikw['parameter_constraints'] = ['v1 < 1000']
        inner = P.MappingPT(leaf, **ikw)
        outer = P.MappingPT(inner, parameter_mapping={'v1': 'v2*2'}, channel_mapping={'A': 'Z'},
                            measurement_mapping={'m': 'mm'}, identifier=ident())
        cases.append(Built([outer], backend=['dict', 'fs', 'zip'][len(cases) % 3],
                           assign=[{'d0': 1.5, 'v2': 1 / 3}, {'d0': 1, 'v2': 5000}]))
    # digit-only channel NAMES in every class that keys a dictionary by channel
    for a, b in (('1', '2'), ('0', 'A'), ('12', '7')):
        const = lambda: P.ConstantPT('d0', {a: 'v0', b: 1})
        digit = [
            P.ConstantPT('d0', {a: 'v0', b: 1}, identifier=ident()),
            P.TablePT({a: [(0, 'v0'), ('d0', 1, 'linear')], b: [(0, 0), ('d0', 'v0')]}, identifier=ident()),
            P.PointPT([(0, ['v0', 1]), ('d0', [1, 'v0'], 'linear')], [a, b], identifier=ident()),
            P.FunctionPT('v0*t', 'd0', a, identifier=ident()),
            P.MappingPT(const(), channel_mapping={a: b, b: a}, identifier=ident()),
            P.MappingPT(const(), channel_mapping={a: 'Q', b: '3'}, identifier=ident()),
            P.MappingPT(P.ConstantPT('d0', {'X': 'v0', 'Y': 1}), channel_mapping={'X': a, 'Y': None}, identifier=ident()),
            P.ParallelChannelPT(P.ConstantPT('d0', {a: 'v0'}), {b: 'v0*2'}, identifier=ident()),
            P.ParallelChannelPT(const(), {a: 'v0*2'}, identifier=ident()),
            P.ArithmeticPT(const(), '+', {a: 'v0', b: 2}, identifier=ident()),
            P.ArithmeticPT({b: 'v0'}, '-', const(), identifier=ident()),
            P.ArithmeticAtomicPT(const(), '+', P.ConstantPT('d0', {a: 2}), identifier=ident()),
            P.AtomicMultiChannelPT(P.ConstantPT('d0', {a: 'v0'}), P.ConstantPT('d0', {b: 1}), identifier=ident()),
            P.SequencePT(const(), P.RepetitionPT(const(), 2), identifier=ident()),
            P.ForLoopPT(const(), 'v0', 3, identifier=ident()),
            P.TimeReversalPT(const(), identifier=ident()),
            P.AbstractPT(ident('abs'), defined_channels={a, b}, integral={a: 'p', b: 1}),
        ]
        for r in digit:
            cases.append(Built([r], backend=['dict', 'fs', 'zip'][len(cases) % 3],
                               assign=[{'d0': 1.5, 'v0': 0.25}]))
    # count-down loops that differ only where CPython hashes collide (-1 / -2, 2**61 / 1, 2**61-1 / 0), in both orders
    for k, fam in enumerate(c10gen.colliding_ranges('n0')):
        for order in (0, 1):
            shift = 10 * (1 + order)            # (the two orders use different ranges: a cache would remember the first)
            pair = []
            for r in (fam if order == 0 else list(reversed(fam))):
                r = tuple((x + shift if isinstance(x, int) and not isinstance(x, bool) and 0 < x < 100 else x) for x in r)
                pair.append(P.ForLoopPT(P.ConstantPT('d0', {'A': 'i*v0'}), 'i', r, identifier=ident('loop')))
            cases.append(Built(pair, backend=['dict', 'fs', 'zip'][len(cases) % 3],
                               assign=[{'d0': 1.5, 'v0': 0.25, 'n0': 2}, {'d0': 1, 'v0': 1 / 3, 'n0': 0}]))
    # AbstractPT: every declared interface property absent / declared / declared EMPTY (an empty declaration is a declaration)
    opts5 = {'defined_channels': [None, {'A', 'B'}, set()], 'parameter_names': [None, {'p', 'q'}, set()],
             'measurement_names': [None, {'m'}, set()], 'integral': [None, {'A': 'p', 'B': 1}, {}],
             'duration': [None, 'p*2']}
    for combo in itertools.product(*opts5.values()):
        kw = {k: v for k, v in zip(opts5, combo) if v is not None}
        if 'integral' in kw and 'defined_channels' in kw and set(kw['integral']) != set(kw['defined_channels']):
            continue                                   # (rejected by the constructor)
        cases.append(Built([P.AbstractPT(ident('abs'), **kw)], backend=['dict', 'fs', 'zip'][len(cases) % 3], assign=[]))
    # … and as a named child: the parent's interface goes through the child's
    for pn, mn in itertools.product(({'p'}, set()), ({'m'}, set())):
        child = P.AbstractPT(ident('abs'), defined_channels={'A'}, parameter_names=pn, measurement_names=mn)
        cases.append(Built([P.SequencePT(child, P.ConstantPT(1, {'A': 1}), identifier=ident())], assign=[]))
        child = P.AbstractPT(ident('abs'), defined_channels={'A'}, parameter_names=pn, measurement_names=mn)
        cases.append(Built([P.RepetitionPT(child, 'n0', identifier=ident())], assign=[]))
    # store orders of a shared object
    for perm in range(4):
        roots, assign = witness('shared')
        nodes = walk(roots[0])
        named = [x for x in nodes if x.identifier]
        order = [named, list(reversed(named)), [roots[0]], [named[1], roots[0], named[0]]][perm]
        cases.append(Built(roots, backend=['dict', 'fs', 'zip', 'dict'][perm], assign=assign, order=order))
    for k, c in enumerate(cases):
        c.origin = {'kind': 'enum', 'index': k}
    return cases


def loaded_problems(backend, pt, assign) -> List[str]:
    """property-level judge of one stored template against what a fresh storage loads for it"""
    S = _q()['S']
    out = []
    res = outcome(lambda: S.PulseStorage(backend)[pt.identifier])
    if res[0] != 'ok':
        return ['loading raised ' + res[1]]
    l = res[1]
    if outcome(lambda: bool(l == pt) and bool(pt == l)) != ('ok', True):
        out.append('loaded != original')
    if l.identifier != pt.identifier:
        out.append('identifier')
    so, sl = static_observables(pt), static_observables(l)
    out += [k for k in so if so[k] != sl[k]]
    if not duration_equal(pt, l):
        out.append('duration')
    for a in assign:
        po, pl = guarded(lambda: program_observables(pt, a)), guarded(lambda: program_observables(l, a))
        if 'timeout' not in (po[0], pl[0]) and not same(po, pl):
            out.append('program differs for %r' % (a,))
            break
    return out


def duplicate_identifier_cases(ctx: core.Ctx, n: int = 10):
    """random trees in which a second, different object re-uses the identifier of a named node of the same store"""
    P = _q()['P']
    rng = ctx.fork('duplicate-identifier')
    out = []
    for k in range(n):
        with warnings.catch_warnings():
            warnings.simplefilter('ignore')
            try:
                g = c10gen.Gen(random.Random(rng.getrandbits(48)), p_named=0.6, weird_ids=False)
                channels = rng.choice([['A'], ['A', 'B']])
                r1 = g.root(rng.randrange(1, 3), channels)
                named = [x for x in walk(r1) if x.identifier]
                victim = rng.choice(named)
                # another object under the victim's identifier, of a class that differs visibly (also for the model)
                if TAGS[type(victim).__name__] == 'const':
                    other = P.PointPT([(0, 0), (1, 1, 'linear')], channels, identifier=victim.identifier)
                else:
                    other = P.ConstantPT(1, {c: 0.5 for c in channels}, identifier=victim.identifier)
                second = other if rng.random() < 0.4 else P.RepetitionPT(other, 2)
                subs = [r1, second] if rng.random() < 0.5 else [second, r1]
                root = P.SequencePT(*subs, identifier='dup%d' % k)
                out.append(('duplicate-identifier-random', [(root.identifier, root)]))
            except Exception as e:  # noqa
                ctx.count('generator-rejected:' + type(e).__name__)
    return out


def malformed(ctx: core.Ctx):
    """error paths: model and implementation must agree on the outcome class"""
    Q = _q()
    S, P = Q['S'], Q['P']
    lines, expect = [], []

    def impl_store(ops, name='', assign=None):
        """stores the ops on one PulseStorage; a store that RETURNS NORMALLY is judged like every other store: a fresh
        storage must load the template back as the original (an accepted-but-wrong store is a concrete violation)"""
        backend = S.DictBackend()
        ps = S.PulseStorage(backend)
        done = []
        try:
            for key, pt in ops:
                ps[key] = pt
                done.append((key, pt))
            res = 'ok'
        except ValueError:
            res = 'value_error'
        except RuntimeError:
            res = 'id_taken'
        with warnings.catch_warnings():
            warnings.simplefilter('ignore')
            for key, pt in done:
                probs = loaded_problems(backend, pt, assign or [{}])
                if probs and any(pred(pt) for pred in KNOWN_CLASSES.values()):
                    ctx.count('known-class:malformed-stream')
                    continue
                if probs:
                    ctx.violation('the store of %r returned normally but a fresh storage does not load the original back: %s '
                                  '[malformed stream: %s; template %s]' % (key, ', '.join(probs), name, repr(pt)[:600]),
                                  {'kind': 'malformed', 'name': name, 'key': key, 'problems': probs,
                                   'template': repr(pt)[:3000]})
        return res

    a1 = P.ConstantPT(1, {'A': 1}, identifier='a')
    a2 = P.ConstantPT(2, {'A': 1}, identifier='a', measurements=[('m', 0, 1)])   # differs visibly for the model
    par1 = P.RepetitionPT(a1, 2, identifier='p')
    par2 = P.RepetitionPT(a2, 2, identifier='q')
    anon = P.RepetitionPT(a1, 2)
    tok = Tok()
    store_cases = [
        ('two-objects-one-id-roots', [('a', a1), ('a', a2)]),
        ('two-objects-one-id-child', [('p', par1), ('q', par2)]),
        ('same-object-twice', [('a', a1), ('a', a1), ('p', par1)]),
        ('child-then-parent', [('a', a1), ('p', par1)]),
        ('two-objects-one-id-one-transaction', [('s', P.SequencePT(a1, a2, identifier='s'))]),
        ('two-objects-one-id-below-unnamed-node', [('s3', P.SequencePT(a1, P.RepetitionPT(a2, 3), identifier='s3'))]),
        ('two-objects-one-id-first-below-unnamed', [('s4', P.SequencePT(P.RepetitionPT(a2, 3), a1, identifier='s4'))]),
        ('child-with-the-identifier-of-its-root', [('a', P.TimeReversalPT(a1, identifier='a'))]),
        ('same-object-twice-one-transaction', [('s2', P.SequencePT(a1, a1, identifier='s2'))]),
        ('parent-then-child', [('p', par1), ('a', a1)]),
    ]
    store_cases += duplicate_identifier_cases(ctx)
    for name, ops in store_cases:
        got = impl_store(ops, name, [{'d0': 1.5, 'v0': 0.3, 'v1': 1 / 3, 'v2': 2, 'v3': -1, 'n0': 2, 'n1': 1,
                                      'd1': 1, 'd2': 2, 'd3': 0.75}])
        memo: dict = {}
        lines.append('(c10 store (%s))' % ' '.join(tree_sx(pt, tok, memo) for _k, pt in ops))
        expect.append((name, got))
    # wrong key / anonymous root: the model's storeAll takes the key from the object, so these are judged directly
    for name, ops, want in [('wrong-key', [('b', a1)], 'value_error')]:
        got = impl_store(ops, name)
        ctx.case('malformed:' + name, nontrivial=False)
        if got != want:
            ctx.violation('storing under a foreign identifier: %s (expected %s)' % (got, want),
                          {'kind': 'malformed', 'name': name})

    # loading malformed stores
    T = 'qupulse.pulses.repetition_pulse_template.RepetitionPulseTemplate'
    CT = 'qupulse.pulses.constant_pulse_template.ConstantPulseTemplate'
    const = {'#type': CT, 'amplitude_dict': {'A': 1}, 'duration': 1, 'measurements': [], 'name': 'x'}
    stores = [
        ('missing-reference', {'r': {'#type': T, '#identifier': 'r', 'body': {'#type': 'reference', '#identifier': 'gone'},
                                     'repetition_count': 2}}, 'r', {'KeyError'}, 'key_error'),
        ('reference-without-id', {'r': {'#type': T, '#identifier': 'r', 'body': {'#type': 'reference'},
                                        'repetition_count': 2}}, 'r', {'RuntimeError'}, 'ref_without_id'),
        ('cyclic', {'r': {'#type': T, '#identifier': 'r', 'body': {'#type': 'reference', '#identifier': 'r'},
                          'repetition_count': 2}}, 'r', {'RecursionError'}, 'fuel'),
        ('missing-required', {'r': {'#type': T, '#identifier': 'r', 'body': dict(const)}}, 'r', {'ValueError'},
         'value_error'),
        ('unexpected-key', {'r': {'#type': T, '#identifier': 'r', 'body': dict(const), 'repetition_count': 2,
                                  'bogus': 1}}, 'r', {'ValueError'}, 'value_error'),
        ('unknown-type', {'r': {'#type': 'qupulse.pulses.Nope', '#identifier': 'r'}}, 'r',
         {'KeyError', 'ModuleNotFoundError', 'ImportError', 'AttributeError'}, 'unknown_type'),
        ('absent', {'r': dict(const)}, 'zz', {'KeyError'}, 'key_error'),
        ('defaults', {'r': {'#type': T, '#identifier': 'r', 'body': {'#type': CT, 'amplitude_dict': {'A': 1},
                                                                   'duration': 1}, 'repetition_count': 2}},
         'r', {'ok'}, 'ok'),
        ('empty-sequence', {'r': {'#type': 'qupulse.pulses.sequence_pulse_template.SequencePulseTemplate',
                                  '#identifier': 'r', 'subtemplates': []}}, 'r', {'ValueError'}, 'value_error'),
    ]
    for name, store, ident, impl_ok, model_want in stores:
        be = S.DictBackend()
        for k, v in store.items():
            be.put(k, json.dumps(v))
        res = outcome(lambda: S.PulseStorage(be)[ident])
        got = 'ok' if res[0] == 'ok' else res[1]
        docs = ' '.join('(%s %s)' % (tok(k), doc_sx(v, tok)) for k, v in store.items())
        lines.append('(c10 load %d (%s) %s)' % (60, docs, tok(ident)))
        expect.append((name, (got, impl_ok, model_want)))
    answers = core.Lean.run(lines)
    for (name, want), line, ans in zip(expect, lines, answers):
        ctx.case(line, nontrivial=True)
        ctx.count('malformed:' + name)
        if isinstance(want, tuple):
            got, impl_ok, model_want = want
            m = 'ok' if ans[0] == 'ok' else ans[1]
            if got not in impl_ok or m != model_want:
                ctx.drift('error classes of loading (%s)' % name, line[:300], got, m)
        else:
            m = 'ok' if ans[0] == 'ok' else ans[1]
            if m != want:
                ctx.drift('error classes of storing (%s)' % name, line[:300], want, m)


# ------------------------------------------------------------------------------------------------
# several live PulseStorage objects over one backend
# ------------------------------------------------------------------------------------------------

class MultiCase:
    """2-3 PulseStorage objects over ONE backend with an interleaved history of first stores (`storage[id] = t`),
    `overwrite` (of a new version or of the session's own earlier version) and `del storage[id]` on a few root
    identifiers. Every version has its own (version specific) named sub-templates, only root identifiers are
    overwritten or deleted. Afterwards the backend is the single source of truth: what a fresh storage loads for a
    root is the template of the LAST store / overwrite of that identifier that returned normally (nothing after a
    delete)."""

    def __init__(self, seed: int, script: Optional[list] = None):
        self.seed = seed
        rng = random.Random(seed)
        P = _q()['P']
        self.backend = rng.choice(['dict', 'fs', 'zip'])
        self.k = rng.randrange(2, 4)
        self.gen = c10gen.Gen(rng, p_share=0.0, weird_ids=False, p_named=0.4)
        self.rids = ['r0', 'r1'][:rng.randrange(1, 3)]
        self.ops = []                      # (kind, session, rid, template or None)
        mine: Dict[Tuple[int, str], Any] = {}

        def version(rid):
            # every version is a different object; the number of measurement windows of the root makes the versions
            # different for the model as well (identity is structural equality there)
            with warnings.catch_warnings():
                warnings.simplefilter('ignore')
                inner = self.gen.gen(rng.randrange(0, 3), ['A'])
                n = len(self.ops) + 1
                meas = [('w%d' % j, 0, 1) for j in range(n)]
                return rng.choice([lambda: P.SequencePT(inner, identifier=rid, measurements=meas),
                                   lambda: P.SequencePT(P.TimeReversalPT(inner), identifier=rid, measurements=meas),
                                   lambda: P.RepetitionPT(inner, 2, identifier=rid, measurements=meas)])()
        if script is None:
            script = []
            for _ in range(rng.randrange(4, 9)):
                script.append((rng.choice(['set', 'over', 'over', 'own', 'own', 'del']), rng.randrange(self.k),
                               rng.choice(self.rids)))
        for kind, k, rid in script:
            if kind == 'own':
                if (k, rid) not in mine:
                    kind = 'over'
                else:
                    self.ops.append(('over', k, rid, mine[(k, rid)]))
                    continue
            if kind == 'del':
                self.ops.append(('del', k, rid, None))
            else:
                v = version(rid)
                mine[(k, rid)] = v
                self.ops.append((kind, k, rid, v))
        names = set(self.gen.all_parameters())
        self.assign = c10gen.assignments(rng, names, 2)

    def describe(self):
        return [(kind, k, rid, None if t is None else repr(t)[:400]) for kind, k, rid, t in self.ops]


MULTI_SCRIPTS = {
    # the other session replaced the pulse, then this session stores its own again
    'replace': (2, [('set', 0, 'r0'), ('over', 1, 'r0'), ('own', 0, 'r0')]),
    # the other session deleted it
    'delete': (2, [('set', 0, 'r0'), ('del', 1, 'r0'), ('own', 0, 'r0')]),
    'three': (3, [('set', 0, 'r0'), ('set', 1, 'r1'), ('over', 2, 'r0'), ('own', 0, 'r0'), ('over', 2, 'r1'),
                  ('own', 1, 'r1'), ('del', 0, 'r1'), ('own', 1, 'r1')]),
}


def run_multi(ctx: core.Ctx, cases: List[MultiCase], label: str):
    S = _q()['S']
    lines, recs = [], []
    for case in cases:
        with warnings.catch_warnings():
            warnings.simplefilter('ignore')
            be = Backends(case.backend)
            try:
                storages = [S.PulseStorage(be.open()) for _ in range(case.k)]
                outcomes, last = [], {}
                for kind, k, rid, t in case.ops:
                    ps = storages[k]
                    if kind == 'set':
                        res = outcome(lambda: ps.__setitem__(rid, t))
                    elif kind == 'over':
                        res = outcome(lambda: ps.overwrite(rid, t))
                    else:
                        res = outcome(lambda: ps.__delitem__(rid))
                    outcomes.append(res[0] == 'ok')
                    if res[0] == 'ok':
                        # `storage[id] = t` with t already known to that storage writes nothing (documented no-op)
                        if kind == 'set' and last.get(rid) is not t and rid in last and last[rid] is not None:
                            pass
                        last[rid] = t if kind != 'del' else None
                fresh = be.open()
                ids = sorted(fresh)
                texts = {i: fresh.get(i) for i in ids}
                problems = []
                for rid, t in last.items():
                    if t is None:
                        if rid in ids:
                            problems.append('%r was deleted last but is still in the backend' % rid)
                    else:
                        probs = loaded_problems(be.open(), t, case.assign)
                        cls = [k for k, pred in KNOWN_CLASSES.items() if pred(t)] if probs else []
                        if cls:
                            ctx.count('known-class:' + ','.join(cls))       # (open finding, see known_findings.jsonl)
                        elif probs:
                            problems.append('the last store of %r returned normally but a fresh storage does not load that '
                                            'template back: %s' % (rid, ', '.join(probs)))
            finally:
                be.close()
            tok = Tok()
            memo: dict = {}
            ops_sx = []
            for kind, k, rid, t in case.ops:
                if kind == 'del':
                    ops_sx.append('(del %d %s)' % (k, tok(rid)))
                else:
                    ops_sx.append('(%s %d %s)' % (kind, k, tree_sx(t, tok, memo)))
            line = '(c10 multi (%s))' % ' '.join(ops_sx)
            lines.append(line)
            recs.append((case, line, outcomes, ids, texts, problems, tok))
    answers = core.Lean.run(lines)
    for (case, line, outcomes, ids, texts, problems, tok), ans in zip(recs, answers):
        ctx.case(line, nontrivial=True)
        ctx.count('%s:backend:%s' % (label, case.backend))
        ctx.count('%s:ops' % label, len(case.ops))
        ctx.count('%s:ops-raised' % label, outcomes.count(False))
        rep = {'kind': 'multi', 'case_seed': case.seed, 'script': getattr(case, 'script_name', None),
               'backend': case.backend, 'history': case.describe()}
        drift = None
        if ans[0] == 'ok':
            model = {e[0]: e[1:] for e in ans[1:]}
            m_out = [x == 'true' for x in model['outcomes']]
            m_ids = sorted(tok.back.get(e[0], e[0]) for e in model['docs'])
            m_refs = {tok.back.get(e[0], e[0]): sorted(tok.back.get(t, t) for t in e[1]) for e in model['refs']}
            if m_out != outcomes:
                drift = ('outcomes of a multi-storage history', outcomes, m_out)
            else:
                if ids != m_ids:
                    problems.append('stored identifiers %r, expected %r' % (ids, m_ids))
                for i in ids:
                    try:
                        refs = sorted(doc_refs(json.loads(texts[i])))
                    except Exception as e:  # noqa
                        problems.append('document %r is not valid JSON' % i)
                        continue
                    if i in m_refs and refs != m_refs[i]:
                        problems.append('document %r references %r, expected %r' % (i, refs, m_refs[i]))
        else:
            drift = ('multi-storage request', 'ok', ans)
        if problems:
            ctx.violation('%s [several PulseStorage objects over one %s backend; history: %s]'
                          % (problems[0], case.backend, [(o[0], o[1], o[2]) for o in case.ops]),
                          dict(rep, all=problems[:8]))
        elif drift:
            ctx.drift(drift[0], line[:500], str(drift[1])[:300], str(drift[2])[:300])


def multi_cases(ctx: core.Ctx, n: int):
    rng = ctx.fork('multi')
    out = []
    for name, (k, script) in MULTI_SCRIPTS.items():
        for b in ('dict', 'fs', 'zip'):
            try:
                c = MultiCase(rng.getrandbits(48), script)
            except Exception as e:  # noqa
                ctx.count('generator-rejected:' + type(e).__name__)
                continue
            c.k, c.backend, c.script_name = max(c.k, k), b, name
            out.append(c)
    for _ in range(n):
        try:
            out.append(MultiCase(rng.getrandbits(48)))
        except Exception as e:  # noqa
            ctx.count('generator-rejected:' + type(e).__name__)
    return out


# ------------------------------------------------------------------------------------------------
# known findings
# ------------------------------------------------------------------------------------------------

def known_findings(ctx: core.Ctx):
    """replay the witnesses of the open findings; print the KNOWN-FINDING line while they reproduce"""
    listed = {kf.get('finding'): kf for kf in ctx.findings.for_property('C10')}
    for fid, names in (('PF-C10b', ['derived_float', 'nested_mapping_float']), ('PF-C10c', ['int_channel']),
                       ('PF-C10f', ['timetype_duration'])):
        for name in names:
            with warnings.catch_warnings():
                warnings.simplefilter('ignore')
                roots, assign = witness(name)
                p = quick_problems(roots, 'dict', assign)
            ctx.case('known:' + name, nontrivial=False)
            if p and fid in listed:
                ctx.known_finding(fid, '%s: %s (%s)' % (name, listed[fid].get('what', ''), ','.join(p)))
            elif p:
                ctx.violation('witness %s fails (%s) and %s is not listed in known_findings.jsonl' % (name, p, fid),
                              {'kind': 'witness', 'name': name, 'problems': p})


# ------------------------------------------------------------------------------------------------
# run / replay
# ------------------------------------------------------------------------------------------------

def flush(ctx: core.Ctx, lean_lines: list, pending: list) -> List[str]:
    found = []
    if not pending:
        return found
    answers = core.Lean.run(lean_lines)
    pos = 0
    for rec in pending:
        found += judge_case(ctx, rec, answers[pos:pos + rec['n_lines']])
        pos += rec['n_lines']
    lean_lines.clear()
    pending.clear()
    return found


def run_cases(ctx: core.Ctx, cases, label: str) -> List[str]:
    lean_lines: list = []
    pending: list = []
    found: List[str] = []
    for case in cases:
        try:
            check_case(ctx, case, label, lean_lines, pending)
        except core.MachineryError:
            raise
        if len(pending) >= 200:
            found += flush(ctx, lean_lines, pending)
    found += flush(ctx, lean_lines, pending)
    return found


def random_cases(ctx: core.Ctx, n: int, stream: str, opts: dict):
    import signal
    rng = ctx.fork(stream)
    for _ in range(n):
        seed = rng.getrandbits(48)
        old = signal.signal(signal.SIGALRM, _alarm)
        signal.alarm(20)
        try:
            case = Case(seed, opts)
            if sum(case.gen.size(r) for r in case.roots) > 400:
                ctx.count('generator-rejected:too-large')
                continue
        except _Timeout:
            ctx.count('generator-rejected:timeout')
            continue
        except Exception as e:  # noqa  (a generated tree the constructors reject: not a case)
            ctx.count('generator-rejected:' + type(e).__name__)
            continue
        finally:
            signal.alarm(0)
            signal.signal(signal.SIGALRM, old)
        yield case


def _worker(args):
    """thorough tier: a chunk of random cases in a child process; returns counters and violations"""
    pid, tier, seed, stream, n, opts = args
    import core as _core
    _core.ensure_repo_on_path()
    sub = _core.Ctx(pid, tier, seed)
    sub.quiet = True
    run_cases(sub, random_cases(sub, n, stream, opts), 'random')
    return {'counters': sub.counters, 'evaluations': sub.evaluations, 'distinct': list(sub.distinct),
            'violations': sub.violations, 'drifts': sub.drifts, 'disagreements': sub.disagreements,
            'samples': sub.samples}


def run(ctx: core.Ctx):
    ctx.rule = ('random forests of 1-3 named roots, depth <= 3 (thorough: <= 4), over all 14 serialisable '
                'pulse-template classes built from the real classes, identifiers on ~35% of the nodes, named objects '
                're-used as the same Python object by later parents, explicit stores = roots + random named nodes in '
                'random order, backend dict / directory / zip; plus the targeted enumeration (every class x every '
                'subset of its optional attributes x named/anonymous child) and a malformed stream (identifier '
                'clashes, missing / cyclic / id-less references, missing / unexpected keys, unknown type) and an '
                'after-failure stream (a store that is rejected or fails mid-transaction - wrong key, identifier clash of '
                'a nested template, identifier only in the backend, un-serialisable object - precedes valid stores on the '
                'same PulseStorage) and a multi-storage stream (2-3 live PulseStorage objects over one backend, interleaved '
                'first stores / overwrites of new or own earlier versions / deletes of root identifiers; last normal store wins). '
                'Non-trivial = the forest has more than one named node (so references exist); distinct by the '
                'canonical model request (tree shapes with identifiers)')
    ctx.assumptions = [
        'Python object identity is modelled as structural equality of template trees (the generator never builds two '
        'equal objects with the same identifier)',
        'json.dumps / json.loads, zipfile and the file system are the trusted libraries; documents are JSON values in the '
        'model, their text form is checked with json.loads on every run',
        'expressions, numbers and names are opaque atoms in the model: repr(float) and sympy print/parse round trips are '
        'exercised behaviourally (loaded == original, identical samples) only',
    ]
    for rec in ctx.corpus():
        replay(ctx, rec, from_corpus=True)
        ctx.corpus_replayed += 1
    known_findings(ctx)
    malformed(ctx)
    cases = small_scope(ctx)
    ctx.exhaustive_spaces.append('every class x every subset of its optional attributes (measurements, constraints, '
                                 'mappings, AMC duration, ConstantPT name, AbstractPT interface) x named/anonymous '
                                 'child; 4 store orders of a shared object (%d cases)' % len(cases))
    run_cases(ctx, cases, 'enum')
    opts = {'depth': 3}
    # several live storages over one backend: the backend is the single source of truth
    run_multi(ctx, multi_cases(ctx, ctx.n(30, 1500)), 'multi')
    # a rejected / failing store on the same PulseStorage must not affect later stores
    af_opts = {'depth': 2, 'roots': 2, 'assignments': 1}
    run_cases(ctx, after_failure_cases(ctx, ctx.n(30, 600), 'after-failure', af_opts), 'after-failure')
    if ctx.quick:
        run_cases(ctx, random_cases(ctx, 170, 'random', opts), 'random')
        run_cases(ctx, random_cases(ctx, 24, 'abstract', dict(opts, allow_abstract=True)), 'abstract')
    else:
        import multiprocessing
        jobs = []
        for k in range(24):
            jobs.append((ctx.pid, ctx.tier, ctx.seed, 'random-%d' % k, 500, dict(opts, depth=3 + k % 2)))
        for k in range(4):
            jobs.append((ctx.pid, ctx.tier, ctx.seed, 'abstract-%d' % k, 250, dict(opts, allow_abstract=True)))
        with multiprocessing.get_context('fork').Pool(16) as pool:
            for res in pool.imap_unordered(_worker, jobs):
                for k, v in res['counters'].items():
                    ctx.count(k, v)
                ctx.evaluations += res['evaluations']
                ctx.distinct.update(res['distinct'])
                ctx.disagreements += res['disagreements']
                ctx.drifts.extend(res['drifts'])
                for v in res['violations']:
                    ctx.violations.append(v)
                for s in res['samples']:
                    if len(ctx.samples) < 12:
                        ctx.samples.append(s)
    if ctx.drifts and not ctx.violations:
        # failing-input search: model and implementation differ somewhere but no case violated the property so far
        # (every case above, incl. the targeted enumeration, was already judged on the implementation's output):
        # judge a further batch of fresh random forests
        ctx.count('search:extra-batch')
        run_cases(ctx, random_cases(ctx, ctx.n(150, 2000), 'search', opts), 'search')
    ctx.extra['structural_agreement'] = {k: v for k, v in ctx.counters.items() if k.startswith('structural:')}


def replay(ctx: core.Ctx, rec: dict, from_corpus: bool = False) -> bool:
    kind = rec.get('kind')
    before = len(ctx.violations)
    if kind == 'tree':
        case = Case(rec['case_seed'], rec.get('opts', {}))
        if rec.get('backend'):
            case.backend = rec['backend']
        run_cases(ctx, [case], 'replay')
    elif kind == 'witness':
        with warnings.catch_warnings():
            warnings.simplefilter('ignore')
            roots, assign = witness(rec['name'])
        for backend in rec.get('backends', ['dict', 'fs', 'zip', 'caching']):
            with warnings.catch_warnings():
                warnings.simplefilter('ignore')
                roots, assign = witness(rec['name'])
            run_cases(ctx, [Built(roots, backend=backend, assign=assign,
                                  origin={'kind': 'witness', 'name': rec['name'], 'backends': [backend]})], 'corpus')
    elif kind == 'multi':
        if rec.get('script'):
            k, script = MULTI_SCRIPTS[rec['script']]
            c = MultiCase(rec['case_seed'], script)
            c.k, c.backend, c.script_name = max(c.k, k), rec.get('backend', c.backend), rec['script']
        else:
            c = MultiCase(rec['case_seed'])
        run_multi(ctx, [c], 'replay')
    elif kind == 'after-failure':
        run_cases(ctx, [AfterFailure(rec['case_seed'], rec.get('opts', {}), rec['prelude'])], 'replay')
    elif kind == 'enum':
        with warnings.catch_warnings():
            warnings.simplefilter('ignore')
            cases = small_scope(ctx)
        run_cases(ctx, [cases[rec['index']]], 'replay')
    elif kind == 'malformed':
        malformed(ctx)
    else:
        raise core.MachineryError('unknown replay record kind %r' % kind)
    return len(ctx.violations) == before
