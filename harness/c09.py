"""C09 — program-tree bookkeeping stays coherent under every sequence of edits.

Correspondence: histories of the public editing operations are executed on REAL `Loop` objects;
after every step the complete bookkeeping state (structure, counts, waveforms, measurements,
`_cached_body_duration`, `_Node__parent_index`, parent identity) is dumped and handed to the Lean
model `QP.C09`, which replays the same operations (`(c09 check …)`), answers with its own state per
step and *judges the implementation's state* with the executable spec `coherentB`.  In addition
the property predicates are evaluated directly on the objects: `node.duration` against a
recomputation from the leaves, `root.locate(node.get_location()) is node`, `child.parent is node`.
"""
from __future__ import annotations

import fractions
import hashlib
import itertools
import json
import multiprocessing
import os
import random
import time
import warnings

import core
from core import sx, parse_sx

F = fractions.Fraction
PID = 'C09'


def _imports():
    from qupulse.program.loop import Loop, roll_constant_waveforms
    from qupulse.program.waveforms import (ConstantWaveform, TableWaveform, TableWaveformEntry,
                                           ReversedWaveform)
    from qupulse.pulses.interpolation import HoldInterpolationStrategy, LinearInterpolationStrategy
    from qupulse.utils.types import TimeType, FrozenDict
    from qupulse.utils.tree import Node
    from qupulse.program.volatile import VolatileRepetitionCount
    from qupulse.parameter_scope import DictScope
    from qupulse.expressions import ExpressionScalar
    return locals()


_Q = None


def Q():
    global _Q
    if _Q is None:
        _Q = type('Q', (), _imports())
    return _Q


ERR = {'TypeError': 'type_error', 'IndexError': 'index_error', 'ValueError': 'value_error',
       'RuntimeError': 'runtime_error', 'AssertionError': 'assertion', 'AttributeError': 'attribute_error'}


# ---------------------------------------------------------------------------------------------
# waveforms: abstract records (kind, dur, const, rev) <-> real qupulse waveforms
# ---------------------------------------------------------------------------------------------

_WF_CACHE = {}


def mk_wf(desc):
    """desc = (kind, Fraction dur, const, rev)"""
    q = Q()
    kind, dur, const, rev = desc
    key = (kind, dur, const, rev)
    if key in _WF_CACHE:
        return _WF_CACHE[key]
    if const:
        w = q.ConstantWaveform.from_mapping(q.TimeType.from_fraction(dur.numerator, dur.denominator),
                                            {'A': float(kind)})
        assert isinstance(w, q.ConstantWaveform)
    else:
        # a ramp: not constant; durations of ramps are dyadic so the float entry time is exact
        f = dur.numerator / dur.denominator
        assert F(f) == dur
        w = q.TableWaveform.from_table('A', [
            q.TableWaveformEntry(0, 0.0, q.HoldInterpolationStrategy()),
            q.TableWaveformEntry(f, float(kind + 1), q.LinearInterpolationStrategy())])
        if rev:
            w = w.reversed()
    _WF_CACHE[key] = w
    return w


def wf_desc(w):
    q = Q()
    if w is None:
        return None
    if isinstance(w, q.ConstantWaveform):
        return (int(w._amplitude), core.to_frac(w.duration), True, False)
    if isinstance(w, q.ReversedWaveform):
        k, d, c, r = wf_desc(w._inner)
        return (k, d, c, not r)
    if isinstance(w, q.TableWaveform):
        return (int(w._table[-1].v) - 1, core.to_frac(w.duration), False, False)
    raise core.MachineryError('unexpected waveform %r' % (w,))


def wf_sx(d):
    return '-' if d is None else ['w', d[0], d[1], d[2], d[3]]


# ---------------------------------------------------------------------------------------------
# a world: one main tree of real Loop objects plus detached sub-trees, with uid numbering
# ---------------------------------------------------------------------------------------------

def mk_rep(rep, vol):
    q = Q()
    if vol:
        # the VALUE of a volatile count may be any number (`__int__` rounds and clamps); dyadic fractions stay exact
        val = int(rep) if F(rep).denominator == 1 else float(F(rep))
        return q.VolatileRepetitionCount(q.ExpressionScalar('v'),
                                         q.DictScope(q.FrozenDict({'v': val}), volatile={'v'}))
    return int(rep)


def build(spec):
    """spec = {'rep','vol','wf','meas','kids'} -> Loop"""
    q = Q()
    meas = [('m%d' % n, _num(b), _num(l)) for n, b, l in spec.get('meas', [])] or None
    return q.Loop(children=[build(k) for k in spec.get('kids', [])],
                  waveform=mk_wf(tuple(spec['wf'])) if spec.get('wf') else None,
                  measurements=meas,
                  repetition_count=mk_rep(spec.get('rep', 1), spec.get('vol', False)))


def _num(x):
    """measurement numbers: ints stay ints, other dyadics become floats (exact)"""
    x = F(x)
    if x.denominator == 1:
        return int(x)
    f = x.numerator / x.denominator
    assert F(f) == x
    return f


class World:
    def __init__(self, spec):
        self.uids = {}
        self.keep = []          # keeps every object alive: parent pointers are weak references
        self.next = 0
        self.stash = []
        self.root = build(spec)
        self.number(self.root)

    @classmethod
    def from_loop(cls, loop):
        w = cls.__new__(cls)
        w.uids, w.keep, w.next, w.stash, w.root = {}, [], 0, [], loop
        w.number(loop)
        return w

    def number(self, node):
        """give uids to unseen objects in depth-first pre-order"""
        if id(node) not in self.uids:
            self.uids[id(node)] = self.next
            self.next += 1
            self.keep.append(node)
        for c in node:
            self.number(c)

    def uid(self, obj):
        if obj is None:
            return '-'
        if id(obj) not in self.uids:
            self.number(obj)
        return self.uids[id(obj)]

    def node_at(self, path, root=None):
        n = self.root if root is None else root
        for k in path:
            if k >= len(n):
                return None
            n = n[k]
        return n

    def dump(self, node):
        q = Q()
        rd = node._repetition_definition
        cache = node._cached_body_duration
        meas = [['m', int(name[1:]), core.to_frac(b), core.to_frac(l)] for name, b, l in (node._measurements or [])]
        pidx = node._Node__parent_index
        return ['n', self.uid(node), int(node.repetition_count), isinstance(rd, q.VolatileRepetitionCount),
                wf_sx(wf_desc(node._waveform)), meas,
                '-' if cache is None else core.to_frac(cache),
                '-' if pidx is None else int(pidx),
                self.uid(node.parent),
                [self.dump(c) for c in node]]

    def nodes(self, root=None, path=()):
        root = self.root if root is None else root
        yield path, root
        for k, c in enumerate(root):
            yield from self.nodes(c, path + (k,))


def recomputed_body(node) -> F:
    """body duration from leaves and counts only (no caches)"""
    if len(node) == 0:
        return core.to_frac(node._waveform.duration) if node._waveform is not None else F(0)
    return sum((recomputed_body(c) * int(c.repetition_count) for c in node), F(0))


def rebuild(node, empty, tweak=None):
    """A freshly constructed program with the same structure, counts (the very same repetition definitions),
    waveforms and measurements; 'no measurements' is written as `empty` (None or []).  `tweak = (k, how)` changes
    the k-th node (pre-order) in one respect: a near miss."""
    q = Q()
    counter = [0]

    def go(n):
        k = counter[0]
        counter[0] += 1
        meas = list(n._measurements) if n._measurements else (None if empty is None else [])
        rep = n._repetition_definition
        wf = n._waveform
        extra = []
        if tweak is not None and tweak[0] == k:
            how = tweak[1]
            if how == 'count':
                rep = n.repetition_count + 1
            elif how == 'waveform':
                wf = mk_wf((3, F(7), True, False)) if (wf is None or wf_desc(wf) != (3, F(7), True, False)) \
                    else mk_wf((2, F(7), True, False))
            elif how == 'measurement':
                meas = list(meas or []) + [('m7', 0, 1)]
            else:
                extra = [q.Loop(waveform=mk_wf((1, F(1), True, False)))]
        kids = [go(c) for c in n]
        return q.Loop(children=kids + extra, waveform=wf, measurements=meas, repetition_count=rep)
    return go(node)


def equality_predicates(world: World, salt: int = 0):
    """`Loop.__eq__` is decided by structure, counts, waveforms and measurements only: the program equals its own
    copy and a fresh construction of the same content (however 'no measurements' is spelled), and differs from
    near misses.  Evaluated on the implementation; nothing is mutated."""
    root = world.root
    try:
        copy = root.copy_tree_structure()
        if not (root == copy) or (root != copy):
            return 'the program does not compare equal to its own copy_tree_structure()'
        # both spellings of 'no measurements' within any two consecutive steps (one fresh construction per step)
        for empty in ((None,) if salt % 2 else ([],)):
            twin = rebuild(root, empty)
            if not ((twin == root) if empty is None else (root == twin)):
                return ('the program does not compare equal to a freshly constructed program with the same structure, '
                        'counts, waveforms and measurements (no measurements written as %r)' % (empty,))
        size = sum(1 for _ in world.nodes())
        how = ('count', 'waveform', 'measurement', 'child')[salt % 4]
        k = (salt // 4) % size
        near = rebuild(root, None, (k, how))
        if (root == near) if salt % 2 else (near == root):
            return 'the program compares equal to a program whose node %d differs in its %s' % (k, how)
    except Exception as e:  # noqa
        return 'comparing the program raised %s' % type(e).__name__
    return None


def direct_predicates(world: World, locations: bool = True):
    """The property predicates on the real objects.  Returns None or a description of the first failure.
    Reading `duration` fills caches, so the cache fields are saved and restored around the evaluation."""
    q = Q()
    root = world.root
    allnodes = list(world.nodes())
    saved = [(n, n._cached_body_duration) for _p, n in allnodes]
    try:
        for path, n in allnodes:
            try:
                rep = core.to_frac(n.duration)
            except Exception as e:  # noqa
                return 'duration of node %s raised %s' % (list(path), type(e).__name__)
            want = recomputed_body(n) * int(n.repetition_count)
            if rep != want:
                return 'node %s reports duration %s, recomputed from leaves and counts %s' % (list(path), rep, want)
    finally:
        for n, c in saved:
            n._cached_body_duration = c
    old = q.Node.debug
    for path, n in allnodes:
        for k, c in enumerate(n):
            if c.parent is not n:
                return 'child %d of node %s has a different parent' % (k, list(path))
        for dbg in ((False, True) if locations else ()):
            q.Node.debug = dbg
            try:
                loc = n.get_location()
                ok = loc == tuple(path) and root.locate(loc) is n
            except Exception as e:  # noqa
                ok = False
                loc = '%s raised' % type(e).__name__
            finally:
                q.Node.debug = old
            if not ok:
                return 'node at %s records location %s (Node.debug=%s)' % (list(path), loc, dbg)
    return None


# ---------------------------------------------------------------------------------------------
# operations: JSON-able lists, executed on the implementation and serialised for the model
# ---------------------------------------------------------------------------------------------

def copy_request(world: World, node, mode):
    """Perform `node.copy_tree_structure(...)` with the `new_parent` argument in the requested form.
    mode: True = default, False = `new_parent=None`, 'empty' = a childless fresh Loop, 'nonempty' = a fresh Loop
    with a child.  Returns (thunk, model argument, holder)."""
    q = Q()
    holder = {}
    if mode is True:
        return (lambda: node.copy_tree_structure()), True, holder
    if mode is False:
        return (lambda: node.copy_tree_structure(new_parent=None)), False, holder
    P = q.Loop() if mode == 'empty' else q.Loop(children=[q.Loop(waveform=mk_wf((1, F(1), True, False)))])
    world.number(P)
    holder['P'] = P
    return (lambda: node.copy_tree_structure(new_parent=P)), ['par', world.uids[id(P)], world.next], holder


def copy_issue(node, out, mode, holder):
    """The copy's root has exactly the requested parent and no recorded position; inside the copy every child's parent
    is the node that lists it; a parentless copy is a program of its own (every node locates from its root)."""
    want = node.parent if mode is True else (None if mode is False else holder['P'])
    if out.parent is not want:
        return ('copy_tree_structure(%s) returned a copy whose parent is %s' %
                ({True: '', False: 'new_parent=None', 'empty': 'new_parent=<childless Loop>',
                  'nonempty': 'new_parent=<Loop with a child>'}[mode],
                 'None' if out.parent is None else ("the ORIGINAL's parent" if out.parent is node.parent else 'another node')))
    if out._Node__parent_index is not None:
        return 'the copy records a position although no node lists it'
    stack = [out]
    while stack:
        n = stack.pop()
        for k, c in enumerate(n):
            if c.parent is not n or c._Node__parent_index != k:
                return 'inside the copy a child does not point to the node that lists it'
            stack.append(c)
    if mode is False:
        stack = [out]
        while stack:
            n = stack.pop()
            try:
                ok = n.get_root() is out and out.locate(n.get_location()) is n
            except Exception:  # noqa
                ok = False
            if not ok:
                return 'a node of the parentless copy is not located from the copy\'s root by its recorded location'
            stack.extend(n)
    return None


def _arg(world: World, ref, target):
    """resolve an argument reference to a real Loop (and whether it came from the stash)"""
    kind = ref[0]
    if kind == 'fresh':
        node = build(ref[1])
        world.number(node)
        return node
    if kind == 'stash':
        if ref[1] >= len(world.stash):
            return None
        return world.stash.pop(ref[1])
    if kind == 'kid':
        return target[ref[1]] if ref[1] < len(target) else None
    raise core.MachineryError('bad arg ref %r' % (ref,))


def _opt(x):
    return '-' if x is None else x


def exec_op(world: World, op):
    """Execute one operation. Returns (lean_op, err, out) or None when the operation does not apply
    to the current state (replay / shrinking may produce such operations; they are skipped)."""
    q = Q()
    name, path = op[0], list(op[1])
    node = world.node_at(path)
    if node is None:
        return None
    out = None
    world.issue = None  # a failed judgement about the operation's own result (copy)
    pre = []            # sub-steps performed inside the operation: (model operation, dump right after it)
    pl = list(path)
    thunk = None
    if name == 'query':
        lean = ['query', pl]
        thunk = lambda: node.duration
    elif name == 'append':
        a = _arg(world, op[2], node)
        if a is None:
            return None
        lean = ['append', pl, world.dump(a)]
        if op[3] == 'kwargs' and op[2][0] == 'fresh' and not op[2][1].get('kids'):
            # the keyword form builds the child itself; give it the uid the model expects
            spec = op[2][1]
            uid = world.uids[id(a)]

            def thunk():
                meas = [('m%d' % n, _num(b), _num(l)) for n, b, l in spec.get('meas', [])] or None
                node.append_child(waveform=mk_wf(tuple(spec['wf'])) if spec.get('wf') else None,
                                  repetition_count=mk_rep(spec.get('rep', 1), spec.get('vol', False)),
                                  measurements=meas)
                world.uids[id(node[-1])] = uid
                world.keep.append(node[-1])
        else:
            thunk = lambda: node.append_child(a)
    elif name == 'setitem':
        if op[3] == ['same']:
            # the child that already sits at this index (`node[i] = node[i]`)
            a = node[op[2]] if -len(node) <= op[2] < len(node) else None
        else:
            a = _arg(world, op[3], node)
        if a is None:
            return None
        lean = ['setitem', pl, op[2], world.dump(a)]

        def thunk():
            node[op[2]] = a
    elif name == 'setslice':
        vs = [_arg(world, r, node) for r in op[5]]
        if any(v is None for v in vs):
            return None
        lean = ['setslice', pl, _opt(op[2]), _opt(op[3]), _opt(op[4]), [world.dump(v) for v in vs]]
        lazy = op[6] if len(op) > 6 else None

        if not lazy:
            def thunk():
                node[slice(op[2], op[3], op[4])] = vs
        else:
            # the assigned value is a GENERATOR that reads durations of nodes of the tree while it is consumed
            # (`Node.__setitem__` consumes it before it stores the children); in the model: queries, then the store
            def lazily():
                for k in range(len(vs) + 1):
                    for pos, qp in lazy:
                        target = world.node_at(qp)
                        if pos == k and target is not None:
                            target.duration
                            pre.append((['query', list(qp)], world.dump(world.root)))
                    if k < len(vs):
                        yield vs[k]

            def thunk():
                node[slice(op[2], op[3], op[4])] = lazily()
    elif name == 'setwf':
        d = tuple(op[2]) if op[2] else None
        lean = ['setwf', pl, wf_sx(d)]

        def thunk():
            node.waveform = mk_wf(d) if d else None
    elif name == 'setrep':
        r, how = op[2], op[3]
        lean = ['setrep', pl, max(r, 0) if how == 'vol' else r, how == 'vol']

        def thunk():
            if how == 'count':
                node.repetition_count = r
            elif how == 'def':
                node.repetition_definition = r
            elif how == 'volfrac':
                node.repetition_definition = mk_rep(r, True)
            else:
                node.repetition_definition = mk_rep(max(r, 0), True)
    elif name == 'unroll':
        lean = ['unroll', pl]
        thunk = node.unroll
    elif name == 'unrollchildren':
        lean = ['unrollchildren', pl]
        thunk = node.unroll_children
    elif name == 'split':
        lean = ['split', pl, _opt(op[2])]
        thunk = (lambda: node.split_one_child()) if op[2] is None else (lambda: node.split_one_child(op[2]))
    elif name == 'encapsulate':
        lean = ['encapsulate', pl]
        thunk = node.encapsulate
    elif name == 'merge':
        lean = ['merge', pl]
        thunk = node._merge_single_child
    elif name == 'cleanup':
        acts = tuple(a for a, on in (('remove_empty_loops', op[2]), ('merge_single_child', op[3])) if on)
        lean = ['cleanup', pl, bool(op[2]), bool(op[3])]
        thunk = lambda: node.cleanup(acts)
    elif name == 'reverse':
        lean = ['reverse', pl]
        thunk = node.reverse_inplace
    elif name == 'roll':
        sr = F(op[4][0], op[4][1])
        lean = ['roll', pl, op[2], op[3], sr]
        thunk = lambda: q.roll_constant_waveforms(node, op[2], op[3],
                                                  q.TimeType.from_fraction(sr.numerator, sr.denominator))
    elif name == 'addmeas':
        ms = [('m%d' % n, _num(b), _num(l)) for n, b, l in op[2]]
        how = op[3] if len(op) > 3 else 'list'
        lean = ['addmeas', pl, [['m', n, F(b), F(l)] for n, b, l in op[2]]]

        def thunk():
            node.add_measurements(iter(ms) if how == 'iter' else (tuple(ms) if how == 'tuple' else list(ms)))
    elif name == 'dropmeas':
        lean = ['dropmeas', pl]
        thunk = lambda: node.get_measurement_windows(drop=True)
    elif name == 'copy':
        do_copy, arg, holder = copy_request(world, node, op[2])
        lean = ['copy', pl, arg]

        def thunk():
            nonlocal out
            out = do_copy()
            world.issue = copy_issue(node, out, op[2], holder)
    else:
        raise core.MachineryError('unknown op %r' % (op,))

    before = {id(n): n for _p, n in world.nodes()}
    err = None
    try:
        with warnings.catch_warnings():
            warnings.simplefilter('ignore')
            thunk()
    except Exception as e:  # noqa
        err = ERR.get(type(e).__name__, 'other:' + type(e).__name__)
    world.number(world.root)
    if out is not None:
        world.number(out)
    # detached sub-trees become available as arguments of later operations
    after = {id(n) for _p, n in world.nodes()}
    gone = [n for i, n in before.items() if i not in after]
    gone_ids = {id(n) for n in gone}
    # `_merge_single_child` hands the child's measurement LIST OBJECT to the parent (and extends it in place): a
    # removed node that shares its list with a node of the tree is not an independent program any more
    live_lists = {id(m._measurements) for _p, m in world.nodes() if m._measurements is not None}
    for st in world.stash:
        live_lists.update(id(m._measurements) for _p, m in world.nodes(st) if m._measurements is not None)
    for n in gone:
        par = n.parent
        if par is not None and id(par) in gone_ids and any(c is n for c in par):
            continue        # not a top-most removed node
        sub = [m for _p, m in world.nodes(n)]
        if any(id(m) in after for m in sub) or len(sub) != len({id(m) for m in sub}):
            continue        # gutted by _merge_single_child / shares nodes with the tree
        lists = [id(m._measurements) for m in sub if m._measurements is not None]
        if any(i in live_lists for i in lists) or len(lists) != len(set(lists)):
            continue        # shares a measurement list object with the tree, the stash, or a node removed with it
        live_lists.update(lists)
        if all(c.parent is m for m in sub for c in m) and len(world.stash) < 6:
            world.stash.append(n)
    if out is not None and len(world.stash) < 6:
        world.stash.append(out)
    return lean, err, out, pre


def _vol_nested(node, above: bool) -> bool:
    """a node with a volatile count below another one"""
    vol = bool(node.volatile_repetition)
    if vol and above:
        return True
    return any(_vol_nested(c, above or vol) for c in node)


def _dropmeas_ok(node):
    """(ok, has measurements): collecting windows below a count <= 0 raises ValueError in numpy half-way through
    (window arithmetic, C02's business) - not generated"""
    has = len(node._measurements or ())
    ok = True
    for c in node:
        o, h = _dropmeas_ok(c)
        ok = ok and o
        has = has + h
    if has and node.repetition_count <= 0:
        ok = False
    has = has * max(node.repetition_count, 0)      # windows are materialised once per repetition (numpy.tile)
    if has > 20000:
        ok = False
    return ok, has


def applicable_pre(world: World, op) -> bool:
    """`Pre` of the model plus the input classes left to other findings (see notes/C09.md)."""
    name, path = op[0], op[1]
    node = world.node_at(path)
    if node is None:
        return False
    if name == 'append':
        return node._waveform is None
    if name in ('roll', 'cleanup'):
        if name == 'cleanup' and op[3] and _vol_nested(node, False):
            return False                          # cleanup would merge two volatile counts (PF-07/08)
        if name == 'cleanup' and op[3]:
            sub = [n for _p, n in world.nodes(node)]
            if any(n.volatile_repetition for n in sub) and any(n.repetition_count < 0 and not n.volatile_repetition for n in sub):
                return False                      # could multiply a volatile expression by a negative count
        return all(not (n._waveform is not None and len(n) > 0) for _p, n in world.nodes(node))
    if name == 'dropmeas':
        return _dropmeas_ok(node)[0]
    if name == 'merge':
        if len(node) == 1:
            a, b = bool(node.volatile_repetition), bool(node[0].volatile_repetition)
            if a and b:
                return False                      # PF-07/08
            if (a and node[0].repetition_count < 0) or (b and node.repetition_count < 0):
                return False                      # volatile expression times a negative count, see notes
        return True
    return True


# ---------------------------------------------------------------------------------------------
# generators
# ---------------------------------------------------------------------------------------------

CONST_DURS = [F(1), F(2), F(3), F(16), F(48), F(64), F(70), F(96), F(512), F(1, 2), F(3, 4), F(1, 3), F(5, 3), F(192)]
RAMP_DURS = [F(1), F(2), F(5), F(16), F(64), F(1, 2), F(3, 4), F(5, 4)]


def rand_wf(rng):
    if rng.random() < 0.7:
        return [rng.randrange(4), rng.choice(CONST_DURS), True, False]
    return [rng.randrange(3), rng.choice(RAMP_DURS), False, rng.random() < 0.2]


def rand_rep(rng):
    r = rng.random()
    if r < 0.45:
        return 1
    if r < 0.9:
        return rng.randrange(2, 5)
    if r < 0.96:
        return 0
    return rng.choice([-1, 7, 10 ** 6])


def rand_meas(rng):
    if rng.random() < 0.75:
        return []
    return [[rng.randrange(3), F(rng.randrange(0, 9), 4), F(rng.randrange(1, 9), 4)] for _ in range(rng.randrange(1, 3))]


def rand_spec(rng, depth, budget):
    """budget = [remaining nodes]"""
    budget[0] -= 1
    vol = rng.random() < 0.08
    rep = rand_rep(rng)
    if vol:
        rep = max(rep, 0) if rep < 100 else 3
    spec = {'rep': rep, 'vol': vol, 'wf': None, 'meas': rand_meas(rng), 'kids': []}
    if depth == 0 or budget[0] <= 0 or rng.random() < 0.35:
        if rng.random() < 0.92:
            spec['wf'] = rand_wf(rng)
        return spec
    n = rng.randrange(1, 4)
    for _ in range(n):
        if budget[0] <= 0:
            break
        spec['kids'].append(rand_spec(rng, depth - 1, budget))
    return spec


def fresh_arg(rng):
    return ['fresh', rand_spec(rng, rng.choice([0, 0, 0, 1, 2]), [rng.randrange(1, 6)])]


def rand_arg(rng, world):
    if world.stash and rng.random() < 0.4:
        return ['stash', rng.randrange(len(world.stash))]
    return fresh_arg(rng)


OPS = ['addmeas', 'addmeas', 'dropmeas', 'query', 'query', 'query', 'append', 'append', 'setitem', 'setslice', 'setslice', 'setwf', 'setrep', 'setrep',
       'unroll', 'unrollchildren', 'split', 'split', 'encapsulate', 'merge', 'cleanup', 'reverse', 'roll', 'copy']


def rand_op(rng, world: World, max_nodes=70):
    """one operation for the current state; mostly valid, sometimes an error path"""
    nodes = list(world.nodes())
    size = len(nodes)
    for _ in range(50):
        name = rng.choice(OPS)
        path, node = rng.choice(nodes)
        path = list(path)
        n = len(node)
        bad = rng.random() < 0.06                      # malformed stream: error paths
        if name == 'query':
            op = ['query', path]
        elif name == 'addmeas':
            batch = [] if rng.random() < 0.45 else \
                [[rng.randrange(3), F(rng.randrange(0, 9), 4), F(rng.randrange(1, 9), 4)] for _ in range(rng.randrange(1, 3))]
            op = ['addmeas', path, batch, rng.choice(['list', 'iter', 'tuple'])]
        elif name == 'dropmeas':
            op = ['dropmeas', path]
        elif name == 'append':
            if size > max_nodes:
                continue
            op = ['append', path, rand_arg(rng, world), rng.choice(['loop', 'kwargs'])]
        elif name == 'setitem':
            if n == 0 and not bad:
                continue
            idx = rng.randrange(-n, n) if n and not bad else rng.choice([n, -n - 1, n + 3])
            if n and not bad and rng.random() < 0.3:
                # store the child at the position it already occupies (`node[i] = node[i]`, positive or negative i)
                op = ['setitem', path, idx, ['same']]
            else:
                op = ['setitem', path, idx, rand_arg(rng, world)]
        elif name == 'setslice':
            k = rng.random()
            if k < 0.45 or size > max_nodes:
                # plain slice, any bounds, any number of values
                start = rng.choice([None] + list(range(-n - 1, n + 2)))
                stop = rng.choice([None] + list(range(-n - 1, n + 2)))
                nv = rng.randrange(0, 3) if size <= max_nodes else 0
                op = ['setslice', path, start, stop, rng.choice([None, 1]), [fresh_arg(rng) for _ in range(nv)]]
                if rng.random() < 0.4:
                    # a lazily evaluated value that looks at durations of the target, its ancestors or other nodes
                    cand = [path[:j] for j in range(len(path) + 1)] * 2 + [list(p) for p, _m in nodes]
                    op.append([[rng.randrange(0, nv + 1), rng.choice(cand)] for _ in range(rng.randrange(1, 4))])
            elif k < 0.6:
                # permutation of the node's own children through an extended slice
                if n < 2:
                    continue
                op = ['setslice', path, None, None, -1, [['kid', j] for j in range(n)]]
            else:
                step = rng.choice([-3, -2, -1, 2, 3, 0] if bad else [-2, -1, 2, 3, -1, 2])
                start = rng.choice([None] + list(range(-n, n + 1)))
                stop = rng.choice([None, None] + list(range(-n, n + 1)))
                cnt = len(range(*slice(start, stop, step).indices(n))) if step else 1
                if bad:
                    cnt += rng.choice([-1, 1])
                if cnt < 0 or cnt > 4:
                    continue
                op = ['setslice', path, start, stop, step, [fresh_arg(rng) for _ in range(cnt)]]
        elif name == 'setwf':
            if n > 0 and rng.random() < 0.8:
                continue
            op = ['setwf', path, rand_wf(rng) if rng.random() < 0.85 else None]
        elif name == 'setrep':
            how = rng.choice(['count', 'count', 'def', 'vol'])
            op = ['setrep', path, rand_rep(rng) if how != 'vol' else rng.randrange(0, 4), how]
        elif name == 'unroll':
            if not bad and (not path or n == 0):
                continue
            if node.repetition_count * max(sum(1 for _ in world.nodes(node)), 1) + size > max_nodes + 30:
                continue
            op = ['unroll', path]
        elif name == 'unrollchildren':
            if node.repetition_count * max(sum(1 for _ in world.nodes(node)), 1) + size > max_nodes + 30:
                continue
            op = ['unrollchildren', path]
        elif name == 'split':
            if rng.random() < 0.5:
                op = ['split', path, None]
                if not bad and not any(c.repetition_count > 1 for c in node):
                    continue
            else:
                if n == 0 and not bad:
                    continue
                cand = [j for j, c in enumerate(node) if c.repetition_count > 1]
                idx = rng.choice(cand) if cand and not bad else rng.randrange(-n - 1, n + 2)
                if n and rng.random() < 0.3:
                    idx -= n                       # the same child addressed from the end
                op = ['split', path, idx]
        elif name == 'encapsulate':
            if size > max_nodes:
                continue
            op = ['encapsulate', path]
        elif name == 'merge':
            if n != 1 and not bad:
                continue
            op = ['merge', path]
        elif name == 'cleanup':
            op = ['cleanup', path, rng.random() < 0.8, rng.random() < 0.8]
        elif name == 'reverse':
            op = ['reverse', path]
        elif name == 'roll':
            op = ['roll', path, rng.choice([1, 1, 2, 3]), rng.choice([1, 4, 16, 16, 32]), rng.choice([[1, 1], [1, 1], [2, 1], [1, 2], [1, 4]])]
        else:
            op = ['copy', path, rng.choice([True, True, True, True, False, False, False, 'empty', 'empty', 'nonempty'])]
        if applicable_pre(world, op):
            return op
    return ['query', []]


# the exhaustive small-scope space: a 4-node tree and a fixed alphabet of operations
SMALL_TREE = {'rep': 2, 'kids': [
    {'rep': 3, 'meas': [[0, F(0), F(1)]], 'kids': [{'rep': 2, 'wf': [1, F(64), True, False]}]},
    {'rep': 1, 'wf': [0, F(3, 2), False, False]}]}
_LEAF = ['fresh', {'rep': 2, 'wf': [2, F(5), True, False]}]
ALPHABET = [
    ['query', []], ['query', [0]],
    ['unroll', [0]], ['unrollchildren', []], ['unrollchildren', [0]],
    ['split', [], None], ['encapsulate', [0]], ['encapsulate', [1]], ['merge', [0]],
    ['reverse', []], ['setrep', [0], 2, 'count'], ['setrep', [0, 0], 3, 'def'],
    ['append', [], _LEAF, 'loop'], ['append', [0], _LEAF, 'kwargs'],
    ['setslice', [], None, None, -1, [['kid', 0], ['kid', 1]]],
    ['setitem', [], -1, _LEAF],
    ['roll', [], 1, 16, [1, 1]], ['cleanup', [], True, True],
    ['setwf', [1], [3, F(2), True, False]], ['copy', [0], True],
]
ALPHABET_EXTRA = [
    ['setslice', [], 0, None, 2, [_LEAF]], ['setslice', [], 1, 1, None, [_LEAF, _LEAF]],
    ['unroll', [0, 0]], ['split', [0], 0], ['query', [1]], ['reverse', [0]],
    ['setslice', [0], None, None, None, []], ['setrep', [], 0, 'count'],
    ['addmeas', [], [[1, F(1, 2), F(1)]], 'iter'], ['addmeas', [0, 0], [], 'iter'], ['dropmeas', [0]],
    ['addmeas', [1], [], 'list'], ['dropmeas', []],
    ['copy', [0], False], ['copy', [0], 'empty'], ['copy', [0, 0], 'nonempty'],
    ['setitem', [], 0, ['same']], ['setitem', [], -1, ['same']], ['setitem', [0], 0, ['same']],
    ['setslice', [], 1, 1, None, [_LEAF], [[0, []]]], ['setslice', [0], None, None, None, [], [[0, []], [0, [0]]]],
]


# ---------------------------------------------------------------------------------------------
# running histories
# ---------------------------------------------------------------------------------------------

def run_history(init_spec, ops=None, rng=None, length=0, probe_every=True):
    """Execute a history on the implementation.  `ops` given: replay exactly (skipping operations that
    do not apply); else generate `length` operations with `rng`.
    Returns a record with the executed ops, the Lean request, per-step implementation facts."""
    world = World(init_spec)
    init_dump = world.dump(world.root)
    next0 = world.next
    rec = {'init': init_spec, 'ops': [], 'lean_ops': [], 'dumps': [], 'errs': [], 'direct': [], 'kinds': [],
           'step_ops': [], 'opidx': []}
    rec['direct0'] = direct_predicates(world) or equality_predicates(world)
    steps = ops if ops is not None else range(length)
    for item in steps:
        op = item if ops is not None else rand_op(rng, world)
        if ops is not None and not applicable_pre(world, op):
            continue
        r = exec_op(world, op)
        if r is None:
            continue
        lean, err, out, pre = r
        rec['ops'].append(op)
        for sub_op, sub_dump in pre:
            rec['lean_ops'].append(sub_op)
            rec['errs'].append(None)
            rec['dumps'].append([sub_dump, '-'])
            rec['direct'].append(None)
            rec['step_ops'].append(op)
            rec['opidx'].append(len(rec['ops']) - 1)
        rec['step_ops'].append(op)
        rec['opidx'].append(len(rec['ops']) - 1)
        rec['lean_ops'].append(lean)
        rec['errs'].append(err)
        rec['dumps'].append([world.dump(world.root), '-' if out is None else world.dump(out)])
        rec['direct'].append((world.issue or direct_predicates(world) or equality_predicates(world, len(rec['ops']) * 7 + world.next))
                             if probe_every else None)
        rec['kinds'].append(op[0])
    rec['line'] = sx(['c09', 'check', init_dump, next0, rec['lean_ops'], rec['dumps']])
    rec['size'] = sum(1 for _ in world.nodes())
    return rec


HARD = (2, 3, 4)     # rep, vol, wf; of the measurements only the names (where the windows lie is C02's business)


def diff_trees(impl, model, path=()):
    """(hard difference or None, number of soft differences [uid, cache, pidx, parent, window positions])"""
    for i in HARD:
        if impl[i] != model[i]:
            return ('field %d at %s: implementation %s, model %s' % (i, list(path), impl[i], model[i]), 0)
    if [m[1] for m in impl[5]] != [m[1] for m in model[5]]:
        return ('measurement names at %s: implementation %s, model %s' % (list(path), impl[5], model[5]), 0)
    if len(impl[9]) != len(model[9]):
        return ('number of children at %s: implementation %d, model %d' % (list(path), len(impl[9]), len(model[9])), 0)
    soft = sum(1 for i in (1, 5, 6, 7, 8) if impl[i] != model[i])
    for k, (a, b) in enumerate(zip(impl[9], model[9])):
        h, s = diff_trees(a, b, path + (k,))
        if h:
            return h, 0
        soft += s
    return None, soft


def evaluate(rec, answer):
    """Compare one history with the model's answer. Returns a summary dict."""
    res = {'steps': len(rec['ops']), 'violation': None, 'drift': None, 'soft_steps': 0, 'same_steps': 0,
           'errors': {}, 'unsupported': 0}
    if rec['direct0']:
        res['violation'] = (-1, 'initial tree: ' + rec['direct0'])
        return res
    if not isinstance(answer, list) or answer[0] != 'ok':
        raise core.MachineryError('model rejected request: %r / %s' % (answer, rec['line'][:300]))
    if answer[1] != ['ok']:
        res['violation'] = (-1, 'initial tree judged %s' % answer[1])
        return res
    steps = answer[2:]
    for k, (st, err, dump, direct) in enumerate(zip(steps, rec['errs'], rec['dumps'], rec['direct'])):
        _tag, merr, mtree, _next, mout, verdict = st
        sop, oi = rec['step_ops'][k], rec['opidx'][k]
        label = sop[0] + ('(generator reading durations of %s while consumed)' % [q for _p, q in sop[6]]
                          if sop[0] == 'setslice' and len(sop) > 6 and sop[6] else '')
        # 1. the judge (Lean spec on the implementation's state) and the direct predicates
        if verdict != ['ok'] or direct:
            what = 'after %s %s' % (label, sop[1])
            if direct:
                what += ': ' + direct
            if verdict != ['ok']:
                what += '; the bookkeeping state violates the specification: %s' % sx(verdict)
            res['violation'] = (oi, what)
            return res
        if merr == 'unsupported':
            res['unsupported'] += 1
            res['drift'] = res['drift'] or None
            # the model does not cover this input; later steps cannot be compared
            return res
        if merr == 'bad_path':
            raise core.MachineryError('model could not resolve a path: %s' % rec['line'][:400])
        # 2. model against implementation
        ierr = err or '-'
        if err:
            res['errors'][err] = res['errors'].get(err, 0) + 1
        if ierr != merr:
            res['drift'] = (oi, 'after %s: implementation outcome %s, model outcome %s' % ([label, sop[1]], ierr, merr))
            return res
        impl_tree = None
        if mtree == 'same':
            res['same_steps'] += 1
        else:
            impl_tree = parse_sx(sx(dump[0]))
            hard, soft = diff_trees(impl_tree, mtree)
            if hard:
                res['drift'] = (oi, 'after %s: %s' % ([label, sop[1]], hard))
                return res
            res['soft_steps'] += 1 if soft else 0
        if mout != 'same':
            io = parse_sx(sx(dump[1]))
            if io == '-' or mout == '-':
                res['drift'] = (oi, 'copy result present on one side only')
                return res
            hard, soft = diff_trees(io, mout)
            if hard:
                res['drift'] = (oi, 'copy: ' + hard)
                return res
            res['soft_steps'] += 1 if soft else 0
    return res


def _json_ops(ops):
    return json.loads(json.dumps(ops, default=_jd))


def _jd(o):
    if isinstance(o, F):
        return {'F': [o.numerator, o.denominator]}
    raise TypeError(repr(o))


def _unjson(o):
    if isinstance(o, dict):
        if set(o) == {'F'}:
            return F(o['F'][0], o['F'][1])
        return {k: _unjson(v) for k, v in o.items()}
    if isinstance(o, list):
        return [_unjson(v) for v in o]
    return o


def check_records(recs):
    answers = core.Lean.run([r['line'] for r in recs])
    return [evaluate(r, a) for r, a in zip(recs, answers)]


def shrink(init_spec, ops, still_fails):
    """delta debugging on the operation list, then on the initial tree's children"""
    ops = list(ops)
    changed = True
    while changed:
        changed = False
        for i in range(len(ops) - 1, -1, -1):
            cand = ops[:i] + ops[i + 1:]
            if still_fails(init_spec, cand):
                ops = cand
                changed = True
    return init_spec, ops


def history_verdict(init_spec, ops):
    rec = run_history(init_spec, ops=ops)
    return rec, check_records([rec])[0]


def _violates(init_spec, ops):
    try:
        _rec, res = history_verdict(init_spec, ops)
    except core.MachineryError:
        return False
    return res['violation'] is not None


# -- worker ---------------------------------------------------------------------------------------

def _work(job):
    """job = ('random', [seeds], length) | ('seq', init_spec, [op lists])"""
    core.ensure_repo_on_path()
    kind = job[0]
    recs = []
    if kind == 'random':
        for seed in job[1]:
            rng = random.Random(seed)
            spec = rand_spec(rng, rng.choice([1, 2, 2, 3]), [rng.randrange(2, 14)])
            recs.append(run_history(spec, rng=rng, length=job[2]))
    else:
        for ops in job[2]:
            recs.append(run_history(job[1], ops=ops))
    out = []
    for rec, res in zip(recs, check_records(recs)):
        item = {'res': res, 'kinds': rec['kinds'], 'line_hash': hashlib.blake2b(rec['line'].encode(), digest_size=8).hexdigest(), 'size': rec['size'],
                'nsteps': len(rec['ops']), 'line': rec['line'] if (res['violation'] or res['drift']) else rec['line'][:500]}
        if res['violation'] or res['drift']:
            item['init'] = rec['init']
            item['ops'] = rec['ops']
        out.append(item)
    return out


def _run_jobs(ctx, jobs):
    if ctx.quick or len(jobs) == 1:
        for j in jobs:
            yield from _work(j)
    else:
        with multiprocessing.get_context('fork').Pool(min(16, os.cpu_count() or 1)) as pool:
            for part in pool.imap_unordered(_work, jobs):
                yield from part


def _account(ctx, items, family):
    """fold worker results into the context; report violations (shrunk) and drifts"""
    seen = ctx.extra.setdefault('_violation_signatures', set())
    for it in items:
        res = it['res']
        ctx.case('%s:%s:%s' % (family, it['line_hash'], it['line'][:200]), nontrivial=it['nsteps'] > 0,
                 sample=False)
        ctx.evaluations += max(it['nsteps'] - 1, 0)          # every step is compared and judged
        ctx.count(family + ':histories')
        ctx.count(family + ':steps', it['nsteps'])
        ctx.count('steps-identical-to-model', res['same_steps'])
        ctx.count('steps-soft-difference(uid/cache-presence/stale fields of detached nodes)', res['soft_steps'])
        ctx.count('model-unsupported', res['unsupported'])
        for k in it['kinds']:
            ctx.count('op:' + k)
        for e, n in res['errors'].items():
            ctx.count('error:' + e, n)
        sig = None
        if res['violation']:
            k, what = res['violation']
            sig = (it['ops'][k][0] if k >= 0 else 'init',
                   'cache' if ('cached-duration' in what or 'reports duration' in what) else
                   'eq' if 'compare' in what or 'comparing' in what else
                   'copy' if 'copy' in what else 'links')
        if res['violation'] and sig not in seen and len(seen) < 12:
            seen.add(sig)
            init, ops = it['init'], it['ops'][:k + 1]
            init, ops = shrink(init, ops, _violates)
            _rec, res2 = history_verdict(init, ops)
            what2 = res2['violation'][1] if res2['violation'] else what
            ctx.violation(what2, {'kind': 'history', 'init': _json_ops(init), 'ops': _json_ops(ops)})
        elif res['violation']:
            ctx.violations.append({'what': res['violation'][1], 'replay': None, 'found_input': True})
        elif res['drift']:
            k, what = res['drift']
            ctx.drift('Loop editing operations vs QP.C09.applyR', {'init': _json_ops(it['init']), 'ops': _json_ops(it['ops'][:k + 1])},
                      what, 'see case')


# ---------------------------------------------------------------------------------------------
# equality
# ---------------------------------------------------------------------------------------------

def _check_eq(ctx, n):
    """`Loop.__eq__` looks at structure, counts, waveforms and measurements only."""
    rng = ctx.fork('eq')
    lines, impl, meta = [], [], []
    for _ in range(n):
        spec = rand_spec(rng, rng.choice([1, 2, 3]), [rng.randrange(1, 10)])
        _strip_vol(spec)
        w = World(spec)
        a = w.root
        kind = rng.choice(['copy', 'bookkeeping', 'mutated', 'independent', 'rebuilt'])
        if kind == 'copy':
            b = a.copy_tree_structure()
        elif kind == 'bookkeeping':
            # same program, different caches / positions / parents
            b = a.copy_tree_structure()
            b.duration
            holder = build({'rep': 2, 'kids': [{'rep': 1, 'wf': [0, F(1), True, False]}]})
            holder.append_child(b)
            if rng.random() < 0.5:
                a.duration
        elif kind == 'mutated':
            b = a.copy_tree_structure()
            nodes = [m for _p, m in w.nodes(b)]
            t = rng.choice(nodes)
            how = rng.randrange(4)
            if how == 0:
                t.repetition_count = t.repetition_count + 1
            elif how == 1:
                t._waveform = mk_wf((3, F(7), True, False)) if t._waveform is None else None
            elif how == 2:
                t._measurements = [('m9', 0, 1)] if not t._measurements else None
            else:
                t.append_child(build({'rep': 1, 'wf': [1, F(1), True, False]}))
        elif kind == 'rebuilt':
            b = build(spec)
        else:
            spec2 = rand_spec(rng, rng.choice([1, 2]), [rng.randrange(1, 6)])
            _strip_vol(spec2)
            b = build(spec2)
        w.number(b)
        got = (a == b)
        lines.append(sx(['c09', 'eq', w.dump(a), w.dump(b)]))
        impl.append(bool(got))
        meta.append(kind)
    for line, got, ans, kind in zip(lines, impl, core.Lean.run(lines), meta):
        ctx.case(line)
        ctx.count('eq:' + kind + (':equal' if got else ':different'))
        want = ans[1] == 'true'
        expect = {'copy': True, 'bookkeeping': True, 'rebuilt': True, 'mutated': False}.get(kind)
        if expect is not None and got != expect:
            ctx.violation('Loop.__eq__ on a %s pair answered %s' % (kind, got), {'kind': 'eq', 'line': line, 'pair': kind})
        elif got != want:
            ctx.violation('Loop.__eq__ answered %s, structural comparison (counts, waveforms, measurements, children) %s'
                          % (got, want), {'kind': 'eq', 'line': line, 'pair': kind})


def _strip_vol(spec):
    spec['vol'] = False
    for k in spec.get('kids', []):
        _strip_vol(k)


# ---------------------------------------------------------------------------------------------
# known finding: parent pointers of detached nodes and copies (open)
# ---------------------------------------------------------------------------------------------

def pf_c09_2_witness():
    """Editing a copy (or a detached node) patches the cached duration of the ORIGINAL parent.
    Returns (reported, recomputed) of the original root after editing the copy."""
    spec = {'rep': 1, 'kids': [{'rep': 1, 'wf': [0, F(1), True, False]},
                              {'rep': 1, 'kids': [{'rep': 1, 'wf': [0, F(2), True, False]}]}]}
    root = build(spec)
    root.duration
    c = root[1].copy_tree_structure()
    c.append_child(waveform=mk_wf((0, F(5), True, False)))
    return core.to_frac(root.duration), recomputed_body(root) * root.repetition_count


def _check_beside(ctx, n):
    """PF-C09-2 stream: operations on a copy / a detached sub-tree next to the tree it came from; the
    model `applyBeside` keeps the defective behaviour, the judge decides about the ORIGINAL tree."""
    rng = ctx.fork('beside')
    listed = 'PF-C09-2' in {kf.get('finding') for kf in ctx.findings.for_property(PID)}
    lines, meta = [], []
    for _ in range(n):
        spec = rand_spec(rng, rng.choice([2, 2, 3]), [rng.randrange(3, 12)])
        w = World(spec)
        main = w.root
        inner = [(p, m) for p, m in w.nodes() if p]
        if not inner:
            continue
        for p, m in w.nodes():
            if rng.random() < 0.5:
                m.duration
        branching = [(p, m) for p, m in inner if len(m) > 0 or m._waveform is None]
        path, x = rng.choice(branching if branching and rng.random() < 0.8 else inner)
        mode = rng.choice(['copy', 'copy', 'copy-noparent', 'copy-noparent', 'copy-emptyparent', 'copy-newparent', 'detach'])
        if mode.startswith('copy'):
            how = {'copy': True, 'copy-noparent': False, 'copy-emptyparent': 'empty', 'copy-newparent': 'nonempty'}[mode]
            do_copy, _arg_, holder = copy_request(w, x, how)
            d = do_copy()
            bad = copy_issue(x, d, how, holder)
            ctx.case('beside-copy:%s:%s' % (mode, sx(w.dump(x))[:200]))
            if bad:
                ctx.violation(bad + ' (two-tree stream, %s)' % mode, {'kind': 'beside', 'mode': mode})
                continue
        else:
            par = x.parent
            k = next(j for j, c in enumerate(par) if c is x)      # identity, not Loop.__eq__
            par[k:k + 1] = []
            d = x
            main.duration
        w.number(d)
        for _step in range(rng.randrange(1, 4)):
            w.root = d
            hosts = [list(p) for p, m in w.nodes() if m._waveform is None]
            if hosts and rng.random() < 0.45:
                op = ['append', rng.choice(hosts), fresh_arg(rng), rng.choice(['loop', 'kwargs'])]
            else:
                op = rand_op(rng, w, max_nodes=40)
            if op[0] == 'setslice' and len(op) > 6:
                op = op[:6]
            if op[0] == 'copy' or not applicable_pre(w, op):
                w.root = main
                continue
            if op[0] == 'unroll' and not op[1]:
                # `d.unroll()` on the root of the side tree splices copies into the FORMER parent through the stale
                # parent pointer / index (same class PF-C09-2); the model has no parent to address: not generated
                ctx.count('beside:unroll-of-side-root-skipped')
                w.root = main
                continue
            # the known class is about DEFAULT copies and detached nodes; explicit / absent parents are outside it
            in_class = (mode in ('copy', 'detach') and d.parent is not None
                        and any(m is d.parent for _p, m in w.nodes(main)))
            t0, d0, next0 = w.dump(main), w.dump(d), w.next
            r = exec_op(w, op)
            w.root = main
            if r is None:
                continue
            lean, err, _out, _pre = r
            t1, d1 = w.dump(main), w.dump(d)
            direct = direct_predicates(w)
            w.root = d
            direct_d = direct_predicates(w, locations=False)
            w.root = main
            lines.append(sx(['c09', 'beside', t0, d0, next0, lean]))
            lines.append(sx(['c09', 'judge', t1]))
            lines.append(sx(['c09', 'judge', d1]))
            meta.append((op, in_class, t1, d1, err, direct, direct_d, mode))
            if direct:
                break           # the original tree is corrupt from here on
    answers = core.Lean.run(lines)
    for i, (op, in_class, t1, d1, err, direct, direct_d, mode) in enumerate(meta):
        ans, jt, jd = answers[3 * i], answers[3 * i + 1], answers[3 * i + 2]
        ctx.case(lines[3 * i])
        ctx.count('beside:' + mode + (':in-class' if in_class else ':outside-class'))
        bad_main = (jt != ['ok']) or direct
        if bad_main:
            what = ('an operation (%s) on a %s changed the ORIGINAL tree: %s %s' % (op[0], mode, direct or '', sx(jt)))
            if in_class and listed:
                ctx.count('beside:known-finding-reproduced')
                ctx.known_finding('PF-C09-2', 'editing a detached sub-tree / a copy that still points to its former parent '
                                  'corrupts the cached duration of the tree it came from (random two-tree stream)')
            else:
                ctx.violation(what, {'kind': 'beside', 'line': lines[3 * i], 'in_class': in_class})
                continue
        if jd != ['ok'] or direct_d:
            ctx.violation('the edited %s itself is incoherent after %s: %s %s' % (mode, op[0], direct_d or '', sx(jd)),
                          {'kind': 'beside', 'line': lines[3 * i]})
            continue
        if ans[0] != 'ok':
            raise core.MachineryError('beside request rejected: %r' % (ans,))
        if ans[3] == 'unsupported':
            ctx.count('model-unsupported')
            continue
        if (err or '-') != ans[3]:
            ctx.drift('operation beside another tree vs QP.C09.applyBeside', lines[3 * i], err or '-', ans[3])
            continue
        for impl, model, name in ((t1, ans[1], 'original tree'), (d1, ans[2], 'edited tree')):
            hard, soft = diff_trees(parse_sx(sx(impl)), model)
            if hard:
                ctx.drift('operation beside another tree vs QP.C09.applyBeside', lines[3 * i], name + ': ' + hard, '')
                break
            # cache presence/value of the original tree is what this finding is about: compare it as well
            if name == 'original tree' and parse_sx(sx(impl)) != model and in_class:
                ctx.count('beside:original-tree-cache-differs-from-model')


def _check_created_programs(ctx):
    """Programs as the LoopBuilder makes them (a repetition hands an empty measurement list to
    `add_measurements`): bookkeeping, equality with the copy / a fresh construction, judged by Lean too."""
    from qupulse.pulses import ConstantPT, RepetitionPT, SequencePT, ForLoopPT, TimeReversalPT
    c1, c2 = ConstantPT(8, {'A': .5}), ConstantPT(4, {'A': .25})
    pts = {
        'top-level repetition': RepetitionPT(c1, 3),
        'sequence with repetition': SequencePT(c2, RepetitionPT(c1, 3)),
        'nested repetitions': RepetitionPT(SequencePT(RepetitionPT(c1, 2), c2), 2),
        'repetition with measurements': RepetitionPT(c1, 3, measurements=[('m1', 0, 1)]),
        'sequence with measurements': SequencePT(c2, RepetitionPT(c1, 2), measurements=[('m2', 1, 2)]),
        'for loop': ForLoopPT(SequencePT(ConstantPT('4 + 4*i', {'A': .25}), RepetitionPT(c1, 2)), 'i', 3),
        'reversed': TimeReversalPT(SequencePT(c2, RepetitionPT(c1, 2))),
    }
    lines, names = [], []
    for name, pt in pts.items():
        program = pt.create_program()
        for variant, prog in (('created', program), ('copy', program.copy_tree_structure())):
            w = World.from_loop(prog)
            bad = direct_predicates(w) or equality_predicates(w, len(name))
            ctx.case('created-program:%s:%s' % (name, variant))
            ctx.count('created-programs')
            if bad:
                ctx.violation('program created from a pulse template (%s, %s): %s' % (name, variant, bad),
                              {'kind': 'created-program', 'template': name})
            lines.append(sx(['c09', 'judge', w.dump(prog)]))
            names.append((name, variant))
    for (name, variant), ans in zip(names, core.Lean.run(lines)):
        if ans != ['ok']:
            ctx.violation('program created from a pulse template (%s, %s) judged %s' % (name, variant, sx(ans)),
                          {'kind': 'created-program', 'template': name})


# ---------------------------------------------------------------------------------------------
# volatile counts whose value is not a natural number: judged on the implementation only
# ---------------------------------------------------------------------------------------------

FRAC_VALUES = [F(5, 2), F(3, 2), F(7, 4), F(1, 2), F(9, 4), F(5, 4), F(-3, 2), F(3), F(0)]


def frac_spec(rng, depth=0):
    """chains of single-child loops (what `_merge_single_child` / `cleanup` work on) whose counts mix plain
    integers (also negative), and volatile counts with non-integer values"""
    k = rng.random()
    if k < 0.45:
        spec = {'rep': rng.choice(FRAC_VALUES), 'vol': True}
    else:
        spec = {'rep': rng.choice([1, 2, 3, 3, 4, -1, -2, 0]), 'vol': False}
    spec.update({'wf': None, 'meas': [], 'kids': []})
    if depth >= 4 or (depth >= 1 and rng.random() < 0.25):
        spec['wf'] = rand_wf(rng)
        return spec
    n = 1 if rng.random() < 0.7 else 2
    spec['kids'] = [frac_spec(rng, depth + 1) for _ in range(n)]
    return spec


def frac_op(rng, world: World):
    nodes = list(world.nodes())
    for _ in range(40):
        path, node = rng.choice(nodes)
        path = list(path)
        k = rng.random()
        if k < 0.3:
            op = ['query', path[:rng.randrange(0, len(path) + 1)]]
        elif k < 0.5:
            if len(node) != 1:
                continue
            op = ['merge', path]
        elif k < 0.65:
            op = ['cleanup', path, rng.random() < 0.5, True]
        elif k < 0.75:
            op = ['setrep', path, rng.choice(FRAC_VALUES), 'volfrac']
        elif k < 0.82:
            op = ['setrep', path, rng.choice([-2, -1, 0, 2, 3]), 'count']
        elif k < 0.88:
            op = ['encapsulate', path]
        elif k < 0.93:
            if not any(c.repetition_count > 1 for c in node):
                continue
            op = ['split', path, None]
        else:
            if len(node) == 0 or node.repetition_count > 4:
                continue
            op = ['unrollchildren', path]
        if op[0] in ('merge', 'cleanup') and any(n._waveform is not None and len(n) > 0 for _p, n in world.nodes(node)):
            continue
        return op
    return ['query', []]


def run_judged_history(init_spec, ops=None, rng=None, length=0):
    """a history that is judged on the implementation only (no model run): dumps for the Lean judge and the
    direct predicates after every step"""
    world = World(init_spec)
    rec = {'init': init_spec, 'ops': [], 'lines': [sx(['c09', 'judge', world.dump(world.root)])],
           'direct': [direct_predicates(world)], 'errs': [None]}
    for item in (ops if ops is not None else range(length)):
        op = item if ops is not None else frac_op(rng, world)
        r = exec_op(world, op)
        if r is None:
            continue
        rec['ops'].append(op)
        rec['errs'].append(r[1])
        rec['lines'].append(sx(['c09', 'judge', world.dump(world.root)]))
        rec['direct'].append(direct_predicates(world))
    return rec


def judged_verdict(rec, answers):
    """index of the first operation after which the implementation violates the property, and why"""
    for k, (ans, direct) in enumerate(zip(answers, rec['direct'])):
        if ans != ['ok'] or direct:
            op = rec['ops'][k - 1] if k else ['initial tree', []]
            return k - 1, 'after %s %s: %s %s' % (op[0], op[1], direct or '', '' if ans == ['ok'] else sx(ans))
    return None


def _judged_violates(init_spec, ops):
    rec = run_judged_history(init_spec, ops=ops)
    return judged_verdict(rec, core.Lean.run(rec['lines'])) is not None


def _check_fractional_volatile(ctx, n):
    """Volatile counts evaluate an expression: `int()` rounds and clamps once, so a merged count is NOT the product of
    the two evaluated counts when a value is not a natural number (2.5 under 3: 2*3 = 6 before, round(7.5) = 8 after).
    The tree model multiplies integers, so these histories are judged on the implementation alone: after every step
    every node's reported duration equals the recomputation from leaves and (evaluated) counts, positions and
    parents are right, and Lean's `coherentB` accepts the dumped state."""
    rng = ctx.fork('fractional-volatile')
    recs = []
    for _ in range(n):
        recs.append(run_judged_history(frac_spec(rng), rng=rng, length=rng.randrange(4, 10)))
    flat = [l for r in recs for l in r['lines']]
    answers = core.Lean.run(flat)
    pos = 0
    reported = 0
    for rec in recs:
        ans = answers[pos:pos + len(rec['lines'])]
        pos += len(rec['lines'])
        ctx.case('fractional-volatile:' + rec['lines'][0][:200] + sx(_json_safe(rec['ops']))[:200])
        ctx.evaluations += len(rec['ops'])
        ctx.count('fractional-volatile:histories')
        ctx.count('fractional-volatile:steps', len(rec['ops']))
        for e in rec['errs']:
            if e:
                ctx.count('fractional-volatile:error:' + e)
        v = judged_verdict(rec, ans)
        if v and reported < 3:
            reported += 1
            k, what = v
            init, ops = shrink(rec['init'], rec['ops'][:k + 1], _judged_violates)
            r2 = run_judged_history(init, ops=ops)
            v2 = judged_verdict(r2, core.Lean.run(r2['lines']))
            ctx.violation((v2 or v)[1] + ' (volatile counts with non-integer values; judged on the implementation)',
                          {'kind': 'judged-history', 'init': _json_ops(init), 'ops': _json_ops(ops)})
        elif v:
            ctx.violations.append({'what': v[1], 'replay': None, 'found_input': True})


def _json_safe(ops):
    return [[str(x) if isinstance(x, F) else x for x in op] for op in ops]


def _known_findings(ctx):
    listed = {kf.get('finding') for kf in ctx.findings.for_property(PID)}
    rep, want = pf_c09_2_witness()
    ctx.case('pf-c09-2-witness', nontrivial=True)
    if rep != want:
        what = ('after editing a copy_tree_structure() copy of an inner node the ORIGINAL root reports duration %s, '
                'recomputed %s (the copy keeps the parent pointer; _invalidate_duration follows it)' % (rep, want))
        if 'PF-C09-2' in listed:
            ctx.known_finding('PF-C09-2', what)
        else:
            ctx.violation(what, {'kind': 'pf-c09-2'})


# ---------------------------------------------------------------------------------------------
# the run
# ---------------------------------------------------------------------------------------------

def _sequences(alphabet, max_len):
    for L in range(1, max_len + 1):
        yield from itertools.product(range(len(alphabet)), repeat=L)


def run(ctx: core.Ctx):
    ctx.rule = ('random histories of the public Loop editing operations (query, append_child [object / keyword form], '
                'item and slice assignment incl. extended and out-of-range slices and lazily evaluated values (generators that '
                'read durations of the target / ancestors / other nodes while Node.__setitem__ consumes them), waveform / repetition setters incl. '
                'volatile counts, unroll, unroll_children, split_one_child, encapsulate, _merge_single_child, cleanup, '
                'reverse_inplace, roll_constant_waveforms, copy_tree_structure) on real Loop trees (1-14 initial nodes, depth <= 3, '
                'counts in {-1,0,1..4,7,10^6}, 6% error-path operations, detached sub-trees and copies re-used as arguments); '
                'after EVERY step the full bookkeeping state is dumped, compared with the model and judged; plus all sequences '
                'over a fixed operation alphabet on a 4-node tree. A history is non-trivial when it has at least one step; '
                'distinct by request line')
    ctx.assumptions = [
        'waveforms are abstracted to (kind, duration, constant?, reversed?) records; durations are exact TimeType rationals',
        'smallest_factor_ge (sympy divisors) is modelled by its specification: the least divisor >= min_factor',
        'a volatile count is an expression: count*(-1)*(-1) evaluates to count, the model clamps after every factor; merges '
        'of a volatile count with a NEGATIVE integer count are not generated',
        '_merge_single_child hands the child measurement LIST OBJECT on (also an empty one): removed nodes that share a list '
        'object with the tree, the stash or each other are never re-used as arguments (the tree model has no list aliasing)',
        'input classes not generated: get_measurement_windows(drop=True) over measurements below a count <= 0 (numpy '
        'raises ValueError half-way) or producing more than 20000 windows (MemoryError with counts of 10^6), merging two volatile counts, directly or inside cleanup (PF-07/08), nodes carrying a '
        'waveform AND children for append_child / cleanup / roll_constant_waveforms (class docstring: either a waveform or children)',
        'operations address nodes of ONE tree whose root has no parent pointer; editing detached nodes / copies that still '
        'point to a former parent is the open finding PF-C09-2',
    ]
    warnings.simplefilter('ignore')
    # corpus first
    for rec in ctx.corpus():
        replay(ctx, rec, from_corpus=True)
        ctx.corpus_replayed += 1
    _known_findings(ctx)

    # exhaustive small scope
    max_len = ctx.n(3, 4)
    seqs = [[ALPHABET[i] for i in s] for s in _sequences(ALPHABET, max_len)]
    extra_len = ctx.n(2, 3)
    full = ALPHABET + ALPHABET_EXTRA
    seqs += [[full[i] for i in s] for s in _sequences(full, extra_len) if any(i >= len(ALPHABET) for i in s)]
    ctx.exhaustive_spaces.append('all operation sequences of length <= %d over a %d-letter alphabet (and length <= %d over %d letters) '
                                 'on the 4-node tree root[A[a], b]: %d histories'
                                 % (max_len, len(ALPHABET), extra_len, len(full), len(seqs)))
    chunk = 400
    jobs = [('seq', SMALL_TREE, seqs[i:i + chunk]) for i in range(0, len(seqs), chunk)]
    _account(ctx, _run_jobs(ctx, jobs), 'exhaustive')

    # random histories
    nh, length = ctx.n(500, 20000), ctx.n(30, 60)
    base = ctx.fork('histories')
    seeds = [base.getrandbits(48) for _ in range(nh)]
    chunk = 50
    jobs = [('random', seeds[i:i + chunk], length) for i in range(0, nh, chunk)]
    _account(ctx, _run_jobs(ctx, jobs), 'random')

    ctx.extra.pop('_violation_signatures', None)
    _check_eq(ctx, ctx.n(600, 10000))
    _check_beside(ctx, ctx.n(300, 6000))
    _check_created_programs(ctx)
    _check_fractional_volatile(ctx, ctx.n(400, 8000))
    tot = ctx.counters.get('steps-identical-to-model', 0) + ctx.counters.get(
        'steps-soft-difference(uid/cache-presence/stale fields of detached nodes)', 0)
    ctx.extra['structural_agreement'] = '%d of %d compared steps identical in every field (uids, caches, positions, parents)' % (
        ctx.counters.get('steps-identical-to-model', 0), tot)


def replay(ctx: core.Ctx, rec: dict, from_corpus: bool = False) -> bool:
    kind = rec.get('kind')
    before = len(ctx.violations)
    if kind == 'history':
        init, ops = _unjson(rec['init']), _unjson(rec['ops'])
        r, res = history_verdict(init, ops)
        ctx.case('replay:' + r['line'][:300])
        if res['violation']:
            ctx.violation(res['violation'][1], {'kind': 'history', 'init': rec['init'], 'ops': rec['ops']})
        elif res['drift'] and not from_corpus:
            print('model and implementation differ: %s' % (res['drift'][1],))
        elif res['drift']:
            ctx.drift('corpus history vs QP.C09.applyR', rec.get('_file'), res['drift'][1], '')
    elif kind == 'pf-c09-2':
        _known_findings(ctx)
    elif kind == 'created-program':
        _check_created_programs(ctx)
    elif kind == 'judged-history':
        r = run_judged_history(_unjson(rec['init']), ops=_unjson(rec['ops']))
        v = judged_verdict(r, core.Lean.run(r['lines']))
        ctx.case('replay:' + r['lines'][0][:300])
        if v:
            ctx.violation(v[1], {'kind': 'judged-history', 'init': rec['init'], 'ops': rec['ops']})
    elif kind == 'beside':
        # the two-tree stream is deterministic given the seed: re-run it at the recorded seed / tier
        sub = core.Ctx(ctx.pid, rec.get('tier', 'quick'), rec.get('seed', 0))
        sub.violations = ctx.violations
        _check_beside(sub, sub.n(300, 6000))
    elif kind == 'eq':
        ans = core.Lean.run([rec['line']])[0]
        print('model eq: %s' % ans)
    elif 'first_differences' in rec:
        # a correspondence that no longer checks: re-run the recorded histories
        for d in rec['first_differences']:
            case = d.get('case')
            if isinstance(case, dict) and 'init' in case:
                r, res = history_verdict(_unjson(case['init']), _unjson(case['ops']))
                if res['violation']:
                    ctx.violation(res['violation'][1], {'kind': 'history', 'init': case['init'], 'ops': case['ops']})
                elif res['drift']:
                    print('model and implementation differ: %s' % (res['drift'][1],))
                    ctx.drift(d.get('correspondence', 'history'), case, res['drift'][1], '')
                else:
                    print('model and implementation agree on this history now')
        if ctx.drifts:
            ctx.finish()
    return len(ctx.violations) == before
